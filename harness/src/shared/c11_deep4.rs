//! C11, fourth deepening wave: kinds qz / qf / aq / fqg.
//!
//!   qz  <frames> <gzi> <proper> <prior> <regions>
//!         frames  = `csize:hexdata,...` : the BGZF file is rebuilt block by block with
//!                   bgzf::io::Writer (one block per frame; an empty frame is the 28-byte EOF block);
//!                   csize is the size the block has in the file (checked)
//!         gzi     = `c:u,...` (`_` = empty): the gzi index handed to bgzf::io::IndexedReader after a
//!                   round trip through gzi::io::Writer / Reader
//!         proper  = 1: gzi is the index of the file (one entry per block but the first): verdict by
//!                   the naive parse of the uncompressed text; 0: entries were dropped (a sparse
//!                   index) or every uncompressed offset is off by one (a wrong index, still sorted
//!                   - C02 models partition_point on sorted indexes only): model fidelity only,
//!                   verdict skip
//!         prior   = calls made on the bgzf::io::IndexedReader before the queries (`u<p>` seek to
//!                   uncompressed offset p, `r<n>` read with an n-byte buffer, `f` fill_buf,
//!                   `c<n>` consume), C02's op language
//!         the fai index is built by fasta::io::Indexer reading THROUGH the BGZF reader and goes
//!         through the fai writer + reader; all regions are then queried on one
//!         fasta::io::IndexedReader<bgzf::io::IndexedReader<Cursor>>.  obs = `<fai index>|<results>`.
//!         model: NV.Fasta.Bgzip.index_bgzf, index_and_query_bgzf
//!   qf  <file> <regions>
//!         fasta::io::Indexer, fai::io::Writer -> bytes of the .fai file, fai::io::Reader on them,
//!         regions through IndexedReader with the index read back.  obs = `<fai bytes>|<results>`.
//!         model: NV.Fasta.ViaFile.via_file_many
//!   aq  <file> <cap> <codes> <regions>
//!         per region a fresh fasta::async::io::Reader over tokio::io::BufReader::with_capacity(cap)
//!         over a poll-scripted seekable source: index.query(region), seek(Start(pos)).await,
//!         read_sequence.await (to the end of the record).  codes: 0 = Pending, k+1 = Ready with at
//!         most k bytes (NV.Async.ReadExact.polls_of).  model: NV.Fasta.AsyncQuery
//!   fqg <file>
//!         obs = 1 when fastq::io::Reader::records reads the whole input without an error, else 0;
//!         model: NV.Fasta.FastqGrammar.fq_accepts

use std::{
    io::{self, BufRead, Cursor, Read, Seek, SeekFrom, Write},
    panic::AssertUnwindSafe,
    pin::Pin,
    task::{Context, Poll},
};

use noodles_bgzf as bgzf;
use noodles_fasta::{self as fasta, fai};
use nv::{Case, CaseWriter, Obs, Outcome, Rng, guarded, hex, unhex};

use super::{
    Mode, Reg, check_index, check_queries, fai_roundtrip, fmt_index, fmt_regions, fmt_results, gen_regions, index_all, naive_parse,
    parse_regions, read_fastq, to_region,
};

// -------------------------------------------------------------------------------------------
// qz

const EOF_BLOCK_LEN: usize = 28;

/// one BGZF block holding `data` (the EOF marker block when data is empty)
pub fn bgzf_block(data: &[u8]) -> Vec<u8> {
    let mut w = bgzf::io::Writer::new(Vec::new());
    w.write_all(data).unwrap();
    let mut out = w.finish().unwrap();
    if !data.is_empty() {
        out.truncate(out.len() - EOF_BLOCK_LEN);
    }
    out
}

pub struct Frames {
    pub data: Vec<Vec<u8>>,
    pub csize: Vec<usize>,
}

impl Frames {
    pub fn build(chunks: Vec<Vec<u8>>) -> Frames {
        let csize = chunks.iter().map(|c| bgzf_block(c).len()).collect();
        Frames { data: chunks, csize }
    }
    pub fn fmt(&self) -> String {
        if self.data.is_empty() {
            return "_".into();
        }
        self.data.iter().zip(&self.csize).map(|(d, c)| format!("{c}:{}", hex(d))).collect::<Vec<_>>().join(",")
    }
    pub fn parse(s: &str) -> Frames {
        if s == "_" {
            return Frames { data: vec![], csize: vec![] };
        }
        let mut data = Vec::new();
        let mut csize = Vec::new();
        for p in s.split(',') {
            let (c, d) = p.split_once(':').expect("frame");
            csize.push(c.parse().expect("csize"));
            data.push(unhex(d));
        }
        Frames { data, csize }
    }
    pub fn bytes(&self) -> Vec<u8> {
        let mut out = Vec::new();
        for (d, c) in self.data.iter().zip(&self.csize) {
            let b = bgzf_block(d);
            assert_eq!(b.len(), *c, "block size differs from the case's csize");
            out.extend(b);
        }
        out
    }
    pub fn text(&self) -> Vec<u8> {
        self.data.concat()
    }
    /// one entry (compressed offset, uncompressed offset) per block but the first
    pub fn gzi(&self) -> Vec<(u64, u64)> {
        let (mut c, mut u) = (0u64, 0u64);
        let mut out = Vec::new();
        for (k, (d, cs)) in self.data.iter().zip(&self.csize).enumerate() {
            if k > 0 {
                out.push((c, u));
            }
            c += *cs as u64;
            u += d.len() as u64;
        }
        out
    }
}

fn fmt_gzi(g: &[(u64, u64)]) -> String {
    if g.is_empty() {
        return "_".into();
    }
    g.iter().map(|(c, u)| format!("{c}:{u}")).collect::<Vec<_>>().join(",")
}

fn parse_gzi(s: &str) -> Vec<(u64, u64)> {
    if s == "_" {
        return vec![];
    }
    s.split(',')
        .map(|p| {
            let (c, u) = p.split_once(':').expect("gzi");
            (c.parse().unwrap(), u.parse().unwrap())
        })
        .collect()
}

fn gzi_roundtrip(entries: &[(u64, u64)]) -> Result<bgzf::gzi::Index, String> {
    let index = bgzf::gzi::Index::from(entries.to_vec());
    let mut w = bgzf::gzi::io::Writer::new(Vec::new());
    w.write_index(&index).map_err(|e| format!("write: {e}"))?;
    let bytes = w.into_inner();
    let back = bgzf::gzi::io::Reader::new(&bytes[..]).read_index().map_err(|e| format!("read: {e}"))?;
    if back != index {
        return Err("gzi differs after write + read".into());
    }
    Ok(back)
}

fn apply_prior<R: Read + Seek>(rd: &mut bgzf::io::IndexedReader<R>, prior: &str) -> Result<(), String> {
    if prior == "_" {
        return Ok(());
    }
    for op in prior.split(',') {
        let n: u64 = if op.len() > 1 { op[1..].parse().expect("prior") } else { 0 };
        let r: io::Result<()> = match &op[..1] {
            "u" => rd.seek(SeekFrom::Start(n)).map(|_| ()),
            "r" => {
                let mut buf = vec![0u8; n as usize];
                rd.read(&mut buf).map(|_| ())
            }
            "f" => rd.fill_buf().map(|_| ()),
            "c" => {
                rd.consume(n as usize);
                Ok(())
            }
            _ => panic!("prior op"),
        };
        r.map_err(|e| format!("{op}: {e}"))?;
    }
    Ok(())
}

pub fn run_qz(c: &Case) -> Obs {
    let frames = Frames::parse(&c.args[0]);
    let gzi = parse_gzi(&c.args[1]);
    let proper = c.args[2] == "1";
    let prior = c.args[3].clone();
    let regs = parse_regions(&c.args[4]);
    let z = frames.bytes();
    let text = frames.text();
    if proper && gzi != frames.gzi() {
        return Obs::fail("-", "harness-gzi-not-the-files", "");
    }
    // the fai index: the indexer reading through the BGZF reader
    let (recs, ierr) = index_all(bgzf::io::Reader::new(Cursor::new(z.clone())));
    let ix_obs = fmt_index(&recs, &ierr);
    let index = match fai_roundtrip(&recs) {
        Ok(ix) => ix,
        Err(d) => return Obs::fail("-", "fai-file-roundtrip", d),
    };
    let gzi_index = match gzi_roundtrip(&gzi) {
        Ok(g) => g,
        Err(d) => return Obs::fail("-", "gzi-file-roundtrip", d),
    };
    let mut inner = bgzf::io::IndexedReader::new(Cursor::new(z), gzi_index);
    if let Outcome::Panicked(_) | Outcome::Done(Err(_)) = guarded(AssertUnwindSafe(|| apply_prior(&mut inner, &prior))) {
        return Obs::fail("-", "bgzf-prior-call-failed", prior);
    }
    let mut rd = fasta::io::IndexedReader::new(inner, index);
    let res: Vec<Result<Vec<u8>, String>> = regs
        .iter()
        .map(|r| {
            let region = to_region(r);
            match guarded(AssertUnwindSafe(|| rd.query(&region))) {
                Outcome::Panicked(_) => Err("Panic".to_string()),
                Outcome::Done(Ok(rec)) => Ok(rec.sequence().as_ref().to_vec()),
                Outcome::Done(Err(e)) => Err(format!("Err:{}", nv::errkind(&e))),
            }
        })
        .collect();
    let obs = format!("{ix_obs}|{}", fmt_results(&res));
    if !proper {
        return Obs { obs, verdict: "skip".into(), nontrivial: false };
    }
    let nt = regs.len() > 1 && frames.data.iter().filter(|d| !d.is_empty()).count() > 1;
    Obs::ok(obs, nt)
        .with_verdict(check_index(&text, &recs, &ierr).and_then(|()| check_queries(&text, Mode::Bgzf(0), &recs, &regs, &res)))
}

/// cut `f` into blocks: sizes by style, with empty blocks sprinkled in
pub fn cut_blocks(rng: &mut Rng, f: &[u8], line_offs: &[usize]) -> Vec<Vec<u8>> {
    let mut cuts: Vec<usize> = Vec::new();
    match rng.below(5) {
        0 => {
            // tiny blocks
            let k = rng.range(1, 7) as usize;
            let mut i = k;
            while i < f.len() {
                cuts.push(i);
                i += k;
            }
        }
        1 => {
            // random sizes
            let mut i = 0usize;
            loop {
                i += rng.range(1, 120) as usize;
                if i >= f.len() {
                    break;
                }
                cuts.push(i);
            }
        }
        2 => {
            // boundaries at (or one byte around) the start of sequence lines
            for &o in line_offs {
                if rng.chance(1, 2) {
                    let p = (o as i64 + rng.range(0, 2) as i64 - 1).max(1) as usize;
                    if p < f.len() {
                        cuts.push(p);
                    }
                }
            }
        }
        3 => {
            // two or three big blocks
            for _ in 0..rng.range(1, 2) {
                if f.len() > 2 {
                    cuts.push(rng.range(1, f.len() as u64 - 1) as usize);
                }
            }
        }
        _ => {} // a single block
    }
    cuts.sort_unstable();
    cuts.dedup();
    let mut chunks: Vec<Vec<u8>> = Vec::new();
    let mut at = 0usize;
    for c in cuts.into_iter().chain(std::iter::once(f.len())) {
        if rng.chance(1, 12) {
            chunks.push(Vec::new()); // an empty block in the middle of the file
        }
        if c > at {
            chunks.push(f[at..c].to_vec());
            at = c;
        }
    }
    // the EOF marker (usually), sometimes two, sometimes none
    match rng.below(8) {
        0 => {}
        1 => {
            chunks.push(Vec::new());
            chunks.push(Vec::new());
        }
        _ => chunks.push(Vec::new()),
    }
    chunks
}

pub fn gen_qz(rng: &mut Rng, w: &mut CaseWriter, f: &[u8]) {
    let Some(naive) = naive_parse(f) else { return };
    let mut rin = Vec::new();
    let mut rbe = Vec::new();
    for n in &naive {
        if n.bases.is_empty() {
            continue;
        }
        let lb = n.lines.first().map(|l| l.bases as u64).unwrap_or(1);
        gen_regions(rng, &n.name, n.bases.len() as u64, lb, &mut rin, &mut rbe, f.len() as u64);
    }
    if rng.chance(1, 10) {
        rin.push(Reg { name: b"nosuchname".to_vec(), s: Some(1), e: Some(2) });
    }
    if rng.chance(1, 3) {
        // a few starts just beyond the length: an error with the repaired Record::query
        rin.extend(rbe.into_iter().take(2));
    }
    let offs: Vec<usize> = naive.iter().flat_map(|n| n.lines.iter().map(|l| l.off)).collect();
    let frames = Frames::build(cut_blocks(rng, f, &offs));
    let total = f.len() as u64;
    let prior = if rng.chance(1, 2) {
        "_".to_string()
    } else {
        (0..rng.range(1, 4))
            .map(|_| match rng.below(4) {
                0 => format!("u{}", rng.range(0, total.saturating_sub(1))),
                1 => format!("r{}", *rng.pick(&[1u64, 2, 7, 60, 500, 70000])),
                2 => "f".to_string(),
                _ => format!("c{}", rng.range(1, 90)),
            })
            .collect::<Vec<_>>()
            .join(",")
    };
    let gzi = frames.gzi();
    w.push("qz", vec![frames.fmt(), fmt_gzi(&gzi), "1".into(), prior.clone(), fmt_regions(&rin)]);
    if rng.chance(1, 6) && !gzi.is_empty() {
        // a WRONG index: every uncompressed offset shifted by one (still sorted); model fidelity only
        let up = rng.chance(1, 2);
        let shifted: Vec<(u64, u64)> = gzi.iter().map(|&(c, u)| (c, if up { u + 1 } else { u.saturating_sub(1) })).collect();
        let few: Vec<Reg> = rin.iter().take(12).cloned().collect();
        w.push("qz", vec![frames.fmt(), fmt_gzi(&shifted), "0".into(), prior.clone(), fmt_regions(&few)]);
    }
    if rng.chance(1, 4) && gzi.len() > 1 {
        // a sparse index: entries dropped (still sorted, still naming block starts)
        let sparse: Vec<(u64, u64)> = gzi.iter().copied().filter(|_| rng.chance(1, 2)).collect();
        if sparse.len() < gzi.len() {
            let few: Vec<Reg> = rin.iter().take(12).cloned().collect();
            w.push("qz", vec![frames.fmt(), fmt_gzi(&sparse), "0".into(), prior, fmt_regions(&few)]);
        }
    }
}

// -------------------------------------------------------------------------------------------
// qf

pub fn run_qf(c: &Case) -> Obs {
    let f = c.b(0);
    let regs = parse_regions(&c.args[1]);
    let (recs, _err) = index_all(&f[..]);
    let index = fai::Index::from(recs.clone());
    let mut wr = fai::io::Writer::new(Vec::new());
    if let Err(e) = wr.write_index(&index) {
        return Obs::fail("-", "fai-write-error", e.to_string());
    }
    let bytes = wr.into_inner();
    let back = match fai::io::Reader::new(&bytes[..]).read_index() {
        Ok(ix) => ix,
        Err(e) => {
            // names that are not UTF-8 do not read back: C17's finding fai-non-utf8-name
            let utf8 = recs.iter().all(|r| std::str::from_utf8(r.name()).is_ok());
            let obs = format!("{}|Err:Index", hex(&bytes));
            return if utf8 {
                Obs::fail(obs, "fai-file-unreadable", nv::errkind(&e))
            } else {
                Obs { obs, verdict: "skip".into(), nontrivial: false }
            };
        }
    };
    let same = back == index;
    let mut rd = fasta::io::IndexedReader::new(Cursor::new(f.clone()), back);
    let res: Vec<Result<Vec<u8>, String>> = regs
        .iter()
        .map(|r| {
            let region = to_region(r);
            match guarded(AssertUnwindSafe(|| rd.query(&region))) {
                Outcome::Panicked(_) => Err("Panic".to_string()),
                Outcome::Done(Ok(rec)) => Ok(rec.sequence().as_ref().to_vec()),
                Outcome::Done(Err(e)) => Err(format!("Err:{}", nv::errkind(&e))),
            }
        })
        .collect();
    let obs = format!("{}|{}", hex(&bytes), fmt_results(&res));
    if !same {
        return Obs::fail(obs, "fai-file-roundtrip", "index differs after write + read");
    }
    Obs::ok(obs, regs.len() > 1 && recs.len() > 1).with_verdict(check_queries(&f, Mode::Cursor, &recs, &regs, &res))
}

pub fn gen_qf(rng: &mut Rng, w: &mut CaseWriter, f: &[u8]) {
    let Some(naive) = naive_parse(f) else { return };
    let mut rin = Vec::new();
    let mut rbe = Vec::new();
    for n in &naive {
        if n.bases.is_empty() {
            continue;
        }
        let lb = n.lines.first().map(|l| l.bases as u64).unwrap_or(1);
        gen_regions(rng, &n.name, n.bases.len() as u64, lb, &mut rin, &mut rbe, f.len() as u64);
    }
    w.push("qf", vec![hex(f), fmt_regions(&rin)]);
}

// -------------------------------------------------------------------------------------------
// aq: a poll-scripted seekable source

struct AdvSeek {
    data: Vec<u8>,
    pos: usize,
    codes: Vec<usize>,
    at: usize,
    polls: u64,
}

impl tokio::io::AsyncRead for AdvSeek {
    fn poll_read(mut self: Pin<&mut Self>, cx: &mut Context<'_>, buf: &mut tokio::io::ReadBuf<'_>) -> Poll<io::Result<()>> {
        self.polls += 1;
        if self.polls > 10_000_000 {
            return Poll::Ready(Err(io::Error::other("poll limit")));
        }
        let left = self.data.len().saturating_sub(self.pos);
        let k = if self.at < self.codes.len() {
            let c = self.codes[self.at];
            self.at += 1;
            if c == 0 {
                cx.waker().wake_by_ref();
                return Poll::Pending;
            }
            (c - 1).max(1)
        } else {
            usize::MAX
        };
        let n = k.min(buf.remaining()).min(left);
        let p = self.pos;
        buf.put_slice(&self.data[p..p + n]);
        self.pos += n;
        Poll::Ready(Ok(()))
    }
}

impl tokio::io::AsyncSeek for AdvSeek {
    fn start_seek(mut self: Pin<&mut Self>, position: SeekFrom) -> io::Result<()> {
        match position {
            SeekFrom::Start(p) => {
                self.pos = usize::try_from(p).unwrap_or(usize::MAX);
                Ok(())
            }
            _ => Err(io::Error::new(io::ErrorKind::Unsupported, "seek")),
        }
    }
    fn poll_complete(self: Pin<&mut Self>, _cx: &mut Context<'_>) -> Poll<io::Result<u64>> {
        Poll::Ready(Ok(self.pos as u64))
    }
}

fn block_on<F: std::future::Future>(f: F) -> F::Output {
    tokio::runtime::Builder::new_current_thread().build().unwrap().block_on(f)
}

fn parse_codes(s: &str) -> Vec<usize> {
    if s == "_" {
        return vec![];
    }
    s.split(',').map(|t| t.parse().expect("code")).collect()
}

pub fn run_aq(c: &Case) -> Obs {
    let f = c.b(0);
    let cap = (c.u(1) as usize).max(1);
    let codes = parse_codes(&c.args[2]);
    let regs = parse_regions(&c.args[3]);
    let (recs, _err) = index_all(&f[..]);
    let index = fai::Index::from(recs.clone());
    let mut res: Vec<Result<Vec<u8>, String>> = Vec::new();
    for r in &regs {
        let region = to_region(r);
        let src = AdvSeek { data: f.clone(), pos: 0, codes: codes.clone(), at: 0, polls: 0 };
        let index = &index;
        let out = guarded(AssertUnwindSafe(|| {
            block_on(async move {
                let pos = index.query(&region)?;
                let mut rd = fasta::r#async::io::Reader::new(tokio::io::BufReader::with_capacity(cap, src));
                rd.seek(SeekFrom::Start(pos)).await?;
                let mut buf = Vec::new();
                rd.read_sequence(&mut buf).await?;
                Ok::<Vec<u8>, io::Error>(buf)
            })
        }));
        res.push(match out {
            Outcome::Panicked(_) => Err("Panic".to_string()),
            Outcome::Done(Ok(b)) => Ok(b),
            Outcome::Done(Err(e)) => Err(format!("Err:{}", nv::errkind(&e))),
        });
    }
    let obs = fmt_results(&res);
    Obs::ok(obs, regs.len() > 1).with_verdict(check_queries(&f, Mode::Buf(cap), &recs, &regs, &res))
}

pub fn gen_aq(rng: &mut Rng, w: &mut CaseWriter, f: &[u8]) {
    let Some(naive) = naive_parse(f) else { return };
    // to-end regions only: the async reader has no length limit
    let mut regs: Vec<Reg> = Vec::new();
    for n in &naive {
        let len = n.bases.len() as u64;
        if len == 0 {
            continue;
        }
        let lb = n.lines.first().map(|l| l.bases as u64).unwrap_or(1).max(1);
        regs.push(Reg { name: n.name.clone(), s: None, e: None });
        regs.push(Reg { name: n.name.clone(), s: Some(1), e: None });
        regs.push(Reg { name: n.name.clone(), s: Some(len), e: None });
        for _ in 0..4 {
            let s = match rng.below(3) {
                0 => (rng.range(0, len / lb) * lb + rng.range(0, 2)).clamp(1, len),
                _ => rng.range(1, len),
            };
            regs.push(Reg { name: n.name.clone(), s: Some(s), e: None });
        }
        if rng.chance(1, 4) {
            regs.push(Reg { name: n.name.clone(), s: Some(len + rng.range(1, 3)), e: None });
        }
    }
    if rng.chance(1, 10) {
        regs.push(Reg { name: b"nosuchname".to_vec(), s: Some(1), e: None });
    }
    if regs.is_empty() {
        return;
    }
    let cap = *rng.pick(&[1usize, 2, 3, 5, 7, 16, 64, 8192]);
    let style = rng.below(4);
    let codes: Vec<String> = (0..rng.range(0, 50))
        .map(|_| match style {
            0 => 2,
            1 => rng.range(0, 4),
            2 => rng.range(0, 40),
            _ => {
                if rng.chance(1, 3) {
                    0
                } else {
                    rng.range(1, 9)
                }
            }
        })
        .map(|c| c.to_string())
        .collect();
    let codes = if codes.is_empty() { "_".to_string() } else { codes.join(",") };
    w.push("aq", vec![hex(f), cap.to_string(), codes, fmt_regions(&regs)]);
}

// -------------------------------------------------------------------------------------------
// fqg

pub fn run_fqg(c: &Case) -> Obs {
    let f = c.b(0);
    let (recs, err) = read_fastq(&f[..]);
    let accepted = err.is_none();
    Obs::ok(if accepted { "1" } else { "0" }, recs.len() > 1 || !accepted)
}
