// C06 harness, part 2: I/O helpers and the property oracles (included by bin/c06.rs).

type V = Result<(), (String, String)>;
fn bad(tag: &str, detail: impl Into<String>) -> V {
    Err((tag.to_string(), detail.into()))
}

fn io_g<T>(what: &str, f: impl FnOnce() -> io::Result<T> + std::panic::UnwindSafe) -> Result<io::Result<T>, (String, String)> {
    match guarded(f) {
        Outcome::Done(r) => Ok(r),
        Outcome::Panicked(m) => Err((format!("panic-{what}"), m)),
    }
}

fn sam_write_header(h: &sam::Header) -> io::Result<Vec<u8>> {
    let mut w = sam::io::Writer::new(Vec::new());
    w.write_header(h)?;
    Ok(w.into_inner())
}

fn sam_write_record(h: &sam::Header, r: &dyn sam::alignment::Record) -> io::Result<Vec<u8>> {
    let mut w = sam::io::Writer::new(Vec::new());
    w.write_alignment_record(h, r)?;
    Ok(w.into_inner())
}

fn sam_read_all(text: &[u8]) -> io::Result<(sam::Header, Vec<RecordBuf>)> {
    let mut rd = sam::io::Reader::new(text);
    let h = rd.read_header()?;
    let mut out = Vec::new();
    let mut rec = RecordBuf::default();
    while rd.read_record_buf(&h, &mut rec)? != 0 {
        out.push(rec.clone());
    }
    Ok((h, out))
}

fn sam_read_lazy(text: &[u8]) -> io::Result<(sam::Header, Vec<sam::Record>)> {
    let mut rd = sam::io::Reader::new(text);
    let h = rd.read_header()?;
    let mut out = Vec::new();
    let mut rec = sam::Record::default();
    while rd.read_record(&mut rec)? != 0 {
        out.push(rec.clone());
    }
    Ok((h, out))
}

fn bam_write_all(h: &sam::Header, recs: &[&dyn sam::alignment::Record]) -> io::Result<Vec<u8>> {
    let mut w = bam::io::Writer::from(Vec::new());
    w.write_header(h)?;
    for r in recs {
        w.write_alignment_record(h, *r)?;
    }
    Ok(w.into_inner())
}

fn bam_read_all(bytes: &[u8]) -> io::Result<(sam::Header, Vec<RecordBuf>)> {
    let mut rd = bam::io::Reader::from(bytes);
    let h = rd.read_header()?;
    let mut out = Vec::new();
    let mut rec = RecordBuf::default();
    while rd.read_record_buf(&h, &mut rec)? != 0 {
        out.push(rec.clone());
    }
    Ok((h, out))
}

// ---- canonical, order-sensitive dump of a header (IndexMap equality ignores order)

fn dump_other<S>(of: &indexmap::IndexMap<Other<S>, BString>) -> String
where
    S: map::tag::Standard,
{
    let mut s = String::new();
    for (t, v) in of {
        let b: &[u8; 2] = t.as_ref();
        s.push_str(&format!(" {}={}", hex(b), hex(v.as_ref())));
    }
    s
}

fn dump_header(h: &sam::Header) -> Vec<(String, String)> {
    // (class, text) lines; the class is used as the failure tag
    let mut out = Vec::new();
    match h.header() {
        None => out.push(("hd".to_string(), "HD none".to_string())),
        Some(m) => out.push((
            "hd".to_string(),
            format!("HD {}.{}{}", m.version().major(), m.version().minor(), dump_other(m.other_fields())),
        )),
    }
    out.push(("sq-count".into(), format!("nSQ {}", h.reference_sequences().len())));
    for (n, m) in h.reference_sequences() {
        out.push(("sq".into(), format!("SQ {} {}{}", hex(n.as_ref()), usize::from(m.length()), dump_other(m.other_fields()))));
    }
    out.push(("rg-count".into(), format!("nRG {}", h.read_groups().len())));
    for (n, m) in h.read_groups() {
        out.push(("rg-order".into(), format!("RG {}{}", hex(n.as_ref()), dump_other(m.other_fields()))));
    }
    out.push(("pg-count".into(), format!("nPG {}", h.programs().as_ref().len())));
    for (n, m) in h.programs().as_ref() {
        out.push(("pg-order".into(), format!("PG {}{}", hex(n.as_ref()), dump_other(m.other_fields()))));
    }
    out.push(("co-count".into(), format!("nCO {}", h.comments().len())));
    for c in h.comments() {
        out.push(("co".into(), format!("CO {}", hex(c.as_ref()))));
    }
    out
}

fn cmp_headers(prefix: &str, a: &sam::Header, b: &sam::Header) -> V {
    let (da, db) = (dump_header(a), dump_header(b));
    for (x, y) in da.iter().zip(db.iter()) {
        if x != y {
            return bad(&format!("{prefix}-{}", x.0), format!("expected [{}] got [{}]", x.1, y.1));
        }
    }
    if da.len() != db.len() {
        return bad(&format!("{prefix}-length"), format!("{} vs {} lines", da.len(), db.len()));
    }
    Ok(())
}

// ---- record comparison

fn by_value(v: &Val) -> Val {
    match v {
        Val::Num(t, n) if "cCsSiI".contains(*t) => Val::Num('i', *n),
        o => o.clone(),
    }
}

const BASES: &[u8; 16] = b"=ACMGRSVTWYHKDBN";
fn norm_base(b: u8) -> u8 {
    let u = b.to_ascii_uppercase();
    if BASES.contains(&u) { u } else { b'N' }
}

/// integers by numeric value (SAM text carries no width)
fn canon_sam(s: &Spec) -> Spec {
    let mut n = s.clone();
    for (_, v) in n.data.iter_mut() {
        *v = by_value(v);
    }
    n
}

/// additionally the BAM base alphabet (case folding, non-IUPAC -> N)
fn canon_bam(s: &Spec) -> Spec {
    let mut n = canon_sam(s);
    n.seq = s.seq.iter().map(|b| norm_base(*b)).collect();
    n
}

fn val_class(v: &Val) -> &'static str {
    match v {
        Val::Num('A', _) => "char",
        Val::Num('f', _) => "float",
        Val::Num(_, _) => "int",
        Val::Str('Z', _) => "string",
        Val::Str(_, _) => "hex",
        Val::Arr('f', _) => "array-float",
        Val::Arr(_, _) => "array-int",
    }
}

/// first differing field, as a tag suffix derived from the *expected* record
fn first_diff(exp: &Spec, got: &Spec) -> Option<String> {
    if exp.name != got.name {
        return Some("name".into());
    }
    if exp.flags != got.flags {
        return Some("flags".into());
    }
    if exp.rid != got.rid {
        return Some("rname".into());
    }
    if exp.pos != got.pos {
        return Some("pos".into());
    }
    if exp.mapq != got.mapq {
        return Some("mapq".into());
    }
    if exp.cigar != got.cigar {
        return Some("cigar".into());
    }
    if exp.mrid != got.mrid {
        return Some(if exp.mrid == exp.rid && exp.rid.is_some() { "rnext-eq".into() } else { "rnext".into() });
    }
    if exp.mpos != got.mpos {
        return Some("pnext".into());
    }
    if exp.tlen != got.tlen {
        return Some("tlen".into());
    }
    if exp.seq != got.seq {
        return Some("seq".into());
    }
    if exp.qual != got.qual {
        if exp.qual == [9] {
            return Some("qual-single-star".into());
        }
        return Some("qual".into());
    }
    if exp.data.len() != got.data.len() {
        return Some("aux-count".into());
    }
    for ((te, ve), (tg, vg)) in exp.data.iter().zip(got.data.iter()) {
        if te != tg {
            return Some("aux-tag-order".into());
        }
        if ve != vg {
            return Some(format!("aux-{}-roundtrip", val_class(ve)));
        }
    }
    None
}

fn has_nonfinite_array(s: &Spec) -> bool {
    s.data.iter().any(|(_, v)| match v {
        Val::Arr('f', xs) => xs.iter().any(|b| !f32::from_bits(*b as u32).is_finite()),
        _ => false,
    })
}

// ---- the harness' own statement of which records are valid SAM data (independent of the writer)

fn consumes_read(k: u8) -> bool {
    matches!(k, 0 | 1 | 4 | 7 | 8)
}

fn invalid_reason(s: &Spec, nref: usize) -> Option<&'static str> {
    if let Some(n) = &s.name {
        if n.is_empty() || n.len() > 254 || n == b"*" || !n.iter().all(|b| (0x21..=0x7e).contains(b) && *b != b'@') {
            return Some("name");
        }
    }
    if s.rid.is_some_and(|i| i >= nref) || s.mrid.is_some_and(|i| i >= nref) {
        return Some("rid");
    }
    if s.pos > (1 << 31) - 1 || s.mpos > (1 << 31) - 1 {
        return Some("pos");
    }
    let rl: usize = s.cigar.iter().filter(|(k, _)| consumes_read(*k)).map(|(_, l)| *l).sum();
    if !s.seq.is_empty() && rl > 0 && rl != s.seq.len() {
        return Some("seq-cigar");
    }
    if !s.seq.iter().all(|b| b.is_ascii_alphabetic() || *b == b'=' || *b == b'.') {
        return Some("seq");
    }
    if !s.qual.is_empty() && s.qual.len() != s.seq.len() {
        return Some("qual-len");
    }
    if s.qual.iter().any(|q| *q > 93) {
        return Some("qual");
    }
    for (t, v) in &s.data {
        if !(t[0].is_ascii_alphabetic() && t[1].is_ascii_alphanumeric()) {
            return Some("aux-tag");
        }
        match v {
            Val::Num('A', c) if !(0x21..=0x7e).contains(c) => return Some("aux-char"),
            Val::Num('f', b) if !f32::from_bits(*b as u32).is_finite() => return Some("aux-float"),
            Val::Str('Z', b) if !b.iter().all(|c| (0x20..=0x7e).contains(c)) => return Some("aux-string"),
            Val::Str('H', b) if b.len() % 2 != 0 || !b.iter().all(|c| c.is_ascii_digit() || (b'A'..=b'F').contains(c)) => {
                return Some("aux-hex");
            }
            Val::Arr('f', xs) if xs.iter().any(|b| !f32::from_bits(*b as u32).is_finite()) => return Some("aux-array-float"),
            _ => {}
        }
    }
    None
}

// ---- every accessor of the alignment::Record trait, evaluated on any record type

#[derive(Debug, PartialEq, Clone)]
struct View {
    spec: Spec,
    cigar_len: usize,
    cigar_empty: bool,
    seq_len: usize,
    seq_empty: bool,
    seq_get: Vec<Option<u8>>,
    qual_len: usize,
    qual_empty: bool,
    data_count: usize,
    data_empty: bool,
    data_get: Vec<Option<Val>>,
    span: Option<usize>,
    end: Option<usize>,
}

fn io_s<T>(what: &str, r: io::Result<T>) -> Result<T, String> {
    r.map_err(|e| format!("{what}: {e}"))
}

fn view_of(h: &sam::Header, r: &dyn sam::alignment::Record) -> Result<View, String> {
    let mut s = Spec::default();
    s.name = r.name().map(|n| n.to_vec());
    s.flags = u16::from(io_s("flags", r.flags())?);
    s.rid = io_s("reference_sequence_id", r.reference_sequence_id(h).transpose())?;
    s.pos = io_s("alignment_start", r.alignment_start().transpose())?.map(usize::from).unwrap_or(0);
    s.mapq = io_s("mapping_quality", r.mapping_quality().transpose())?.map(|m| m.get()).unwrap_or(255);
    let cigar = r.cigar();
    for op in cigar.iter() {
        let op = io_s("cigar.iter", op)?;
        s.cigar.push((code_of(op.kind()), op.len()));
    }
    s.mrid = io_s("mate_reference_sequence_id", r.mate_reference_sequence_id(h).transpose())?;
    s.mpos = io_s("mate_alignment_start", r.mate_alignment_start().transpose())?.map(usize::from).unwrap_or(0);
    s.tlen = io_s("template_length", r.template_length())?;
    let seq = r.sequence();
    s.seq = seq.iter().collect();
    let qual = r.quality_scores();
    for q in qual.iter() {
        s.qual.push(io_s("quality_scores.iter", q)?);
    }
    let data = r.data();
    let mut data_get = Vec::new();
    for f in data.iter() {
        let (t, v) = io_s("data.iter", f)?;
        let vb: Value = io_s("data value", v.try_into())?;
        let b: &[u8; 2] = t.as_ref();
        s.data.push((*b, val_from_noodles(&vb)));
    }
    for (t, _) in &s.data {
        let tag = Tag::new(t[0], t[1]);
        match data.get(&tag) {
            None => data_get.push(None),
            Some(v) => {
                let vb: Value = io_s("data.get value", io_s("data.get", v)?.try_into())?;
                data_get.push(Some(val_from_noodles(&vb)));
            }
        }
    }
    let n = seq.len();
    let idx = [0usize, 1, n / 2, n.wrapping_sub(1), n, n + 1];
    Ok(View {
        cigar_len: cigar.len(),
        cigar_empty: cigar.is_empty(),
        seq_len: seq.len(),
        seq_empty: seq.is_empty(),
        seq_get: idx.iter().map(|i| seq.get(*i)).collect(),
        qual_len: qual.len(),
        qual_empty: qual.is_empty(),
        data_count: s.data.len(),
        data_empty: data.is_empty(),
        data_get,
        span: io_s("alignment_span", r.alignment_span().transpose())?,
        end: io_s("alignment_end", r.alignment_end().transpose())?.map(usize::from),
        spec: s,
    })
}

fn canon_view(v: &View) -> View {
    let mut c = v.clone();
    c.spec = canon_sam(&v.spec);
    c.data_get = v.data_get.iter().map(|o| o.as_ref().map(by_value)).collect();
    c
}

/// compare every accessor of a lazily read record with its eager twin (the same trait evaluated
/// on the RecordBuf parsed from the same bytes); integer tags by value
fn cmp_views(prefix: &str, h: &sam::Header, lazy: &dyn sam::alignment::Record, eager: &RecordBuf) -> V {
    let ve = match guarded(std::panic::AssertUnwindSafe(|| view_of(h, eager))) {
        Outcome::Done(Ok(v)) => canon_view(&v),
        Outcome::Done(Err(e)) => return bad(&format!("{prefix}-eager-accessor-error"), e),
        Outcome::Panicked(m) => return bad(&format!("panic-{prefix}-eager-accessor"), m),
    };
    let vl = match guarded(std::panic::AssertUnwindSafe(|| view_of(h, lazy))) {
        Outcome::Done(Ok(v)) => canon_view(&v),
        Outcome::Done(Err(e)) => return bad(&format!("{prefix}-accessor-error"), format!("{e} : {}", dump_spec(&ve.spec))),
        Outcome::Panicked(m) => return bad(&format!("panic-{prefix}-accessor"), m),
    };
    let d = |f: &str, a: String, b: String| bad(&format!("{prefix}-accessor-{f}"), format!("lazy {a} eager {b} : {}", dump_spec(&ve.spec)));
    if let Some(f) = first_diff(&ve.spec, &vl.spec) {
        return d(&f, dump_spec(&vl.spec), dump_spec(&ve.spec));
    }
    if vl.cigar_len != ve.cigar_len || vl.cigar_len != vl.spec.cigar.len() {
        return d("cigar-len", format!("{} (iter yields {})", vl.cigar_len, vl.spec.cigar.len()), ve.cigar_len.to_string());
    }
    if vl.cigar_empty != ve.cigar_empty {
        return d("cigar-is-empty", vl.cigar_empty.to_string(), ve.cigar_empty.to_string());
    }
    if vl.seq_len != ve.seq_len || vl.seq_len != vl.spec.seq.len() {
        return d("sequence-len", vl.seq_len.to_string(), ve.seq_len.to_string());
    }
    if vl.seq_empty != ve.seq_empty {
        return d("sequence-is-empty", vl.seq_empty.to_string(), ve.seq_empty.to_string());
    }
    if vl.seq_get != ve.seq_get {
        return d("sequence-get", format!("{:?}", vl.seq_get), format!("{:?}", ve.seq_get));
    }
    if vl.qual_len != ve.qual_len || vl.qual_len != vl.spec.qual.len() {
        return d("quality-scores-len", vl.qual_len.to_string(), ve.qual_len.to_string());
    }
    if vl.qual_empty != ve.qual_empty {
        return d("quality-scores-is-empty", vl.qual_empty.to_string(), ve.qual_empty.to_string());
    }
    if vl.data_count != ve.data_count {
        return d("data-count", vl.data_count.to_string(), ve.data_count.to_string());
    }
    if vl.data_empty != ve.data_empty {
        return d("data-is-empty", vl.data_empty.to_string(), ve.data_empty.to_string());
    }
    if vl.data_get != ve.data_get {
        return d("data-get", format!("{:?}", vl.data_get), format!("{:?}", ve.data_get));
    }
    if vl.span != ve.span {
        return d("alignment-span", format!("{:?}", vl.span), format!("{:?}", ve.span));
    }
    if vl.end != ve.end {
        return d("alignment-end", format!("{:?}", vl.end), format!("{:?}", ve.end));
    }
    Ok(())
}

fn bam_read_lazy(bytes: &[u8]) -> io::Result<(sam::Header, Vec<bam::Record>)> {
    let mut rd = bam::io::Reader::from(bytes);
    let h = rd.read_header()?;
    let mut out = Vec::new();
    let mut rec = bam::Record::default();
    while rd.read_record(&mut rec)? != 0 {
        out.push(rec.clone());
    }
    Ok((h, out))
}

// ---- rt: the record property

fn run_rt(c: &Case) -> Obs {
    let mut rng = Rng(c.u(0));
    let n = c.u(1) as usize;
    let (header, _) = gen_header(&mut rng, false);
    let nref = header.reference_sequences().len();
    let specs: Vec<Spec> = (0..n).map(|_| gen_record(&mut rng, nref)).collect();
    let r = check_rt(&header, &specs);
    Obs { obs: "-".into(), verdict: "ok".into(), nontrivial: true }.with_verdict(r)
}

fn check_rt(header: &sam::Header, specs: &[Spec]) -> V {
    let nref = header.reference_sequences().len();
    // header text; a header the writer rejects is outside this case's scope
    let htext = match io_g("sam-write-header", || sam_write_header(header))? {
        Ok(t) => t,
        Err(_) => return Ok(()),
    };
    // 1. write each record; rejected records are dropped, but a valid record must be accepted
    let mut kept: Vec<Spec> = Vec::new();
    let mut text = htext.clone();
    for s in specs {
        let rb = to_record_buf(s);
        let why = invalid_reason(s, nref);
        match io_g("sam-write-record", std::panic::AssertUnwindSafe(|| sam_write_record(header, &rb)))? {
            Ok(t) => {
                if why.is_none() {
                    kept.push(s.clone());
                    text.extend_from_slice(&t);
                } else {
                    // accepted although outside the data model: still must not break the file
                    // for its neighbours; keep it only if it parses back to itself (no claim made)
                }
            }
            Err(e) => {
                if why.is_none() {
                    return bad("sam-writer-rejects-valid", format!("{} : {}", e, dump_spec(s)));
                }
            }
        }
    }
    // 2. read back (eager)
    let (h2, recs) = match io_g("sam-read", || sam_read_all(&text))? {
        Ok(x) => x,
        Err(e) => return bad("sam-reader-rejects-own-output", format!("{e} : {}", hex(&text[..text.len().min(400)]))),
    };
    cmp_headers("sam-header", header, &h2)?;
    if recs.len() != kept.len() {
        return bad("sam-record-count", format!("{} written {} read", kept.len(), recs.len()));
    }
    let got: Vec<Spec> = recs.iter().map(from_record_buf).collect();
    // failures of an input class that is reported but must not hide other failures of the same case
    let mut deferred: Option<(String, String)> = None;
    let mut skip: Vec<usize> = Vec::new();
    for (i, (e, g)) in kept.iter().zip(got.iter()).enumerate() {
        if let Some(f) = first_diff(&canon_sam(e), &canon_sam(g)) {
            let r = (format!("sam-rt-{f}"), format!("wrote {} read {}", dump_spec(e), dump_spec(g)));
            if f == "qual-single-star" && g.qual.is_empty() && { let mut g2 = g.clone(); g2.qual = vec![9]; first_diff(&canon_sam(e), &canon_sam(&g2)).is_none() } {
                deferred.get_or_insert(r);
                skip.push(i);
            } else {
                return Err(r);
            }
        }
    }
    // 2b. lazy records converted through RecordBuf::try_from_alignment_record
    let (h3, lazies) = match io_g("sam-read-lazy", || sam_read_lazy(&text))? {
        Ok(x) => x,
        Err(e) => return bad("sam-lazy-reader-rejects-own-output", e.to_string()),
    };
    if lazies.len() != kept.len() {
        return bad("sam-lazy-record-count", format!("{} written {} read", kept.len(), lazies.len()));
    }
    let mut lazy_skip: Vec<usize> = Vec::new();
    for (i, (e, lz)) in kept.iter().zip(lazies.iter()).enumerate() {
        // (NV_C06_SKIP_ACCESSORS: development aid to exercise the conversion paths alone)
        if !(empty_array_not_last(e) && lz.data().iter().any(|f| f.is_err())) && std::env::var("NV_C06_SKIP_ACCESSORS").is_err() {
            cmp_views("sam-lazy", &h3, lz, &recs[i])?;
        }
        let conv = match io_g("sam-lazy-convert", std::panic::AssertUnwindSafe(|| RecordBuf::try_from_alignment_record(&h3, lz)))? {
            Ok(r) => r,
            Err(err) => {
                let r = (String::new(), format!("{err} : {}", dump_spec(e)));
                if empty_array_not_last(e) {
                    deferred.get_or_insert(("sam-lazy-empty-array-not-last".into(), r.1));
                    lazy_skip.push(i);
                    continue;
                }
                return bad("sam-lazy-convert-error", r.1);
            }
        };
        if skip.contains(&i) {
            continue;
        }
        if let Some(f) = first_diff(&canon_sam(e), &canon_sam(&from_record_buf(&conv))) {
            return bad(&format!("sam-lazy-rt-{f}"), format!("wrote {} read {}", dump_spec(e), dump_spec(&from_record_buf(&conv))));
        }
    }
    // 3. fixed point: write(parse(text)) == text, through both record types
    {
        let mut t2 = match io_g("sam-rewrite-header", || sam_write_header(&h2))? {
            Ok(t) => t,
            Err(e) => return bad("sam-fixed-point-header-rejected", e.to_string()),
        };
        let mut t3 = t2.clone();
        for r in &recs {
            match io_g("sam-rewrite", std::panic::AssertUnwindSafe(|| sam_write_record(&h2, r)))? {
                Ok(t) => t2.extend_from_slice(&t),
                Err(e) => return bad("sam-fixed-point-rejected", format!("{e} : {}", dump_spec(&from_record_buf(r)))),
            }
        }
        if t2 != text {
            return bad("sam-fixed-point", diff_text(&text, &t2));
        }
        for (i, r) in lazies.iter().enumerate() {
            if lazy_skip.contains(&i) {
                // known class: the lazy record cannot be iterated; take the eager rendering instead
                if let Ok(t) = io_g("sam-rewrite", std::panic::AssertUnwindSafe(|| sam_write_record(&h2, &recs[i])))? {
                    t3.extend_from_slice(&t);
                }
                continue;
            }
            match io_g("sam-rewrite-lazy", std::panic::AssertUnwindSafe(|| sam_write_record(&h3, r)))? {
                Ok(t) => t3.extend_from_slice(&t),
                Err(e) => return bad("sam-lazy-fixed-point-rejected", e.to_string()),
            }
        }
        if t3 != text {
            return bad("sam-lazy-fixed-point", diff_text(&text, &t3));
        }
    }
    // 4. SAM vs BAM: the same records through bam::io::Writer (records BAM refuses are skipped)
    let mut both: Vec<usize> = Vec::new();
    let mut bam_bytes = match io_g("bam-write-header", || bam_write_all(header, &[]))? {
        Ok(b) => b,
        Err(_) => return Ok(()),
    };
    for (i, s) in kept.iter().enumerate() {
        let rb = to_record_buf(s);
        let mut w = bam::io::Writer::from(Vec::new());
        match io_g("bam-write-record", std::panic::AssertUnwindSafe(|| w.write_alignment_record(header, &rb)))? {
            Ok(()) => {
                both.push(i);
                bam_bytes.extend_from_slice(w.get_ref());
            }
            Err(_) => {}
        }
    }
    let (hb, brecs) = match io_g("bam-read", || bam_read_all(&bam_bytes))? {
        Ok(x) => x,
        Err(e) => return bad("bam-reader-rejects-own-output", e.to_string()),
    };
    cmp_headers("sam-bam-header-differs", &h2, &hb)?;
    if brecs.len() != both.len() {
        return bad("sam-bam-record-count", format!("{} vs {}", both.len(), brecs.len()));
    }
    for (k, &i) in both.iter().enumerate() {
        let via_sam = canon_bam(&got[i]);
        let via_bam = canon_bam(&from_record_buf(&brecs[k]));
        if has_nonfinite_array(&kept[i]) || skip.contains(&i) {
            continue;
        }
        if let Some(f) = first_diff(&via_sam, &via_bam) {
            return bad(&format!("sam-bam-differ-{f}"), format!("sam {} bam {}", dump_spec(&got[i]), dump_spec(&from_record_buf(&brecs[k]))));
        }
    }
    // 5. SAM -> BAM -> SAM: the records parsed from SAM, written as BAM, read, written as SAM
    {
        let refs: Vec<&dyn sam::alignment::Record> = both.iter().map(|&i| &recs[i] as &dyn sam::alignment::Record).collect();
        let bb = match io_g("s2b-write", std::panic::AssertUnwindSafe(|| bam_write_all(&h2, &refs)))? {
            Ok(b) => b,
            Err(e) => return bad("sam-to-bam-rejected", e.to_string()),
        };
        let (hb2, rb2) = match io_g("s2b-read", || bam_read_all(&bb))? {
            Ok(x) => x,
            Err(e) => return bad("sam-to-bam-unreadable", e.to_string()),
        };
        cmp_headers("sam-bam-sam-header", &h2, &hb2)?;
        if rb2.len() != both.len() {
            return bad("sam-bam-sam-record-count", format!("{} vs {}", both.len(), rb2.len()));
        }
        for (k, &i) in both.iter().enumerate() {
            // text comparison: SAM text carries no widths, so the only allowed difference is the base alphabet
            let mut e = recs[i].clone();
            let folded: Vec<u8> = e.sequence().as_ref().iter().map(|b| norm_base(*b)).collect();
            *e.sequence_mut() = Sequence::from(folded);
            let t_exp = io_g("s2b2s-write-exp", std::panic::AssertUnwindSafe(|| sam_write_record(&h2, &e)))?;
            let t_got = io_g("s2b2s-write", std::panic::AssertUnwindSafe(|| sam_write_record(&hb2, &rb2[k])))?;
            match (t_exp, t_got) {
                (Ok(a), Ok(b)) => {
                    if a != b && !has_nonfinite_array(&kept[i]) {
                        let cls = first_diff(&canon_bam(&got[i]), &canon_bam(&from_record_buf(&rb2[k]))).unwrap_or_else(|| "text".into());
                        return bad(&format!("sam-bam-sam-{cls}"), format!("{} vs {}", hex(&a), hex(&b)));
                    }
                }
                (Ok(_), Err(err)) => return bad("sam-bam-sam-rejected", err.to_string()),
                _ => {}
            }
        }
        // 6. BAM -> SAM -> BAM: the records read from BAM, written as SAM, parsed, written as BAM, read
        let mut t = match io_g("b2s-header", || sam_write_header(&hb))? {
            Ok(t) => t,
            Err(e) => return bad("bam-to-sam-header-rejected", e.to_string()),
        };
        for r in &brecs {
            match io_g("b2s-write", std::panic::AssertUnwindSafe(|| sam_write_record(&hb, r)))? {
                Ok(x) => t.extend_from_slice(&x),
                Err(e) => return bad("bam-to-sam-rejected", format!("{e} : {}", dump_spec(&from_record_buf(r)))),
            }
        }
        let (hs, rs) = match io_g("b2s-read", || sam_read_all(&t))? {
            Ok(x) => x,
            Err(e) => return bad("bam-to-sam-unreadable", e.to_string()),
        };
        let refs: Vec<&dyn sam::alignment::Record> = rs.iter().map(|r| r as &dyn sam::alignment::Record).collect();
        let bb2 = match io_g("b2s2b-write", std::panic::AssertUnwindSafe(|| bam_write_all(&hs, &refs)))? {
            Ok(b) => b,
            Err(e) => return bad("bam-sam-bam-rejected", e.to_string()),
        };
        let (hb3, rb3) = match io_g("b2s2b-read", || bam_read_all(&bb2))? {
            Ok(x) => x,
            Err(e) => return bad("bam-sam-bam-unreadable", e.to_string()),
        };
        cmp_headers("bam-sam-bam-header", &hb, &hb3)?;
        if rb3.len() != brecs.len() {
            return bad("bam-sam-bam-record-count", format!("{} vs {}", brecs.len(), rb3.len()));
        }
        for (k, (a, b)) in brecs.iter().zip(rb3.iter()).enumerate() {
            let i = both[k];
            if has_nonfinite_array(&kept[i]) || skip.contains(&i) {
                continue;
            }
            if let Some(f) = first_diff(&canon_sam(&from_record_buf(a)), &canon_sam(&from_record_buf(b))) {
                return bad(&format!("bam-sam-bam-{f}"), format!("{} vs {}", dump_spec(&from_record_buf(a)), dump_spec(&from_record_buf(b))));
            }
        }
    }
    // 7. lazy sam::Record -> bam::io::Writer -> read back (eager and lazy) -> compare with the eager
    //    SAM parse; and the reverse: lazy bam::Record -> sam::io::Writer -> parse
    {
        let sel: Vec<usize> = both
            .iter()
            .copied()
            .filter(|i| !skip.contains(i) && !lazy_skip.contains(i) && !has_nonfinite_array(&kept[*i]))
            .collect();
        let mut bb = match io_g("lazy-s2b-header", || bam_write_all(&h3, &[]))? {
            Ok(b) => b,
            Err(e) => return bad("sam-lazy-to-bam-header-rejected", e.to_string()),
        };
        for &i in &sel {
            let mut w = bam::io::Writer::from(Vec::new());
            match io_g("lazy-s2b-write", std::panic::AssertUnwindSafe(|| w.write_alignment_record(&h3, &lazies[i])))? {
                Ok(()) => bb.extend_from_slice(w.get_ref()),
                Err(e) => return bad("sam-lazy-to-bam-rejected", format!("{e} : {}", dump_spec(&got[i]))),
            }
        }
        let cigar_cls = |i: usize| if kept[i].cigar.iter().any(|(k, _)| *k == 7) { "-cigar-with-eq" } else { "" };
        let (hbz, eb) = match io_g("lazy-s2b-read", || bam_read_all(&bb))? {
            Ok(x) => x,
            Err(e) => {
                let c = sel.iter().map(|i| cigar_cls(*i)).find(|c| !c.is_empty()).unwrap_or("");
                return bad(&format!("sam-lazy-to-bam-unreadable{c}"), format!("{e} : first record {}", sel.first().map(|i| dump_spec(&got[*i])).unwrap_or_default()));
            }
        };
        if eb.len() != sel.len() {
            return bad("sam-lazy-to-bam-record-count", format!("{} vs {}", sel.len(), eb.len()));
        }
        for (k, &i) in sel.iter().enumerate() {
            if let Some(f) = first_diff(&canon_bam(&got[i]), &canon_bam(&from_record_buf(&eb[k]))) {
                return bad(&format!("sam-lazy-to-bam-{f}{}", cigar_cls(i)), format!("sam {} bam {}", dump_spec(&got[i]), dump_spec(&from_record_buf(&eb[k]))));
            }
        }
        let (_, lb) = match io_g("lazy-s2b-read-lazy", || bam_read_lazy(&bb))? {
            Ok(x) => x,
            Err(e) => return bad("sam-lazy-to-bam-unreadable-lazily", e.to_string()),
        };
        if lb.len() != sel.len() {
            return bad("sam-lazy-to-bam-lazy-record-count", format!("{} vs {}", sel.len(), lb.len()));
        }
        // lazy bam::Record -> sam writer -> parse
        let mut t = match io_g("lazy-b2s-header", || sam_write_header(&hbz))? {
            Ok(t) => t,
            Err(e) => return bad("bam-lazy-to-sam-header-rejected", e.to_string()),
        };
        for (k, r) in lb.iter().enumerate() {
            match io_g("lazy-b2s-write", std::panic::AssertUnwindSafe(|| sam_write_record(&hbz, r)))? {
                Ok(x) => t.extend_from_slice(&x),
                Err(e) => return bad("bam-lazy-to-sam-rejected", format!("{e} : {}", dump_spec(&got[sel[k]]))),
            }
        }
        let (_, back) = match io_g("lazy-b2s-read", || sam_read_all(&t))? {
            Ok(x) => x,
            Err(e) => return bad("bam-lazy-to-sam-unreadable", e.to_string()),
        };
        if back.len() != sel.len() {
            return bad("bam-lazy-to-sam-record-count", format!("{} vs {}", sel.len(), back.len()));
        }
        for (k, &i) in sel.iter().enumerate() {
            if let Some(f) = first_diff(&canon_bam(&got[i]), &canon_bam(&from_record_buf(&back[k]))) {
                return bad(&format!("bam-lazy-to-sam-{f}"), format!("sam {} via bam {}", dump_spec(&got[i]), dump_spec(&from_record_buf(&back[k]))));
            }
        }
    }
    match deferred {
        Some(r) => Err(r),
        None => Ok(()),
    }
}

fn empty_array_not_last(s: &Spec) -> bool {
    let n = s.data.len();
    s.data.iter().enumerate().any(|(i, (_, v))| i + 1 < n && matches!(v, Val::Arr(_, xs) if xs.is_empty()))
}

fn diff_text(a: &[u8], b: &[u8]) -> String {
    let i = a.iter().zip(b.iter()).position(|(x, y)| x != y).unwrap_or(a.len().min(b.len()));
    let lo = i.saturating_sub(20);
    format!(
        "first difference at byte {i}: {} vs {}",
        hex(&a[lo..a.len().min(i + 20)]),
        hex(&b[lo..b.len().min(i + 20)])
    )
}

// ---- hdr: the header property

fn run_hdr(c: &Case) -> Obs {
    let mut rng = Rng(c.u(0));
    let (header, valid) = gen_header(&mut rng, true);
    let r = check_hdr(&header, valid);
    Obs { obs: "-".into(), verdict: "ok".into(), nontrivial: true }.with_verdict(r)
}

fn check_hdr(header: &sam::Header, valid: bool) -> V {
    let text = match io_g("sam-write-header", || sam_write_header(header))? {
        Ok(t) => t,
        Err(e) => {
            if valid {
                return bad("sam-header-writer-rejects-valid", format!("{e} : {:?}", dump_header(header)));
            }
            return Ok(());
        }
    };
    if !valid {
        // accepted although outside the validity predicate: no round-trip claim, but no panic either
        let _ = io_g("sam-read-header-invalid", || sam_read_all(&text))?;
        return Ok(());
    }
    let (h2, recs) = match io_g("sam-read-header", || sam_read_all(&text))? {
        Ok(x) => x,
        Err(e) => return bad("sam-header-reader-rejects-own-output", format!("{e} : {}", hex(&text))),
    };
    if !recs.is_empty() {
        return bad("sam-header-leaks-into-records", hex(&text));
    }
    cmp_headers("sam-header", header, &h2)?;
    // the string parser (FromStr) agrees with the streaming reader
    if let Ok(s) = std::str::from_utf8(&text) {
        match guarded(|| s.parse::<sam::Header>()) {
            Outcome::Done(Ok(h)) => cmp_headers("sam-header-fromstr", header, &h)?,
            Outcome::Done(Err(e)) => return bad("sam-header-fromstr-rejects-own-output", e.to_string()),
            Outcome::Panicked(m) => return bad("panic-sam-header-fromstr", m),
        }
    }
    let t2 = match io_g("sam-rewrite-header", || sam_write_header(&h2))? {
        Ok(t) => t,
        Err(e) => return bad("sam-header-fixed-point-rejected", e.to_string()),
    };
    if t2 != text {
        return bad("sam-header-fixed-point", diff_text(&text, &t2));
    }
    // BAM
    let bb = match io_g("bam-write-header", || bam_write_all(header, &[]))? {
        Ok(b) => b,
        Err(e) => return bad("bam-header-writer-rejects-valid", e.to_string()),
    };
    // the text block inside the BAM header is the SAM writer's text
    if bb.len() >= 8 {
        let l = u32::from_le_bytes([bb[4], bb[5], bb[6], bb[7]]) as usize;
        if bb.len() < 8 + l || bb[8..8 + l] != text[..] {
            return bad("sam-bam-header-text-differs", format!("l_text {l} text {}", text.len()));
        }
    }
    let (hb, _) = match io_g("bam-read-header", || bam_read_all(&bb))? {
        Ok(x) => x,
        Err(e) => return bad("bam-header-reader-rejects-own-output", e.to_string()),
    };
    cmp_headers("sam-bam-header-differs", header, &hb)?;
    // bgzf-framed BAM as well (the default writer)
    let framed = io_g("bam-bgzf-write", || {
        let mut w = bam::io::Writer::new(Vec::new());
        w.write_header(header)?;
        w.try_finish()?;
        Ok(w.into_inner().into_inner())
    })?;
    if let Ok(fb) = framed {
        let r = io_g("bam-bgzf-read", || {
            let mut rd = bam::io::Reader::new(&fb[..]);
            rd.read_header()
        })?;
        match r {
            Ok(h) => cmp_headers("sam-bam-header-differs-bgzf", header, &h)?,
            Err(e) => return bad("bam-bgzf-header-unreadable", e.to_string()),
        }
    }
    Ok(())
}

// ---- fsw: the float oracle hypothesis, through the public API

fn float_tags() -> Vec<[u8; 2]> {
    let mut v = Vec::new();
    for a in (b'A'..=b'Z').chain(b'a'..=b'z') {
        for b in (b'A'..=b'Z').chain(b'a'..=b'z').chain(b'0'..=b'9') {
            v.push([a, b]);
        }
    }
    v
}

fn run_fsw(c: &Case) -> Obs {
    let start = c.u(0);
    let n = c.u(1);
    let tags = float_tags();
    let header = sam::Header::default();
    let per = 1024u64;
    let mut b = start;
    let end = start + n;
    while b < end {
        let hi = (b + per).min(end);
        let finite: Vec<u32> = (b..hi).map(|x| x as u32).filter(|x| f32::from_bits(*x).is_finite()).collect();
        b = hi;
        if finite.is_empty() {
            continue;
        }
        let mut s = Spec { flags: 4, mapq: 255, ..Default::default() };
        for (i, x) in finite.iter().enumerate() {
            s.data.push((tags[i + 1], Val::Num('f', *x as i64)));
        }
        s.data.push((tags[0], Val::Arr('f', finite.iter().map(|x| *x as i64).collect())));
        let rb = to_record_buf(&s);
        let t = match guarded(std::panic::AssertUnwindSafe(|| sam_write_record(&header, &rb))) {
            Outcome::Done(Ok(t)) => t,
            Outcome::Done(Err(e)) => return Obs::fail("-", "sam-aux-float-rejected", format!("{e} from {}", finite[0])),
            Outcome::Panicked(m) => return Obs::fail("-", "panic-sam-write-float", m),
        };
        // the model's hypotheses on the text: printable, no tab, no comma inside one number
        let got = match guarded(|| sam_read_all(&t)) {
            Outcome::Done(Ok((_, r))) if r.len() == 1 => from_record_buf(&r[0]),
            Outcome::Done(Ok(_)) => return Obs::fail("-", "sam-aux-float-roundtrip", format!("record count, from {}", finite[0])),
            Outcome::Done(Err(e)) => return Obs::fail("-", "sam-aux-float-roundtrip", format!("{e} from {}", finite[0])),
            Outcome::Panicked(m) => return Obs::fail("-", "panic-sam-read-float", m),
        };
        if let Some(f) = first_diff(&s, &got) {
            let (_, ve) = s.data.iter().zip(got.data.iter()).find(|(a, b)| a != b).map(|(a, _)| a.clone()).unwrap_or(s.data[0].clone());
            return Obs::fail("-", &format!("sam-{f}"), format!("near bits {} : {}", finite[0], enc_val(&ve)));
        }
    }
    Obs::ok("-", true)
}

// ---- wr / pr: the modelled kinds

fn run_wr(c: &Case) -> Obs {
    let refs = dec_refs(&c.args[0]);
    let s = dec_spec(&c.args[3..]);
    let header = header_of_refs(&refs);
    let rb = to_record_buf(&s);
    match guarded(std::panic::AssertUnwindSafe(|| sam_write_record(&header, &rb))) {
        Outcome::Done(Ok(t)) => Obs::ok(hex(&t), true),
        Outcome::Done(Err(_)) => Obs::ok("Err", false),
        Outcome::Panicked(m) => Obs::fail("Panic", "panic-sam-write-record", m),
    }
}

fn parse_err_column(e: &io::Error) -> &'static str {
    use sam::io::reader::record_buf::ParseError as P;
    match e.get_ref().and_then(|i| i.downcast_ref::<P>()) {
        Some(P::InvalidName(_)) => "name",
        Some(P::InvalidFlags(_)) => "flags",
        Some(P::InvalidReferenceSequenceId(_)) => "rname",
        Some(P::InvalidPosition(_)) => "pos",
        Some(P::InvalidMappingQuality(_)) => "mapq",
        Some(P::InvalidCigar(_)) => "cigar",
        Some(P::InvalidMateReferenceSequenceId(_)) => "rnext",
        Some(P::InvalidMatePosition(_)) => "pnext",
        Some(P::InvalidTemplateLength(_)) => "tlen",
        Some(P::InvalidSequence(_)) => "seq",
        Some(P::InvalidQualityScores(_)) => "qual",
        Some(P::InvalidData(_)) => "data",
        None => "io",
    }
}

fn run_pr(c: &Case) -> Obs {
    let refs = dec_refs(&c.args[0]);
    let line = c.b(2);
    let header = header_of_refs(&refs);
    let r = guarded(|| {
        let mut rd = sam::io::Reader::new(&line[..]);
        let mut rec = RecordBuf::default();
        rd.read_record_buf(&header, &mut rec).map(|n| (n, rec))
    });
    match r {
        Outcome::Done(Ok((0, _))) => Obs::ok("Eof", false),
        Outcome::Done(Ok((_, rec))) => Obs::ok(dump_spec(&from_record_buf(&rec)), true),
        Outcome::Done(Err(e)) => Obs::ok(format!("Err:{}", parse_err_column(&e)), false),
        Outcome::Panicked(m) => Obs::fail("Panic", "panic-sam-read-record", m),
    }
}

// ---- lz: the lazy record type on one given line (regression cases)
//   the lazy sam::Record, converted with RecordBuf::try_from_alignment_record, must equal what the
//   eager reader parses from the same line, and both must write back to the same text
fn run_lz(c: &Case) -> Obs {
    let refs = dec_refs(&c.args[0]);
    let line = c.b(1);
    let header = header_of_refs(&refs);
    let eager = guarded(|| {
        let mut rd = sam::io::Reader::new(&line[..]);
        let mut rec = RecordBuf::default();
        rd.read_record_buf(&header, &mut rec).map(|n| (n, rec))
    });
    let eager = match eager {
        Outcome::Done(Ok((n, r))) if n > 0 => r,
        Outcome::Done(_) => return Obs { obs: "-".into(), verdict: "skip".into(), nontrivial: false },
        Outcome::Panicked(m) => return Obs::fail("-", "panic-sam-read-record", m),
    };
    let espec = from_record_buf(&eager);
    let cls = if empty_array_not_last(&espec) { "sam-lazy-empty-array-not-last" } else { "sam-lazy-differs-from-eager" };
    let lazy = guarded(|| {
        let mut rd = sam::io::Reader::new(&line[..]);
        let mut rec = sam::Record::default();
        rd.read_record(&mut rec).map(|_| rec)
    });
    let lazy = match lazy {
        Outcome::Done(Ok(r)) => r,
        Outcome::Done(Err(e)) => return Obs::fail("-", cls, format!("read_record: {e}")),
        Outcome::Panicked(m) => return Obs::fail("-", "panic-sam-read-lazy", m),
    };
    if let Err((t, d)) = cmp_views("sam-lazy", &header, &lazy, &eager) {
        let t = if empty_array_not_last(&espec) && t.ends_with("accessor-error") { cls.to_string() } else { t };
        return Obs::fail("-", &t, d);
    }
    match guarded(std::panic::AssertUnwindSafe(|| RecordBuf::try_from_alignment_record(&header, &lazy))) {
        Outcome::Done(Ok(conv)) => {
            if let Some(f) = first_diff(&canon_sam(&espec), &canon_sam(&from_record_buf(&conv))) {
                return Obs::fail("-", &format!("sam-lazy-differs-from-eager-{f}"), dump_spec(&from_record_buf(&conv)));
            }
        }
        Outcome::Done(Err(e)) => return Obs::fail("-", cls, format!("try_from_alignment_record: {e}")),
        Outcome::Panicked(m) => return Obs::fail("-", "panic-sam-lazy-convert", m),
    }
    let te = guarded(std::panic::AssertUnwindSafe(|| sam_write_record(&header, &eager)));
    let tl = guarded(std::panic::AssertUnwindSafe(|| sam_write_record(&header, &lazy)));
    match (te, tl) {
        (Outcome::Done(Ok(a)), Outcome::Done(Ok(b))) => {
            if a != b {
                return Obs::fail("-", "sam-lazy-fixed-point", diff_text(&a, &b));
            }
        }
        (Outcome::Done(Ok(_)), Outcome::Done(Err(e))) => return Obs::fail("-", cls, format!("write lazy: {e}")),
        (Outcome::Panicked(m), _) | (_, Outcome::Panicked(m)) => return Obs::fail("-", "panic-sam-write-record", m),
        _ => {}
    }
    Obs::ok("-", true)
}

// ---- wh / ph: header text, modelled (NV.Sam.Header)

fn enc_others<S>(of: &indexmap::IndexMap<Other<S>, BString>) -> String
where
    S: map::tag::Standard,
{
    let mut s = String::new();
    for (t, v) in of {
        let b: &[u8; 2] = t.as_ref();
        s.push_str(&format!(";{}={}", hex(b), hex(v.as_ref())));
    }
    s
}

/// five arguments: HD SQ RG PG CO
fn enc_header(h: &sam::Header) -> Vec<String> {
    let hd = match h.header() {
        None => "-".to_string(),
        Some(m) => format!("{}.{}{}", m.version().major(), m.version().minor(), enc_others(m.other_fields())),
    };
    let j = |v: Vec<String>, sep: &str| if v.is_empty() { "~".to_string() } else { v.join(sep) };
    let sq = j(
        h.reference_sequences()
            .iter()
            .map(|(n, m)| format!("{}:{}{}", hex(n.as_ref()), usize::from(m.length()), enc_others(m.other_fields())))
            .collect(),
        "|",
    );
    let rg = j(h.read_groups().iter().map(|(n, m)| format!("{}{}", hex(n.as_ref()), enc_others(m.other_fields()))).collect(), "|");
    let pg = j(h.programs().as_ref().iter().map(|(n, m)| format!("{}{}", hex(n.as_ref()), enc_others(m.other_fields()))).collect(), "|");
    let co = j(h.comments().iter().map(|c| hex(c.as_ref())).collect(), ",");
    vec![hd, sq, rg, pg, co]
}

fn dec_others<S>(parts: &[&str], of: &mut indexmap::IndexMap<Other<S>, BString>)
where
    S: map::tag::Standard,
{
    for p in parts {
        let (t, v) = p.split_once('=').unwrap();
        let t = unhex(t);
        if let Ok(o) = Other::<S>::try_from([t[0], t[1]]) {
            of.insert(o, BString::from(unhex(v)));
        }
    }
}

fn dec_header(a: &[String]) -> sam::Header {
    let mut h = sam::Header::default();
    if a[0] != "-" {
        let parts: Vec<&str> = a[0].split(';').collect();
        let (ma, mi) = parts[0].split_once('.').unwrap();
        let mut m = Map::<map::Header>::new(Version::new(ma.parse().unwrap(), mi.parse().unwrap()));
        dec_others(&parts[1..], m.other_fields_mut());
        *h.header_mut() = Some(m);
    }
    if a[1] != "~" {
        for it in a[1].split('|') {
            let parts: Vec<&str> = it.split(';').collect();
            let (n, l) = parts[0].split_once(':').unwrap();
            let mut m = Map::<ReferenceSequence>::new(NonZero::new(l.parse::<usize>().unwrap()).unwrap());
            dec_others(&parts[1..], m.other_fields_mut());
            h.reference_sequences_mut().insert(BString::from(unhex(n)), m);
        }
    }
    if a[2] != "~" {
        for it in a[2].split('|') {
            let parts: Vec<&str> = it.split(';').collect();
            let mut m = Map::<ReadGroup>::default();
            dec_others(&parts[1..], m.other_fields_mut());
            h.read_groups_mut().insert(BString::from(unhex(parts[0])), m);
        }
    }
    if a[3] != "~" {
        for it in a[3].split('|') {
            let parts: Vec<&str> = it.split(';').collect();
            let mut m = Map::<Program>::default();
            dec_others(&parts[1..], m.other_fields_mut());
            h.programs_mut().as_mut().insert(BString::from(unhex(parts[0])), m);
        }
    }
    if a[4] != "~" {
        for c in a[4].split(',') {
            h.add_comment(BString::from(unhex(c)));
        }
    }
    h
}

fn run_wh(c: &Case) -> Obs {
    let h = dec_header(&c.args);
    match guarded(|| sam_write_header(&h)) {
        Outcome::Done(Ok(t)) => Obs::ok(hex(&t), true),
        Outcome::Done(Err(_)) => Obs::ok("Err", false),
        Outcome::Panicked(m) => Obs::fail("Panic", "panic-sam-write-header", m),
    }
}

fn run_ph(c: &Case) -> Obs {
    let text = c.b(0);
    let r = guarded(|| {
        let mut rd = sam::io::Reader::new(&text[..]);
        rd.read_header()
    });
    match r {
        Outcome::Done(Ok(h)) => Obs::ok(enc_header(&h).join(" "), true),
        Outcome::Done(Err(_)) => Obs::ok("Err", false),
        Outcome::Panicked(m) => Obs::fail("Panic", "panic-sam-read-header", m),
    }
}

fn run(c: &Case) -> Obs {
    match c.kind.as_str() {
        "wh" => run_wh(c),
        "ph" => run_ph(c),
        "lz" => run_lz(c),
        "rt" => run_rt(c),
        "hdr" => run_hdr(c),
        "fsw" => run_fsw(c),
        "wr" => run_wr(c),
        "pr" => run_pr(c),
        "bwh" => run_bwh(c),
        "bph" => run_bph(c),
        "lzv" => run_lzv(c),
        "lzc" => run_lzc(c),
        "tb" => run_tb(c),
        "sf" => run_sf(c),
        "sfw" => run_sfw(c),
        "lzg" => run_lzg(c),
        "hco" => run_hco(c),
        "rtl" => run_rtl(c),
        _ => Obs { obs: "-".into(), verdict: "skip".into(), nontrivial: false },
    }
}

include!("c06_part4.rs");
include!("c06_part5.rs");
include!("c06_part6.rs");
include!("c06_part7.rs");
include!("c06_part3.rs");
