//! C09: the whole FILE (header + records in one text) against the Coq model NV.Vcf.File.
//!   file hdrspec recs ftab valid
//!        hdrspec = the `hw` encoding of a header VALUE (typed API), recs = rec^rec^.. (the `line`
//!        encoding, `~` = no record).  The real Writer writes header + records into one text; the
//!        real Reader reads it back twice: read_header + read_record_buf into ONE RecordBuf until
//!        Ok(0)/Err, and read_header + read_record into ONE lazy Record until Ok(0)/Err (every
//!        accessor forced, typed by the PARSED header: keys the header does not define fall back to
//!        the reserved definitions of the file format).
//!        obs = hex(text)|header dump or Err|E:rec^..$Eof/Err|L:rec^..$Eof/Err   (or WErr)
//!   ftxt hextext ftab
//!        arbitrary file BYTES through both real read paths; obs = header|E:..|L:..  (U = a header
//!        line the header model does not cover)
#![allow(dead_code)]

use super::hdr::HMap;
use super::line::{build as build_rec, expected, qual_ftab_all, rec_parse, rec_str, CHROMS_OK, FILTERS_OK, IDS_OK, ALTS_OK, distinct};
use super::rec::{Canon, canon, canon_lazy, first_diff, gen_float, gen_sample_vals, gen_value};
use super::*;

struct ReadBack {
    header: Option<String>,          // dump, "Err", "U"; None = structured other records
    parsed: Option<vcf::Header>,
    eager: Vec<Canon>,
    eager_end: &'static str,
    lazy: Vec<Option<Canon>>,
    lazy_end: &'static str,
    panicked: bool,
}

fn header_lines(text: &[u8]) -> Vec<&[u8]> {
    // the lines read_header consumes: while the next line starts with '#'
    let mut out = vec![];
    let mut rest = text;
    while rest.first() == Some(&b'#') {
        let (l, r) = match rest.iter().position(|&b| b == b'\n') {
            Some(i) => (&rest[..i], &rest[i + 1..]),
            None => (rest, &rest[rest.len()..]),
        };
        let l = if rest.len() != l.len() && l.ends_with(b"\r") { &l[..l.len() - 1] } else { l };
        out.push(l);
        rest = r;
    }
    out
}

fn read_back(text: &[u8]) -> ReadBack {
    let mut rb = ReadBack { header: None, parsed: None, eager: vec![], eager_end: "Err", lazy: vec![], lazy_end: "Err", panicked: false };
    // eager path
    let mut reader = vcf::io::Reader::new(text);
    let h = match g(|| reader.read_header().map_err(|_| ())) {
        R::Ok(h) => h,
        R::Err => { rb.header = Some("Err".into()); return rb; }
        R::Panic => { rb.header = Some("Panic".into()); rb.panicked = true; return rb; }
    };
    rb.header = hdr::unbuild(&h).map(|x| hdr::header_str(&x));
    let mut buf = RecordBuf::default();
    loop {
        match g(|| reader.read_record_buf(&h, &mut buf).map_err(|_| ())) {
            R::Ok(0) => { rb.eager_end = "Eof"; break; }
            R::Ok(_) => rb.eager.push(canon(&buf)),
            R::Err => break,
            R::Panic => { rb.eager_end = "Panic"; rb.panicked = true; break; }
        }
    }
    // lazy path (its own reader and header)
    let mut reader = vcf::io::Reader::new(text);
    let h2 = match g(|| reader.read_header().map_err(|_| ())) {
        R::Ok(h) => h,
        _ => { rb.lazy_end = "HdrErr"; return rb; }
    };
    let mut rec = vcf::Record::default();
    loop {
        match g(|| reader.read_record(&mut rec).map_err(|_| ())) {
            R::Ok(0) => { rb.lazy_end = "Eof"; break; }
            R::Ok(_) => match g(|| canon_lazy(&h2, &rec).map_err(|_| ())) {
                R::Ok(c) => rb.lazy.push(Some(c)),
                R::Err => rb.lazy.push(None),
                R::Panic => { rb.lazy_end = "Panic"; rb.panicked = true; break; }
            },
            R::Err => break,
            R::Panic => { rb.lazy_end = "Panic"; rb.panicked = true; break; }
        }
    }
    rb.parsed = Some(h);
    rb
}

fn obs_of(rb: &ReadBack) -> Option<String> {
    let hd = rb.header.clone()?;
    if hd == "Err" || hd == "Panic" {
        return Some(hd);
    }
    let e = rb.eager.iter().map(rec_str).collect::<Vec<_>>().join("^");
    let l = rb.lazy.iter().map(|o| o.as_ref().map(rec_str).unwrap_or("Err".into())).collect::<Vec<_>>().join("^");
    Some(format!("{hd}|E:{e}${}|L:{l}${}", rb.eager_end, rb.lazy_end))
}

pub fn run_file(c: &Case) -> Obs {
    let spec = hdr::header_parse(&c.args[0]);
    let recs: Vec<Canon> = if c.args[1] == "~" { vec![] } else { c.args[1].split('^').map(rec_parse).collect() };
    let valid = c.args[3] == "1";
    let Some(h) = hdr::build(&spec) else { return Obs::fail("-", "file-spec-not-representable", &c.args[0]) };
    let text = match g(|| {
        let mut w = vcf::io::Writer::new(Vec::new());
        w.write_header(&h).map_err(|_| ())?;
        for r in &recs {
            w.write_variant_record(&h, &build_rec(r)).map_err(|_| ())?;
        }
        Ok(w.into_inner())
    }) {
        R::Ok(t) => t,
        R::Err => {
            let o = Obs::ok("WErr", true);
            return if valid { o.with_verdict(Err(("file-writer-rejects-valid".into(), c.args[1].clone()))) } else { o };
        }
        R::Panic => return Obs::fail("Panic", "file-writer-panic", &c.args[1]),
    };
    let rb = read_back(&text);
    let shown = String::from_utf8_lossy(&text).replace('\n', "\\n");
    if rb.panicked {
        return Obs::fail("Panic", "file-reader-panic", shown);
    }
    let Some(o) = obs_of(&rb) else { return Obs::fail("-", "file-structured-other-outside-criterion", shown) };
    let obs = format!("{}|{o}", hex(&text));
    let verdict: Result<(), (String, String)> = if !valid {
        Ok(())
    } else {
        let ver = format!("{}.{}", spec.ff.0, spec.ff.1);
        let hash = recs.first().map(|r| r.chrom.starts_with('#')).unwrap_or(false);
        match &rb.parsed {
            None => Err((if hash { "file-first-record-chrom-hash-read-as-header-line" } else if hdr::meta_values_list_before_43(&spec) { "header-meta-values-list-before-4.3-unparsable" } else { "file-written-header-unparsable" }.to_string(), shown)),
            Some(h2) if *h2 != h => Err((if hdr::meta_values_list_before_43(&spec) { "header-meta-values-list-before-4.3-unparsable" } else { "file-header-roundtrip-differs" }.to_string(), shown)),
            Some(_) => {
                let mut v = Ok(());
                if rb.eager_end != "Eof" || rb.lazy_end != "Eof" || rb.eager.len() != recs.len() || rb.lazy.len() != recs.len() {
                    v = Err(("file-records-not-all-read-back".to_string(), format!("{shown} :: eager {} {} lazy {} {}", rb.eager.len(), rb.eager_end, rb.lazy.len(), rb.lazy_end)));
                } else {
                    for (i, r) in recs.iter().enumerate() {
                        let want = expected(r, &ver);
                        if let Some(f) = first_diff(&rb.eager[i], &want) {
                            v = Err((format!("file-eager-record-differs-{f}"), format!("record {i} of {shown}")));
                            break;
                        }
                        match &rb.lazy[i] {
                            Some(l) => {
                                if let Some(f) = first_diff(l, &want) {
                                    v = Err((format!("file-lazy-record-differs-{f}"), format!("record {i} of {shown}")));
                                    break;
                                }
                            }
                            None => { v = Err(("file-lazy-accessor-error".to_string(), format!("record {i} of {shown}"))); break; }
                        }
                    }
                }
                v
            }
        }
    };
    Obs::ok(obs, true).with_verdict(verdict)
}

pub fn run_ftxt(c: &Case) -> Obs {
    let text = unhex(&c.args[0]);
    let rb = read_back(&text);
    if rb.panicked {
        return Obs::fail("Panic", "ftxt-reader-panic", &c.args[0]);
    }
    match obs_of(&rb) {
        Some(o) => Obs::ok(o, true),
        None => Obs::fail("-", "ftxt-structured-other-outside-criterion", &c.args[0]),
    }
}

// ---- generators ------------------------------------------------------------------------------

// reserved keys with the same definition in VCF 4.3, 4.4 and 4.5
const RES_INFO: &[(&str, &str, &str)] = &[
    ("AC", "A", "I"), ("AN", "1", "I"), ("DP", "1", "I"), ("DB", "0", "B"), ("AA", "1", "S"), ("MQ", "1", "F"),
    ("NS", "1", "I"), ("H2", "0", "B"), ("SB", "4", "I"), ("AF", "A", "F"), ("CIGAR", "A", "S"), ("1000G", "0", "B"),
];
const RES_FORMAT: &[(&str, &str, &str)] = &[
    ("DP", "1", "I"), ("GQ", "1", "I"), ("AD", "R", "I"), ("FT", "1", "S"), ("PL", "G", "I"), ("HQ", "2", "I"), ("MQ", "1", "I"), ("GL", "G", "F"),
];

fn hmap(id: &str, num: &str, ty: &str) -> HMap {
    HMap { id: id.into(), num: Some(num.into()), ty: Some(ty.into()), desc: Some("d".into()), ..Default::default() }
}

pub fn gen_file(rng: &mut Rng, w: &mut CaseWriter) {
    let ff = *rng.pick(&[(4u32, 2u32), (4, 3), (4, 4), (4, 5), (4, 3), (4, 5)]);
    let ver = format!("{}.{}", ff.0, ff.1);
    let reserved_on = ff != (4, 2);
    let mut valid = true;
    let mut h = hdr::gen_header(rng, false);
    h.ff = ff;
    // gen_header may have picked FORMAT numbers LA..M / INFO types freely: they are not used by the records
    // INFO keys the records use: header-defined ...
    let mut idefs: Vec<(String, String, String)> = vec![];
    for i in 0..rng.range(0, 3) {
        let ty = *rng.pick(&["I", "F", "C", "S", "B"]);
        let num = if ty == "B" { "0" } else if rng.chance(1, 2) { "1" } else { *rng.pick(&["2", "3", "A", "R", "G", "."]) };
        idefs.push((format!("I{i}"), num.into(), ty.into()));
        h.infos.push(hmap(&format!("I{i}"), num, ty));
    }
    // ... reserved keys the header does NOT define (typed by the reserved table of the file format;
    // under 4.2 there is none: the value is then read as a String / Flag -- outside the quantifier)
    for _ in 0..*rng.pick(&[0usize, 1, 2, 3]) {
        let (k, n, t) = *rng.pick(RES_INFO);
        if idefs.iter().any(|d| d.0 == k) {
            continue;
        }
        if t != "B" && rng.chance(1, 10) {
            // defined by the header with ANOTHER Number: an error of read_header from 4.3 on;
            // under 4.2 an ordinary definition
            let n2 = if n == "2" { "3" } else { "2" };
            idefs.push((k.into(), n2.into(), t.into()));
            h.infos.push(hmap(k, n2, t));
            if reserved_on {
                valid = false;
            }
            continue;
        }
        idefs.push((k.into(), n.into(), t.into()));
        if rng.chance(1, 4) {
            // defined by the header with the reserved Number and Type: accepted by the parser
            h.infos.push(hmap(k, n, t));
        } else if !reserved_on && !(t == "B" || (n == "1" && t == "S")) {
            valid = false;
        }
    }
    let with_gt = rng.chance(2, 3);
    let mut fdefs: Vec<FDef> = vec![];
    if with_gt {
        fdefs.push(FDef { key: "GT".into(), num: "1".into(), ty: "S".into() });
        if rng.chance(1, 2) {
            h.formats.push(hmap("GT", "1", "S"));
        }
    }
    for i in 0..rng.range(if with_gt { 0 } else { 1 }, 2) {
        let ty = *rng.pick(&["I", "F", "C", "S"]);
        let num = if rng.chance(1, 2) { "1" } else { *rng.pick(&["2", "3", "A", "R", "G", "."]) };
        fdefs.push(FDef { key: format!("F{i}"), num: num.into(), ty: ty.into() });
        h.formats.push(hmap(&format!("F{i}"), num, ty));
    }
    for _ in 0..*rng.pick(&[0usize, 1, 2]) {
        let (k, n, t) = *rng.pick(RES_FORMAT);
        if fdefs.iter().any(|d| d.key == k) {
            continue;
        }
        fdefs.push(FDef { key: k.into(), num: n.into(), ty: t.into() });
        if rng.chance(1, 4) {
            h.formats.push(hmap(k, n, t));
        } else if !reserved_on && !(n == "1" && t == "S") {
            valid = false;
        }
    }
    // IDs must stay distinct per kind
    let mut seen = std::collections::HashSet::new();
    h.infos.retain(|m| seen.insert(m.id.clone()));
    let mut seen = std::collections::HashSet::new();
    h.formats.retain(|m| seen.insert(m.id.clone()));
    let ns = h.samples.len();
    let nrec = *rng.pick(&[0usize, 1, 2, 2, 3]);
    let mut recs: Vec<Canon> = vec![];
    let reserved_chars = rng.chance(1, 3);
    for j in 0..nrec {
        let pos = match rng.below(6) { 0 => 0usize, 1 => 1, _ => rng.range(1, 300000000) as usize };
        let mut c = Canon {
            chrom: rng.pick(CHROMS_OK).to_string(),
            pos,
            ids: { let n = *rng.pick(&[0usize, 0, 1, 2]); distinct(rng, n, IDS_OK) },
            refb: (0..rng.range(1, 4)).map(|_| *rng.pick(&['A', 'C', 'G', 'T', 'N', 'a', 'c'])).collect(),
            alts: { let n = *rng.pick(&[0usize, 1, 1, 2]); (0..n).map(|_| rng.pick(ALTS_OK).to_string()).collect() },
            qual: if rng.chance(1, 3) { None } else { Some(gen_float(rng, false)) },
            filters: match rng.below(3) { 0 => vec![], 1 => vec!["PASS".into()], _ => distinct(rng, 2, FILTERS_OK) },
            info: vec![],
            keys: vec![],
            samples: vec![],
        };
        if j == 0 && rng.chance(1, 25) {
            // a name the writer accepts; its line is then taken for a header line by read_header
            c.chrom = "#c1".into();
        }
        for (k, num, ty) in &idefs {
            if rng.chance(1, 3) {
                continue;
            }
            let v = gen_value(rng, true, num, ty, false, reserved_chars);
            if has_nonascii_char(&v) {
                continue;
            }
            c.info.push((k.clone(), v));
        }
        if ns > 0 {
            let keep: Vec<FDef> = fdefs.iter().filter(|d| d.key == "GT" || rng.chance(3, 4)).cloned().collect();
            let keep = if keep.is_empty() { fdefs.clone() } else { keep };
            c.keys = keep.iter().map(|d| d.key.clone()).collect();
            c.samples = (0..ns)
                .map(|_| {
                    let mut vals = gen_sample_vals(rng, &ver, &keep, false, reserved_chars, false);
                    for v in vals.iter_mut() {
                        if has_nonascii_char(v) || matches!(v, Some(V::Str(s)) if s.is_empty()) {
                            *v = None;
                        }
                    }
                    vals
                })
                .collect();
        }
        recs.push(c);
    }
    let mut all: Vec<OV> = vec![];
    for c in &recs {
        if let Some(q) = c.qual {
            all.push(Some(V::Float(q)));
        }
        for (_, v) in &c.info {
            all.push(v.clone());
        }
        for r in &c.samples {
            all.extend(r.iter().cloned());
        }
    }
    let rs = if recs.is_empty() { "~".to_string() } else { recs.iter().map(rec_str).collect::<Vec<_>>().join("^") };
    w.push("file", vec![hdr::header_str(&h), rs, ftab(&all), (valid as u8).to_string()]);
}

const FT_HEADERS: &[&str] = &[
    "##fileformat=VCFv4.3\n#CHROM\tPOS\tID\tREF\tALT\tQUAL\tFILTER\tINFO\n",
    "##fileformat=VCFv4.2\n#CHROM\tPOS\tID\tREF\tALT\tQUAL\tFILTER\tINFO\tFORMAT\ts0\ts1\n",
    "##fileformat=VCFv4.3\n##INFO=<ID=I0,Number=1,Type=Integer,Description=\"d\">\n##FORMAT=<ID=F0,Number=1,Type=Integer,Description=\"d\">\n#CHROM\tPOS\tID\tREF\tALT\tQUAL\tFILTER\tINFO\tFORMAT\ts0\ts1\n",
    "##fileformat=VCFv4.4\r\n##INFO=<ID=I0,Number=1,Type=Integer,Description=\"d\">\r\n##fileDate=1\r\n#CHROM\tPOS\tID\tREF\tALT\tQUAL\tFILTER\tINFO\tFORMAT\ts0\r\n",
    "##fileformat=VCFv4.5\n##INFO=<ID=AC,Number=A,Type=Integer,Description=\"d\">\n##FORMAT=<ID=DP,Number=1,Type=Integer,Description=\"d\">\n#CHROM\tPOS\tID\tREF\tALT\tQUAL\tFILTER\tINFO\tFORMAT\ts0\ts1\n",
    "##fileformat=VCFv4.3\n##INFO=<ID=AC,Number=1,Type=Integer,Description=\"d\">\n#CHROM\tPOS\tID\tREF\tALT\tQUAL\tFILTER\tINFO\n",
    "##fileformat=VCFv4.2\n##INFO=<ID=AC,Number=1,Type=Integer,Description=\"d\">\n#CHROM\tPOS\tID\tREF\tALT\tQUAL\tFILTER\tINFO\n",
    "##fileformat=VCFv4.4\n##FORMAT=<ID=GQ,Number=1,Type=Float,Description=\"d\">\n#CHROM\tPOS\tID\tREF\tALT\tQUAL\tFILTER\tINFO\tFORMAT\ts0\n",
    "##fileformat=VCFv4.5\n##FORMAT=<ID=LAA,Number=.,Type=Integer,Description=\"d\">\n##INFO=<ID=SVLEN,Number=A,Type=Integer,Description=\"d\">\n#CHROM\tPOS\tID\tREF\tALT\tQUAL\tFILTER\tINFO\tFORMAT\ts0\n",
    "##fileformat=VCFv4.3\n##INFO=<ID=SVLEN,Number=A,Type=Integer,Description=\"d\">\n#CHROM\tPOS\tID\tREF\tALT\tQUAL\tFILTER\tINFO\n",
    "##fileformat=VCFv4.10\n##INFO=<ID=AC,Number=7,Type=String,Description=\"d\">\n#CHROM\tPOS\tID\tREF\tALT\tQUAL\tFILTER\tINFO\tFORMAT\ts0\n",
    "##fileformat=VCFv5.0\n#CHROM\tPOS\tID\tREF\tALT\tQUAL\tFILTER\tINFO\tFORMAT\ts0\n",
    "##fileformat=VCFv4.3\n##META=<ID=Assay,Type=String,Number=.,Values=[WholeGenome, Exome]>\n##SAMPLE=<ID=Blood,Genomes=Germline,Description=\"d\">\n##PEDIGREE=<ID=c1,Father=f1>\n#CHROM\tPOS\tID\tREF\tALT\tQUAL\tFILTER\tINFO\tFORMAT\ts0\n",
    "##fileformat=VCFv4.2\r\n##PEDIGREE=<Child=c1,Mother=m1>\r\n##x=<ID=a,k=\"v\">\r\n##x=<ID=b>\r\n#CHROM\tPOS\tID\tREF\tALT\tQUAL\tFILTER\tINFO\r\n",
    "##fileformat=VCFv4.3\n#CHROM\tPOS\tID\tREF\tALT\tQUAL\tFILTER\tINFO",
    "##fileformat=VCFv4.3\n",
    "",
    "#CHROM\tPOS\tID\tREF\tALT\tQUAL\tFILTER\tINFO\n",
];

const FT_LINES: &[&str] = &[
    "sq0\t5\t.\tA\t.\t.\t.\t.\n",
    "sq0\t5\t.\tA\tC\t.\t.\tAC=3;DP=7;DB\n",
    "sq0\t5\t.\tA\tC,G\t1.5\tPASS\tAC=3,4;AF=.;AN=9;AA=a%3Bb;H2\n",
    "sq0\t5\trs1\tA\tC\t.\tq10\tI0=4;AC=x\n",
    "sq0\t5\t.\tA\tC\t.\t.\tDP=1,2\n",
    "sq0\t5\t.\tA\tC\t.\t.\tDB=1\n",
    "sq0\t5\t.\tA\tC\t.\t.\tSVLEN=7,.;END=9;CIPOS=-1,1\n",
    "sq0\t5\t.\tA\tC\t.\t.\tSVLEN=7\n",
    "sq0\t5\t.\tA\tC\t.\t.\tzz=1;yy\n",
    "sq0\t5\t.\tA\tC\t.\t.\t.\tGT:DP:GQ\t0/1:7:9\t1|1:.:3\n",
    "sq0\t5\t.\tA\tC\t.\t.\t.\tGT:AD:PL:FT\t0/1:7,2:0,1,2:q10\t.\n",
    "sq0\t5\t.\tA\tC\t.\t.\t.\tDP:F0:HQ\t7:1:1,2\t3:.:.,4\n",
    "sq0\t5\t.\tA\tC\t.\t.\t.\tGQ\t1.5\t2\n",
    "sq0\t5\t.\tA\tC\t.\t.\t.\tDP\tx\ty\n",
    "sq0\t5\t.\tA\tC\t.\t.\t.\tLAA:zz\t1,2:a\t.\n",
    "sq0\t5\t.\tA\tC\t.\t.\tI0=1\tGT\t0/1\r\n",
    "#sq0\t5\t.\tA\tC\t.\t.\t.\n",
    "sq0\t5\t.\tA\tC\t.\t.\tDP=3\tGT:DP\t0|1:4\n",
    "sq0\t0\t.\tN\t.\t.\t.\tDP=3",
    "\n",
    "sq0\t5\t.\tA\n",
    "sq\u{e9}\t5\t.\tA\tC\t.\t.\tAA=\u{e9}\n",
];

pub fn gen_ftxt(rng: &mut Rng, w: &mut CaseWriter, n_mut: usize) {
    let mut push = |w: &mut CaseWriter, t: &[u8]| w.push("ftxt", vec![hex(t), qual_ftab_all(t)]);
    for h in FT_HEADERS {
        push(w, h.as_bytes());
        for l in FT_LINES {
            push(w, format!("{h}{l}").as_bytes());
        }
        push(w, format!("{h}{}{}{}", FT_LINES[1], FT_LINES[9], FT_LINES[2]).as_bytes());
    }
    for _ in 0..n_mut {
        let mut t: Vec<u8> = rng.pick(FT_HEADERS).as_bytes().to_vec();
        let hlen = t.len();
        for _ in 0..rng.range(0, 3) {
            t.extend_from_slice(rng.pick(FT_LINES).as_bytes());
        }
        for _ in 0..rng.range(0, 2) {
            if t.is_empty() {
                break;
            }
            let i = rng.below(t.len() as u64) as usize;
            // header bytes: ASCII only (the header parser's UTF-8 checks are not modelled)
            let pool: &[u8] = if i < hlen { b"\t\n\r#=,<>\"x14" } else { b"\t\t;:=,./|.0\r\n#\xc3\xa9\xff" };
            match rng.below(5) {
                0 => { t.remove(i); }
                1 => { let b = t[i]; t.insert(i, b); }
                2 => t[i] = *rng.pick(pool),
                3 => t.insert(i, *rng.pick(pool)),
                _ => { if i >= hlen { t.truncate(i); } }
            }
        }
        push(w, &t);
    }
}
