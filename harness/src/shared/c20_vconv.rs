//! C20 deepening round 7: variant conversions through the generic reader and writer, L2 against the
//! extracted model NV.Util.ConvertVariant (C09's lazy line reader + span, C10's bridge writer and
//! lazy BCF path, C09's line writer).
//!
//!   cvvb HDR.. ftab v45 line text   VCF -> BCF, one record: the header `text` + line + LF through
//!                     variant::io::reader::Builder::default() (autodetect; lazy vcf::Record) into
//!                     variant::io::writer::Builder (format BCF, compression None);
//!                     obs = `Ok:<hex of what the BCF writer emitted after the header>` | `Err` | `Panic`
//!   cvbv HDR.. ftab v45 block text  BCF -> VCF, one record: the raw BCF header the generic writer emits
//!                     for `text` + the block through the autodetecting reader (lazy bcf::Record) into
//!                     the VCF writer; obs = `Ok:<hex of the line incl. LF>` | `Err` | `Panic`
//!   cvvl HDR.. ftab v45 lines text  the record section of a file, VCF -> BCF (lines = comma-separated
//!                     hex, without LF): obs = `Ok:<hex of everything after the BCF header>` | `Err`
//!   cvbl HDR.. ftab v45 blocks text the record section BCF -> VCF (blocks = one hex string):
//!                     obs = `Ok:<hex of everything after the VCF header>` | `Err`
//!   cvbh ftab file                (round 10c, model NV.Util.ConvertVariantHdrRev) the WHOLE file BCF -> VCF: the
//!                                 BCF prefix is read by the model (C10 read_prefix), maps and tables derived;
//!                                 obs = hex of the WHOLE VCF output, read_header errors with their kind
//!   cvvh ftab lines text          (round 10, model NV.Util.ConvertVariantHdr) the WHOLE file VCF -> BCF with
//!                     the header block: nothing about the header is a case argument - the model parses
//!                     the header text itself (C09 read_header_text), derives the lookup tables
//!                     (hctx_of_header), the string maps (C10 maps_of_header), the 4.5 switch of
//!                     variant_span, and writes the BCF header block (C10 write_prefix);
//!                     obs = `Ok:<hex of EVERYTHING the BCF writer emitted>` | `Err`
//!   HDR.. = version infos filters formats contigs nsamples in the format of C10's `vb` kind
//!   (defs `ID/Number/Type/IDX`, pairs `ID/IDX`), derived from the REAL parsed header of `text` and
//!   re-derived at run time (a difference is a harness error); ftab = the float text oracle
//!   (bits:hex(text):parsed bits) for every token of the VCF side that Rust parses as f32.
//! Oracle of all kinds: source and target, read by the formats' own eager readers, give the same
//! canonical VCF lines.

use std::io::{self, Cursor};

use noodles_bcf as bcf;
use noodles_util::variant::{self, io::Format};
use noodles_vcf as vcf;
use nv::{Case, CaseWriter, Obs, Outcome, Rng, adversary::FaultySink, guarded, hex};

fn num_i(n: vcf::header::record::value::map::info::Number) -> String {
    use vcf::header::record::value::map::info::Number::*;
    match n {
        Count(k) => k.to_string(),
        AlternateBases => "A".into(),
        ReferenceAlternateBases => "R".into(),
        Samples => "G".into(),
        _ => ".".into(),
    }
}

fn num_f(n: vcf::header::record::value::map::format::Number) -> String {
    use vcf::header::record::value::map::format::Number::*;
    match n {
        Count(k) => k.to_string(),
        AlternateBases => "A".into(),
        ReferenceAlternateBases => "R".into(),
        Samples => "G".into(),
        _ => ".".into(),
    }
}

fn idx_s(i: Option<usize>) -> String {
    i.map(|x| x.to_string()).unwrap_or_else(|| "-".into())
}

fn dash(v: Vec<String>) -> String {
    if v.is_empty() { "-".into() } else { v.join(",") }
}

/// version, infos, filters, formats, contigs, nsamples
pub fn header_args(h: &vcf::Header) -> Vec<String> {
    use vcf::header::record::value::map::{format, info};
    let ff = h.file_format();
    let infos = h
        .infos()
        .iter()
        .map(|(k, m)| {
            let t = match m.ty() {
                info::Type::Integer => "I",
                info::Type::Float => "F",
                info::Type::Flag => "B",
                info::Type::Character => "C",
                info::Type::String => "S",
            };
            format!("{}/{}/{}/{}", k, num_i(m.number()), t, idx_s(m.idx()))
        })
        .collect();
    let filters = h.filters().iter().map(|(k, m)| format!("{}/{}", k, idx_s(m.idx()))).collect();
    let formats = h
        .formats()
        .iter()
        .map(|(k, m)| {
            let t = match m.ty() {
                format::Type::Integer => "I",
                format::Type::Float => "F",
                format::Type::Character => "C",
                format::Type::String => "S",
            };
            format!("{}/{}/{}/{}", k, num_f(m.number()), t, idx_s(m.idx()))
        })
        .collect();
    let contigs = h.contigs().iter().map(|(k, m)| format!("{}/{}", k, idx_s(m.idx()))).collect();
    vec![
        format!("{}.{}", ff.major(), ff.minor()),
        dash(infos),
        dash(filters),
        dash(formats),
        dash(contigs),
        h.sample_names().len().to_string(),
    ]
}

fn v45_of(h: &vcf::Header) -> &'static str {
    let ff = h.file_format();
    if (ff.major(), ff.minor()) >= (4, 5) { "1" } else { "0" }
}

/// the float text oracle for the VCF side `text` (record lines)
pub fn ftab_of(text: &[u8]) -> String {
    let mut shown: Vec<String> = vec![];
    let mut toks: Vec<String> = vec![];
    for t in text.split(|b| matches!(*b, b'\t' | b';' | b',' | b':' | b'=' | b'\n' | b'\r')) {
        let Ok(s) = std::str::from_utf8(t) else { continue };
        if s.is_empty() || s.len() > 40 {
            continue;
        }
        if let Ok(f) = s.parse::<f32>() {
            let b = f.to_bits();
            let d = format!("{f}");
            let back = d.parse::<f32>().map(f32::to_bits).unwrap_or(0);
            let e1 = format!("{b}:{}:{back}", hex(d.as_bytes()));
            if !shown.contains(&e1) {
                shown.push(e1);
            }
            let e2 = format!("{b}:{}:{b}", hex(s.as_bytes()));
            if !toks.contains(&e2) && !shown.contains(&e2) {
                toks.push(e2);
            }
        }
    }
    shown.extend(toks);
    if shown.is_empty() { "-".into() } else { shown.join(",") }
}

fn parse_header(text: &[u8]) -> io::Result<vcf::Header> {
    vcf::io::Reader::new(text).read_header()
}

/// pipe every record of `src` (autodetected) into a generic uncompressed writer of `dst`
fn pipe_all(src: Vec<u8>, dst: Format) -> io::Result<Vec<u8>> {
    let mut r = variant::io::reader::Builder::default().build_from_reader(Cursor::new(src))?;
    let header = r.read_header()?;
    let sink = FaultySink::new(vec![]);
    {
        let mut w = variant::io::writer::Builder::default()
            .set_format(dst)
            .set_compression_method(None)
            .build_from_writer(sink.clone());
        w.write_header(&header)?;
        for rec in r.records(&header) {
            let rec = rec?;
            w.write_record(&header, rec.as_ref())?;
        }
        w.finish()?;
    }
    Ok(sink.bytes())
}

fn canon_vcf(file: Vec<u8>) -> io::Result<Vec<Vec<u8>>> {
    let mut r = vcf::io::Reader::new(Cursor::new(file));
    let h = r.read_header()?;
    let mut out = vec![];
    for rec in r.record_bufs(&h) {
        out.push(super::variant::canon_line(&h, &rec?)?);
    }
    Ok(out)
}

fn canon_bcf(file: Vec<u8>) -> io::Result<Vec<Vec<u8>>> {
    let mut r = bcf::io::Reader::from(Cursor::new(file));
    let h = r.read_header()?;
    let mut out = vec![];
    for rec in r.record_bufs(&h) {
        out.push(super::variant::canon_line(&h, &rec?)?);
    }
    Ok(out)
}

fn gd<T>(f: impl FnOnce() -> io::Result<T>) -> Result<io::Result<T>, ()> {
    match guarded(std::panic::AssertUnwindSafe(f)) {
        Outcome::Done(r) => Ok(r),
        Outcome::Panicked(_) => Err(()),
    }
}

/// kind, the first HDR arg index is 0; args: 0..5 HDR, 6 ftab, 7 v45, 8 payload, 9 header text
pub fn run(c: &Case) -> Obs {
    if c.kind == "cvvh" {
        return run_hdr(c);
    }
    if c.kind == "cvbh" {
        return run_hdr_rev(c);
    }
    let text = c.b(9);
    let header = match gd(|| parse_header(&text)) {
        Ok(Ok(h)) => h,
        _ => return Obs::fail("-", "harness-header-unreadable", "cv* header text"),
    };
    let mut want = header_args(&header);
    want.push(c.args[6].clone());
    want.push(v45_of(&header).to_string());
    if want[..6] != c.args[..6] || want[7] != c.args[7] {
        return Obs::fail("-", "harness-header-args-mismatch", format!("{:?}", &want[..6]));
    }
    let to_bcf = c.kind == "cvvb" || c.kind == "cvvl";
    // the source stream and the target's header-only stream
    let hdr_only = |dst: Format| pipe_all(text.clone(), dst);
    let (src, dst_fmt): (Vec<u8>, Format) = if to_bcf {
        let mut s = text.clone();
        if c.kind == "cvvb" {
            s.extend_from_slice(&c.b(8));
            s.push(b'\n');
        } else if c.args[8] != "_" {
            for l in c.args[8].split(',') {
                s.extend_from_slice(&nv::unhex(l));
                s.push(b'\n');
            }
        }
        (s, Format::Vcf)
    } else {
        let mut s = match gd(|| hdr_only(Format::Bcf)) {
            Ok(Ok(s)) => s,
            _ => return Obs::fail("-", "harness-bcf-header-unwritable", "cv* header"),
        };
        s.extend_from_slice(&c.b(8));
        (s, Format::Bcf)
    };
    let _ = dst_fmt;
    let target = if to_bcf { Format::Bcf } else { Format::Vcf };
    let prefix = match gd(|| hdr_only(target)) {
        Ok(Ok(s)) => s.len(),
        _ => return Obs::fail("-", "harness-target-header-unwritable", "cv* header"),
    };
    let s2 = src.clone();
    let out = match gd(move || pipe_all(s2, target)) {
        Err(()) => return Obs::ok("Panic", true),
        Ok(Err(_)) => return Obs::ok("Err", false),
        Ok(Ok(out)) => out,
    };
    if out.len() < prefix {
        return Obs::fail("-", "harness-output-shorter-than-header", format!("{} < {prefix}", out.len()));
    }
    let obs = format!("Ok:{}", hex(&out[prefix..]));
    let nontrivial = out.len() > prefix;
    let (a, b) = if to_bcf { (gd(|| canon_vcf(src)), gd(|| canon_bcf(out))) } else { (gd(|| canon_bcf(src)), gd(|| canon_vcf(out))) };
    let dir = if to_bcf { "vcf-to-bcf" } else { "bcf-to-vcf" };
    match (a, b) {
        (Ok(Ok(a)), Ok(Ok(b))) => match super::common::first_diff(&a, &b) {
            Some(d) => Obs::fail(obs, &format!("convert-{dir}-changes-records"), d),
            None => Obs::ok(obs, nontrivial),
        },
        (Ok(Err(_)), _) => Obs::ok(obs, false),
        (_, Ok(Err(e))) => Obs::fail(obs, &format!("convert-{dir}-output-unreadable"), format!("{} {e}", nv::errkind(&e))),
        _ => Obs::fail(obs, "convert-reader-panic", "a format reader panicked on the conversion's input or output"),
    }
}

/// cvvh: args 0 ftab, 1 lines (comma-separated hex, `_` = none), 2 header text
fn run_hdr(c: &Case) -> Obs {
    let text = c.b(2);
    let mut src = text.clone();
    if c.args[1] != "_" {
        for l in c.args[1].split(',') {
            src.extend_from_slice(&nv::unhex(l));
            src.push(b'\n');
        }
    }
    let s2 = src.clone();
    let out = match gd(move || pipe_all(s2, Format::Bcf)) {
        Err(()) => return Obs::ok("Panic", true),
        Ok(Err(_)) => return Obs::ok("Err", false),
        Ok(Ok(out)) => out,
    };
    let obs = format!("Ok:{}", hex(&out));
    // oracle: the header the BCF reader reads back is the header the VCF reader parsed (as VCF text),
    // and the records are the same canonical lines
    let hdr_text = |h: &vcf::Header| -> io::Result<Vec<u8>> {
        let mut w = vcf::io::Writer::new(Vec::new());
        w.write_header(h)?;
        Ok(w.into_inner())
    };
    let h_src = gd(|| parse_header(&text).and_then(|h| hdr_text(&h)));
    let o2 = out.clone();
    let h_dst = gd(move || bcf::io::Reader::from(Cursor::new(o2)).read_header().and_then(|h| hdr_text(&h)));
    match (h_src, h_dst) {
        (Ok(Ok(a)), Ok(Ok(b))) => {
            if a != b {
                return Obs::fail(obs, "convert-vcf-to-bcf-changes-header", String::from_utf8_lossy(&b).into_owned());
            }
        }
        (_, Ok(Err(e))) => return Obs::fail(obs, "convert-vcf-to-bcf-output-unreadable", format!("header {} {e}", nv::errkind(&e))),
        _ => return Obs::fail(obs, "convert-reader-panic", "a header reader panicked or the source header is unreadable"),
    }
    match (gd(|| canon_vcf(src)), gd(|| canon_bcf(out))) {
        (Ok(Ok(a)), Ok(Ok(b))) => match super::common::first_diff(&a, &b) {
            Some(d) => Obs::fail(obs, "convert-vcf-to-bcf-changes-records", d),
            None => Obs::ok(obs, true),
        },
        (Ok(Err(_)), _) => Obs::ok(obs, false),
        (_, Ok(Err(e))) => Obs::fail(obs, "convert-vcf-to-bcf-output-unreadable", format!("{} {e}", nv::errkind(&e))),
        _ => Obs::fail(obs, "convert-reader-panic", "a format reader panicked on the conversion's input or output"),
    }
}

/// cvbh: args 0 ftab, 1 the whole uncompressed BCF file (header block + record blocks, possibly cut)
fn run_hdr_rev(c: &Case) -> Obs {
    let src = c.b(1);
    let s2 = src.clone();
    // read_header errors are reported with their kind (the model tells UnexpectedEof from InvalidData);
    // a failure after the header is `Err`
    let s3 = src.clone();
    let hdr = gd(move || {
        let mut r = variant::io::reader::Builder::default().build_from_reader(Cursor::new(s3))?;
        r.read_header().map(|_| ())
    });
    match hdr {
        Err(()) => return Obs::ok("Panic", true),
        Ok(Err(e)) => return Obs::ok(format!("Err:{}", nv::errkind(&e)), false),
        Ok(Ok(())) => {}
    }
    let out = match gd(move || pipe_all(s2, Format::Vcf)) {
        Err(()) => return Obs::ok("Panic", true),
        Ok(Err(_)) => return Obs::ok("Err", false),
        Ok(Ok(out)) => out,
    };
    let obs = format!("Ok:{}", hex(&out));
    // oracle: the header the VCF reader reads back is the header the BCF reader parsed (as VCF text),
    // and the records are the same canonical lines
    let hdr_text = |h: &vcf::Header| -> io::Result<Vec<u8>> {
        let mut w = vcf::io::Writer::new(Vec::new());
        w.write_header(h)?;
        Ok(w.into_inner())
    };
    let s4 = src.clone();
    let h_src = gd(move || bcf::io::Reader::from(Cursor::new(s4)).read_header().and_then(|h| hdr_text(&h)));
    let o2 = out.clone();
    let h_dst = gd(move || parse_header(&o2).and_then(|h| hdr_text(&h)));
    match (h_src, h_dst) {
        (Ok(Ok(a)), Ok(Ok(b))) => {
            if a != b {
                return Obs::fail(obs, "convert-bcf-to-vcf-changes-header", String::from_utf8_lossy(&b).into_owned());
            }
        }
        (_, Ok(Err(e))) => return Obs::fail(obs, "convert-bcf-to-vcf-output-unreadable", format!("header {} {e}", nv::errkind(&e))),
        _ => return Obs::fail(obs, "convert-reader-panic", "a header reader panicked or the source header is unreadable"),
    }
    match (gd(|| canon_bcf(src)), gd(|| canon_vcf(out))) {
        (Ok(Ok(a)), Ok(Ok(b))) => match super::common::first_diff(&a, &b) {
            Some(d) => Obs::fail(obs, "convert-bcf-to-vcf-changes-records", d),
            None => Obs::ok(obs, true),
        },
        (Ok(Err(_)), _) => Obs::ok(obs, false),
        (_, Ok(Err(e))) => Obs::fail(obs, "convert-bcf-to-vcf-output-unreadable", format!("{} {e}", nv::errkind(&e))),
        _ => Obs::fail(obs, "convert-reader-panic", "a format reader panicked on the conversion's input or output"),
    }
}

fn push(w: &mut CaseWriter, kind: &str, header: &vcf::Header, header_text: &str, vcf_side: &[u8], payload: String) {
    let mut args = header_args(header);
    args.push(ftab_of(vcf_side));
    args.push(v45_of(header).to_string());
    args.push(if payload.is_empty() { "_".into() } else { payload });
    args.push(hex(header_text.as_bytes()));
    w.push(kind, args);
}

pub fn generate(rng: &mut Rng, tier: &str, w: &mut CaseWriter) {
    let nsets = if tier == "thorough" { 400 } else { 40 };
    for i in 0..nsets {
        let hdr = [0u64, 1, 2, 3, 3, 3][i % 6];
        let nrec = [1usize, 3, 5][i % 3];
        let spec = super::variant::gen_spec(rng.next(), nrec, hdr);
        let Ok(header) = parse_header(spec.header_text.as_bytes()) else { continue };
        // lines beyond ~6000 bytes (the 32 Ki sweeps) only in the file kinds of the thorough tier
        let small: Vec<&String> = spec.lines.iter().filter(|l| l.len() < 3000).collect();
        for l in &small {
            push(w, "cvvb", &header, &spec.header_text, l.as_bytes(), hex(l.as_bytes()));
        }
        let lines: Vec<&String> = if tier == "thorough" { spec.lines.iter().collect() } else { small.clone() };
        let joined: Vec<u8> = lines.iter().flat_map(|l| l.bytes().chain(std::iter::once(b'\n'))).collect();
        push(w, "cvvl", &header, &spec.header_text, &joined, lines.iter().map(|l| hex(l.as_bytes())).collect::<Vec<_>>().join(","));
        {
            let payload = lines.iter().map(|l| hex(l.as_bytes())).collect::<Vec<_>>().join(",");
            w.push("cvvh", vec![ftab_of(&joined), if payload.is_empty() { "_".into() } else { payload }, hex(spec.header_text.as_bytes())]);
            // the header alone
            if i % 4 == 0 {
                w.push("cvvh", vec!["-".into(), "_".into(), hex(spec.header_text.as_bytes())]);
            }
        }
        // the BCF side: what the real BCF writer makes of the same lines
        let mut text = spec.header_text.clone().into_bytes();
        let hdr_len = match pipe_all(text.clone(), Format::Bcf) {
            Ok(s) => s.len(),
            Err(_) => continue,
        };
        let mut blocks: Vec<Vec<u8>> = vec![];
        let mut ok_lines: Vec<&String> = vec![];
        for l in &lines {
            let mut one = spec.header_text.clone().into_bytes();
            one.extend_from_slice(l.as_bytes());
            one.push(b'\n');
            if let Outcome::Done(Ok(out)) = guarded(std::panic::AssertUnwindSafe(|| pipe_all(one, Format::Bcf))) {
                if out.len() > hdr_len {
                    blocks.push(out[hdr_len..].to_vec());
                    ok_lines.push(*l);
                }
            }
        }
        text.clear();
        for (b, l) in blocks.iter().zip(&ok_lines) {
            if b.len() < 3000 {
                // the float table: the tokens of the line the block came from (the VCF writer emits
                // the same float texts) -- plus those of the real output, computed below
                let mut side = l.as_bytes().to_vec();
                let mut one = pipe_all(spec.header_text.clone().into_bytes(), Format::Bcf).unwrap_or_default();
                one.extend_from_slice(b);
                if let Outcome::Done(Ok(out)) = guarded(std::panic::AssertUnwindSafe(|| pipe_all(one, Format::Vcf))) {
                    side.push(b'\n');
                    side.extend_from_slice(&out);
                }
                push(w, "cvbv", &header, &spec.header_text, &side, hex(b));
            }
        }
        let all: Vec<u8> = blocks.concat();
        let mut side: Vec<u8> = joined.clone();
        let mut one = pipe_all(spec.header_text.clone().into_bytes(), Format::Bcf).unwrap_or_default();
        one.extend_from_slice(&all);
        if let Outcome::Done(Ok(out)) = guarded(std::panic::AssertUnwindSafe(|| pipe_all(one.clone(), Format::Vcf))) {
            side.extend_from_slice(&out);
        }
        push(w, "cvbl", &header, &spec.header_text, &side, hex(&all));
        // the whole BCF file, header block included; the header block alone; a cut inside the
        // header block (>= 9 bytes: the magic stays, so the file is still detected as BCF) and
        // inside the record section
        if one.len() > 9 {
            let hdr_len = one.len() - all.len();
            w.push("cvbh", vec![ftab_of(&side), hex(&one)]);
            if i % 4 == 0 {
                w.push("cvbh", vec!["-".into(), hex(&one[..hdr_len])]);
            }
            if i % 3 == 0 {
                let cut = 9 + rng.below((hdr_len - 9) as u64) as usize;
                w.push("cvbh", vec!["-".into(), hex(&one[..cut])]);
            }
            if i % 5 == 0 && !all.is_empty() {
                let cut = hdr_len + 1 + rng.below((all.len() - 1).max(1) as u64) as usize;
                w.push("cvbh", vec![ftab_of(&side), hex(&one[..cut.min(one.len())])]);
            }
        }
        // a mutated line now and then: what the lazy reader / the encoder reject
        if let Some(l) = small.first() {
            let cols: Vec<&str> = l.split('\t').collect();
            if cols.len() >= 8 {
                let mut m: Vec<String> = cols.iter().map(|s| s.to_string()).collect();
                match rng.below(6) {
                    0 => m[1] = "x".into(),
                    1 => m[5] = "q".into(),
                    2 => m[0] = "nochrom".into(),
                    3 => m[6] = "undefinedfilter".into(),
                    4 => m[7] = "ZZ=1".into(),
                    _ => m[1] = "0".into(),
                }
                let ml = m.join("\t");
                push(w, "cvvb", &header, &spec.header_text, ml.as_bytes(), hex(ml.as_bytes()));
            }
        }
    }
}
