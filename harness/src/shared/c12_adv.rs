//! C12: the chunking adversary used by the delivery oracle.
//!
//! `CutReader` serves a byte vector with
//!   * `max_read`  — never more than this many bytes per read() call (1 = byte at a time),
//!   * `cuts`      — absolute offsets no single read() may cross (a read that would straddle a cut
//!                   stops at it: "split exactly at p"),
//!   * `intr` / `intr_all` — offsets at which the next read() attempt first fails once with
//!                   ErrorKind::Interrupted (also at the end-of-data offset),
//! so a split can be placed at an absolute file offset whatever buffer sizes the reader under test
//! happens to ask for.  Every behaviour of a CutReader is the behaviour of *some* delivery script
//! of the model (Io/Source.v), so the Coq theorems quantify over it.
//!
//! `Src` unifies it with `nv::adversary::ScriptedReader` (the literal script language of the model).

use std::io::{self, Read, Seek, SeekFrom};
use std::sync::Arc;

use nv::adversary::{Deliver, ScriptedReader};

pub struct CutReader {
    pub data: Arc<Vec<u8>>,
    pub pos: usize,
    pub max_read: usize,
    pub cuts: Arc<Vec<usize>>,
    pub intr: Arc<Vec<usize>>,
    pub intr_all: bool,
    /// offsets at which an Interrupted has already been delivered (each fires once per reader, also
    /// when a seek brings the position back)
    fired: std::collections::HashSet<usize>,
    pub interrupts_fired: usize,
}

impl Read for CutReader {
    fn read(&mut self, buf: &mut [u8]) -> io::Result<usize> {
        if buf.is_empty() {
            return Ok(0);
        }
        if (self.intr_all || self.intr.binary_search(&self.pos).is_ok())
            && !self.fired.contains(&self.pos)
        {
            self.fired.insert(self.pos);
            self.interrupts_fired += 1;
            return Err(io::Error::from(io::ErrorKind::Interrupted));
        }
        let mut n = buf.len().min(self.data.len() - self.pos).min(self.max_read.max(1));
        // next cut strictly after pos
        let i = self.cuts.partition_point(|&c| c <= self.pos);
        if let Some(&c) = self.cuts.get(i) {
            n = n.min(c - self.pos);
        }
        buf[..n].copy_from_slice(&self.data[self.pos..self.pos + n]);
        self.pos += n;
        Ok(n)
    }
}

impl Seek for CutReader {
    fn seek(&mut self, pos: SeekFrom) -> io::Result<u64> {
        let new = match pos {
            SeekFrom::Start(n) => n as i128,
            SeekFrom::End(d) => self.data.len() as i128 + d as i128,
            SeekFrom::Current(d) => self.pos as i128 + d as i128,
        };
        if new < 0 {
            return Err(io::Error::from(io::ErrorKind::InvalidInput));
        }
        self.pos = (new as usize).min(self.data.len());
        Ok(new as u64)
    }
}

/// How one decode run is fed.
#[derive(Clone, Debug)]
pub struct Delivery {
    pub name: String,
    pub max_read: usize,
    pub cuts: Arc<Vec<usize>>,
    pub intr: Arc<Vec<usize>>,
    pub intr_all: bool,
    /// literal script (model language); when set the other source fields are ignored
    pub script: Option<Arc<Vec<Deliver>>>,
    /// Some(cap): wrapped in std::io::BufReader::with_capacity(cap, ..)
    pub cap: Option<usize>,
}

impl Delivery {
    pub fn plain(name: &str) -> Self {
        Delivery {
            name: name.into(),
            max_read: usize::MAX,
            cuts: Arc::new(Vec::new()),
            intr: Arc::new(Vec::new()),
            intr_all: false,
            script: None,
            cap: None,
        }
    }
    pub fn has_interrupts(&self) -> bool {
        self.intr_all
            || !self.intr.is_empty()
            || self
                .script
                .as_ref()
                .is_some_and(|s| s.iter().any(|e| *e == Deliver::Interrupted))
    }
    pub fn source(&self, data: &Arc<Vec<u8>>) -> Src {
        match &self.script {
            Some(s) => Src::Script(ScriptedReader::new(data.as_ref().clone(), s.as_ref().clone())),
            None => Src::Cut(CutReader {
                data: data.clone(),
                pos: 0,
                max_read: self.max_read,
                cuts: self.cuts.clone(),
                intr: self.intr.clone(),
                intr_all: self.intr_all,
                fired: Default::default(),
                interrupts_fired: 0,
            }),
        }
    }
}

pub enum Src {
    Cut(CutReader),
    Script(ScriptedReader),
}

impl Read for Src {
    fn read(&mut self, buf: &mut [u8]) -> io::Result<usize> {
        match self {
            Src::Cut(r) => r.read(buf),
            Src::Script(r) => r.read(buf),
        }
    }
}

impl Seek for Src {
    fn seek(&mut self, pos: SeekFrom) -> io::Result<u64> {
        match self {
            Src::Cut(r) => r.seek(pos),
            Src::Script(r) => r.seek(pos),
        }
    }
}

pub fn parse_script(s: &str) -> Vec<Deliver> {
    if s == "_" {
        return Vec::new();
    }
    s.split(',')
        .map(|t| {
            if t == "i" {
                Deliver::Interrupted
            } else {
                Deliver::Bytes(t.parse().expect("script item"))
            }
        })
        .collect()
}

pub fn fmt_script(s: &[Deliver]) -> String {
    if s.is_empty() {
        return "_".into();
    }
    s.iter()
        .map(|e| match e {
            Deliver::Interrupted => "i".to_string(),
            Deliver::Bytes(k) => k.to_string(),
        })
        .collect::<Vec<_>>()
        .join(",")
}
