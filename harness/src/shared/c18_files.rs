//! C18: typed GFF3 directive values re-parsed from their text, whole written GFF3 / GTF files, and
//! the lazy / owned attribute views of an arbitrary GFF3 attribute column.
//!
//!   dirval <hex utf-8 text>     GffVersion / SequenceRegion / GenomeBuild ::from_str on the text
//!          -> "V=<res>|R=<res>|G=<res>"          (NV.Text.GffDirValue parse_gff_version, ...)
//!   gffdv  <hex key> <kind> <a> <b> <c>   typed directive through the real writer, the line read
//!          back, its text value re-parsed with the FromStr that belongs to the key
//!          kind V: a=major b=minor|- c=patch|-   R: a=<hex name> b=start c=end
//!               G: a=<hex source> b=<hex name>   S: a=<hex text>   N: no value
//!          -> "W=<hex line>|T=<typed value read back>"   (directive_typed_readback)
//!   gfffile item item ...       items: "R <9 record fields>" | "D <hex key> <kind> <a> <b> <c>" |
//!          "C <hex comment>" | "B <hex raw line pushed by the caller>"; written call by call by the
//!          real writer, read back with ONE reused Line, line_bufs() and record_bufs()
//!          -> "W=<hex file>|L=<lazy lines>|O=<owned lines>|B=<record_bufs records>"
//!             (NV.Text.GffFile.gff_write_file + GffLine.gff_file_lines / _line_bufs / gff_record_bufs)
//!   gtffile item item ...       items: "R <9 record fields>" | "C <hex comment>"  -> same shape
//!   gffattr <hex column>        arbitrary GFF3 attribute column: lazy iteration, Attributes::get of
//!          every tag seen (and of one absent tag), the owned Attributes map (IndexMap) and its get
//!          -> "I=<items>|G=<tag>:<lazy get>:<owned get>,...|M=<owned map>"  (NV.Text.GffAttrMap)

use super::*;

use std::num::IntErrorKind;

fn int_kind(e: &std::num::ParseIntError) -> &'static str {
    match e.kind() {
        IntErrorKind::Empty => "Empty",
        IntErrorKind::InvalidDigit => "InvalidDigit",
        IntErrorKind::PosOverflow => "PosOverflow",
        IntErrorKind::NegOverflow => "NegOverflow",
        IntErrorKind::Zero => "Zero",
        _ => "Other",
    }
}

fn opt_u32(x: Option<u32>) -> String {
    x.map(|v| v.to_string()).unwrap_or("-".into())
}

pub fn version_res(s: &str) -> String {
    use gff::directive_buf::value::gff_version::ParseError as E;
    match GffVersion::from_str(s) {
        Ok(v) => format!("Ok:{},{},{}", v.major(), opt_u32(v.minor()), opt_u32(v.patch())),
        Err(E::Empty) => "Err:Empty".into(),
        Err(E::MissingMajorVersion) => "Err:MissingMajor".into(),
        Err(E::InvalidMajorVersion(e)) => format!("Err:InvalidMajor:{}", int_kind(&e)),
        Err(E::InvalidMinorVersion(e)) => format!("Err:InvalidMinor:{}", int_kind(&e)),
        Err(E::InvalidPatchVersion(e)) => format!("Err:InvalidPatch:{}", int_kind(&e)),
    }
}

pub fn region_res(s: &str) -> String {
    use gff::directive_buf::value::sequence_region::ParseError as E;
    match SequenceRegion::from_str(s) {
        Ok(v) => format!("Ok:{},{},{}", hex(v.reference_sequence_name()), usize::from(v.start()), usize::from(v.end())),
        Err(E::Empty) => "Err:Empty".into(),
        Err(E::MissingReferenceSequenceName) => "Err:MissingName".into(),
        Err(E::MissingStart) => "Err:MissingStart".into(),
        Err(E::InvalidStart(e)) => format!("Err:InvalidStart:{}", int_kind(&e)),
        Err(E::MissingEnd) => "Err:MissingEnd".into(),
        Err(E::InvalidEnd(e)) => format!("Err:InvalidEnd:{}", int_kind(&e)),
    }
}

pub fn build_res(s: &str) -> String {
    use gff::directive_buf::value::genome_build::ParseError as E;
    match GenomeBuild::from_str(s) {
        Ok(v) => format!("Ok:{},{}", hex(v.source()), hex(v.name())),
        Err(E::Empty) => "Err:Empty".into(),
        Err(E::MissingSource) => "Err:MissingSource".into(),
        Err(E::MissingName) => "Err:MissingName".into(),
    }
}

/// dirval <hex utf-8 text>
pub fn run_dirval(c: &Case) -> Obs {
    let text = c.b(0);
    let s = String::from_utf8(text).expect("dirval text is UTF-8");
    let s2 = s.clone();
    match guarded(AssertUnwindSafe(move || format!("V={}|R={}|G={}", version_res(&s2), region_res(&s2), build_res(&s2)))) {
        Outcome::Panicked(m) => Obs::fail("Panic", "gff3-directive-value-parse-panic", m),
        Outcome::Done(obs) => Obs::ok(obs, true),
    }
}

pub fn gen_dirval(rng: &mut Rng) -> Vec<u8> {
    match rng.below(6) {
        0 => {
            // version-like
            let n = rng.range(1, 5);
            let mut parts = Vec::new();
            for _ in 0..n {
                parts.push(
                    rng.pick(&["3", "0", "1", "26", "007", "+3", "-1", "", "4294967295", "4294967296", "99999999999999999999", "3x", "x", "+", "-", " 3", "3 "])
                        .to_string(),
                );
            }
            parts.join(".").into_bytes()
        }
        1 | 2 => {
            // region-like
            let n = rng.range(0, 5);
            let mut out = Vec::new();
            if rng.chance(1, 5) {
                out.extend_from_slice(*rng.pick(&[&b" "[..], b"\t", b"\r", b"\x0c ", b"\n"]));
            }
            for i in 0..n {
                let tok: Vec<u8> = if i == 0 {
                    gen_plain(rng, 1, 6, b"chr1_.%ab\xc3\xa9")
                } else {
                    rng.pick(&["1", "8", "13", "0", "+5", "-5", "x", "18446744073709551615", "18446744073709551616", "00012", "1.5", "+", "+0"])
                        .as_bytes()
                        .to_vec()
                };
                out.extend_from_slice(&tok);
                if i + 1 < n || rng.chance(1, 4) {
                    out.extend_from_slice(*rng.pick(&[&b" "[..], b" ", b"  ", b"\t", b" \x0c", b"\r"]));
                }
            }
            String::from_utf8_lossy(&out).into_owned().into_bytes()
        }
        3 => {
            let a = gen_plain(rng, 0, 5, b"NCBIab. \t");
            String::from_utf8_lossy(&a).into_owned().into_bytes()
        }
        _ => {
            let a = gen_plain(rng, 0, 10, b"3.1 +-x0\t92");
            a
        }
    }
}

// ---------------------------------------------------------------------------------------------
// typed directives

#[derive(Clone, Debug)]
pub enum DVal {
    N,
    S(Vec<u8>),
    V(u32, Option<u32>, Option<u32>),
    R(Vec<u8>, u64, u64),
    G(Vec<u8>, Vec<u8>),
}

pub fn dval_args(key: &[u8], v: &DVal) -> Vec<String> {
    let d = "-".to_string();
    match v {
        DVal::N => vec![hex(key), "N".into(), d.clone(), d.clone(), d],
        DVal::S(s) => vec![hex(key), "S".into(), hex(s), d.clone(), d],
        DVal::V(a, b, c) => vec![hex(key), "V".into(), a.to_string(), opt_u32(*b), opt_u32(*c)],
        DVal::R(n, s, e) => vec![hex(key), "R".into(), hex(n), s.to_string(), e.to_string()],
        DVal::G(s, n) => vec![hex(key), "G".into(), hex(s), hex(n), d],
    }
}

pub fn dval_of_args(a: &[String]) -> (Vec<u8>, DVal) {
    let key = unhex(&a[0]);
    let opt = |s: &String| if s == "-" { None } else { Some(s.parse::<u32>().expect("u32")) };
    let v = match a[1].as_str() {
        "N" => DVal::N,
        "S" => DVal::S(unhex(&a[2])),
        "V" => DVal::V(a[2].parse().expect("major"), opt(&a[3]), opt(&a[4])),
        "R" => DVal::R(unhex(&a[2]), a[3].parse().expect("start"), a[4].parse().expect("end")),
        "G" => DVal::G(unhex(&a[2]), unhex(&a[3])),
        k => panic!("directive value kind {k}"),
    };
    (key, v)
}

pub fn directive_of(key: &[u8], v: &DVal) -> gff::DirectiveBuf {
    let value = match v {
        DVal::N => None,
        DVal::S(s) => Some(directive_buf::Value::String(BString::from(s.clone()))),
        DVal::V(a, b, c) => {
            // GffVersion has no constructor: its own FromStr on the canonical text builds it
            let mut t = a.to_string();
            if let Some(b) = b {
                t.push_str(&format!(".{b}"));
                if let Some(c) = c {
                    t.push_str(&format!(".{c}"));
                }
            }
            Some(directive_buf::Value::GffVersion(GffVersion::from_str(&t).expect("version")))
        }
        DVal::R(n, s, e) => Some(directive_buf::Value::SequenceRegion(SequenceRegion::new(BString::from(n.clone()), pos(*s), pos(*e)))),
        DVal::G(s, n) => Some(directive_buf::Value::GenomeBuild(GenomeBuild::new(BString::from(s.clone()), BString::from(n.clone())))),
    };
    gff::DirectiveBuf::new(BString::from(key.to_vec()), value)
}

/// what a caller gets who re-parses the text value of a directive line with the FromStr of its key
fn typed_back(key: &[u8], value: Option<&[u8]>) -> String {
    match value {
        None => "N".into(),
        Some(v) => {
            let typed: Option<fn(&str) -> String> = match key {
                b"gff-version" => Some(version_res),
                b"sequence-region" => Some(region_res),
                b"genome-build" => Some(build_res),
                _ => None,
            };
            match typed {
                None => format!("S:{}", hex(v)),
                Some(f) => match std::str::from_utf8(v) {
                    Ok(s) => format!("{}:{}", match key { b"gff-version" => "V", b"sequence-region" => "R", _ => "G" }, f(s)),
                    Err(_) => "NotUtf8".into(),
                },
            }
        }
    }
}

fn typed_want(key: &[u8], v: &DVal) -> String {
    match v {
        DVal::N => "N".into(),
        DVal::S(s) => typed_back(key, Some(s)),
        DVal::V(a, b, c) => format!("V:Ok:{},{},{}", a, opt_u32(*b), opt_u32(*c)),
        DVal::R(n, s, e) => format!("R:Ok:{},{},{}", hex(n), s, e),
        DVal::G(s, n) => format!("G:Ok:{},{}", hex(s), hex(n)),
    }
}

fn blank(bs: &[u8]) -> bool {
    bs.is_empty() || bs.iter().any(u8::is_ascii_whitespace)
}

/// gffdv <hex key> <kind> <a> <b> <c>
pub fn run_gffdv(c: &Case) -> Obs {
    let (key, v) = dval_of_args(&c.args);
    let d = directive_of(&key, &v);
    let bytes = match c18_bedrec::write_directive_line(&d) {
        Outcome::Panicked(m) => return Obs::fail("W=Panic", "gff3-directive-panic", m),
        Outcome::Done(Err(e)) => return Obs { obs: format!("W=Err:{}", errkind(&e)), verdict: "skip".into(), nontrivial: false },
        Outcome::Done(Ok(b)) => b,
    };
    let b2 = bytes.clone();
    let back = guarded(AssertUnwindSafe(move || -> io::Result<String> {
        let mut r = gff::io::Reader::new(&b2[..]);
        let mut line = gff::Line::default();
        if r.read_line(&mut line)? == 0 {
            return Ok("?".into());
        }
        Ok(match line.as_directive() {
            Some(dv) => typed_back(dv.key(), dv.value().map(|v| v.as_bytes())),
            None => "?".into(),
        })
    }));
    let back = match back {
        Outcome::Panicked(m) => return Obs::fail("W=?", "gff3-directive-panic", m),
        Outcome::Done(Err(e)) => format!("Err:{}", errkind(&e)),
        Outcome::Done(Ok(s)) => s,
    };
    let obs = format!("W={}|T={}", hex(&bytes[..bytes.len() - 1]), back);
    let o = Obs::ok(obs.clone(), true);
    // the model's directive_ok: key without blanks, value text without LF and final CR
    let line = &bytes[..bytes.len() - 1];
    if key.iter().any(u8::is_ascii_whitespace) || line.contains(&b'\n') || line.ends_with(b"\r") {
        return Obs { obs, verdict: "skip".into(), nontrivial: false };
    }
    let want = typed_want(&key, &v);
    if back == want {
        return o;
    }
    let blank_class = match &v {
        DVal::R(n, _, _) => blank(n),
        DVal::G(s, n) => blank(s) || blank(n),
        _ => false,
    };
    if blank_class {
        o.with_verdict(Err(("gff3-directive-typed-value-blank-not-reparsed".into(), format!("wrote {} read {back} want {want}", hex(line)))))
    } else {
        o.with_verdict(Err(("gff3-directive-typed-roundtrip".into(), format!("wrote {} read {back} want {want}", hex(line)))))
    }
}

const NAME_SAFE: &[u8] = b"abcdefghijklmnopqrstuvwxyzABCDEFGHIJKLMNOPQRSTUVWXYZ0123456789._-%|:#>";

pub fn gen_dval(rng: &mut Rng, blanks: bool) -> (Vec<u8>, DVal) {
    let u32s = [0u32, 1, 3, 26, 4294967295];
    let name = |rng: &mut Rng| -> Vec<u8> {
        if blanks {
            match rng.below(4) {
                0 => Vec::new(),
                1 => b"chr 1".to_vec(),
                2 => b"a\tb".to_vec(),
                _ => gen_plain(rng, 1, 6, b"ab \x0c1"),
            }
        } else if rng.chance(1, 6) {
            "caf\u{e9}\u{4e2d}".as_bytes().to_vec()
        } else {
            gen_plain(rng, 1, 8, NAME_SAFE)
        }
    };
    match rng.below(4) {
        0 => {
            let a = *rng.pick(&u32s);
            let b = if rng.chance(2, 3) { Some(*rng.pick(&u32s)) } else { None };
            let c = if b.is_some() && rng.chance(1, 2) { Some(*rng.pick(&u32s)) } else { None };
            (b"gff-version".to_vec(), DVal::V(a, b, c))
        }
        1 | 2 => {
            let n = name(rng);
            let s = gen_pos(rng);
            let e = gen_pos(rng);
            (b"sequence-region".to_vec(), DVal::R(n, s, e))
        }
        _ => {
            let s = name(rng);
            let n = if blanks && rng.chance(1, 2) { gen_plain(rng, 1, 4, NAME_SAFE) } else { name(rng) };
            (b"genome-build".to_vec(), DVal::G(s, n))
        }
    }
}

// ---------------------------------------------------------------------------------------------
// whole files

#[derive(Clone, Debug)]
pub enum Item {
    R(Rec),
    D(Vec<u8>, DVal),
    C(Vec<u8>),
    B(Vec<u8>),
}

pub fn item_arg(it: &Item) -> String {
    match it {
        Item::R(r) => format!("R {}", rec_args(r).join(" ")),
        Item::D(k, v) => format!("D {}", dval_args(k, v).join(" ")),
        Item::C(s) => format!("C {}", hex(s)),
        Item::B(s) => format!("B {}", hex(s)),
    }
}

pub fn item_of_arg(a: &str) -> Item {
    let parts: Vec<String> = a.split(' ').map(|x| x.to_string()).collect();
    match parts[0].as_str() {
        "R" => Item::R(rec_of_case(&Case::new("x", "gff", parts[1..].to_vec()))),
        "D" => {
            let (k, v) = dval_of_args(&parts[1..]);
            Item::D(k, v)
        }
        "C" => Item::C(unhex(&parts[1])),
        "B" => Item::B(unhex(&parts[1])),
        k => panic!("file item {k}"),
    }
}

fn joined(v: &[String]) -> String {
    if v.is_empty() { "-".into() } else { v.join(";") }
}

fn record_pairs(lazy: &[String], owned: &[String]) -> Vec<(String, String)> {
    // the record lines, lazy and owned side by side ("R:" prefix dropped)
    lazy.iter()
        .zip(owned)
        .filter(|(l, _)| l.starts_with("R:"))
        .map(|(l, o)| (l[2..].to_string(), o.strip_prefix("R:").unwrap_or(o).to_string()))
        .collect()
}

/// gfffile item item ...
pub fn run_gfffile(c: &Case) -> Obs {
    let items: Vec<Item> = c.args.iter().map(|a| item_of_arg(a)).collect();
    let its = items.clone();
    let written = guarded(AssertUnwindSafe(move || -> io::Result<Vec<u8>> {
        let mut w = gff::io::Writer::new(Vec::new());
        for it in &its {
            match it {
                Item::R(r) => w.write_record(&build_gff(r))?,
                Item::D(k, v) => w.write_directive(&directive_of(k, v))?,
                Item::C(s) => w.write_line(&gff::LineBuf::Comment(BString::from(s.clone())))?,
                Item::B(s) => {
                    w.get_mut().extend_from_slice(s);
                    w.get_mut().push(b'\n');
                }
            }
        }
        Ok(w.into_inner())
    }));
    let bytes = match written {
        Outcome::Panicked(m) => return Obs::fail("W=Panic", "gff3-file-panic", m),
        Outcome::Done(Err(e)) => return Obs { obs: format!("W=Err:{}", errkind(&e)), verdict: "skip".into(), nontrivial: false },
        Outcome::Done(Ok(b)) => b,
    };
    let g = match c18_bedrec::read_gff_lines(&bytes) {
        Outcome::Panicked(m) => return Obs::fail("W=?", "gff3-file-panic", m),
        Outcome::Done(g) => g,
    };
    let obs = format!("W={}|L={}|O={}|B={}", hex(&bytes), joined(&g.lazy), joined(&g.owned), joined(&g.bufs));
    // oracle: every written record comes back, lazily (one reused Line) and owned, in order;
    // record_bufs() gives the records before a ##FASTA directive
    let mut want = Vec::new();
    let mut want_bufs = Vec::new();
    let mut fasta = false;
    for it in &items {
        match it {
            Item::R(r) => {
                let w = norm_canon(&canon_input(r));
                if !fasta {
                    want_bufs.push(w.clone());
                }
                want.push(w);
            }
            Item::D(k, _) if k == b"FASTA" => fasta = true,
            Item::B(s) if !s.iter().all(u8::is_ascii_whitespace) => {
                // a raw non-blank line (FASTA text after ##FASTA): not something the oracle judges
                return Obs { obs, verdict: "skip".into(), nontrivial: true };
            }
            _ => {}
        }
    }
    if g.lazy.len() != g.owned.len() {
        return Obs::fail(obs, "gff3-lazy-differs-from-owned", format!("{} lazy lines, {} owned", g.lazy.len(), g.owned.len()));
    }
    let reused = record_pairs(&g.lazy, &g.owned);
    files_verdict("gff3", obs, &want, &reused, &want_bufs, &g.bufs, &bytes)
}

fn files_verdict(fmtname: &str, obs: String, want: &[String], reused: &[(String, String)], want_bufs: &[String], bufs: &[String], bytes: &[u8]) -> Obs {
    let o = Obs::ok(obs, true);
    if reused.len() != want.len() {
        return o.with_verdict(Err((format!("{fmtname}-file-roundtrip"), format!("{} records read, {} written file={}", reused.len(), want.len(), hex(bytes)))));
    }
    for (i, ((lazy, owned), w)) in reused.iter().zip(want).enumerate() {
        if &norm_canon(lazy) != w {
            return o.with_verdict(Err((format!("{fmtname}-file-roundtrip"), format!("record {i}: lazy want={w} got={lazy} file={}", hex(bytes)))));
        }
        if &norm_canon(owned) != w {
            return o.with_verdict(Err((format!("{fmtname}-lazy-differs-from-owned"), format!("record {i}: owned want={w} got={owned} file={}", hex(bytes)))));
        }
    }
    let got: Vec<String> = bufs.iter().map(|x| norm_canon(x)).collect();
    if got != want_bufs {
        return o.with_verdict(Err((format!("{fmtname}-file-roundtrip"), format!("record_bufs: want {want_bufs:?} got {got:?} file={}", hex(bytes)))));
    }
    o
}

/// gtffile item item ...
pub fn run_gtffile(c: &Case) -> Obs {
    let items: Vec<Item> = c.args.iter().map(|a| item_of_arg(a)).collect();
    let its = items.clone();
    let written = guarded(AssertUnwindSafe(move || -> io::Result<Vec<u8>> {
        let mut w = gtf::io::Writer::new(Vec::new());
        for it in &its {
            match it {
                Item::R(r) => w.write_record(&build_gff(r))?,
                Item::C(s) => w.write_line(&gtf::LineBuf::Comment(BString::from(s.clone())))?,
                _ => panic!("gtf file item"),
            }
        }
        Ok(w.into_inner())
    }));
    let bytes = match written {
        Outcome::Panicked(m) => return Obs::fail("W=Panic", "gtf-file-panic", m),
        Outcome::Done(Err(e)) => return Obs { obs: format!("W=Err:{}", errkind(&e)), verdict: "skip".into(), nontrivial: false },
        Outcome::Done(Ok(b)) => b,
    };
    let g = c18_bedrec::read_gtf_lines(&bytes);
    let obs = format!("W={}|L={}|O={}|B={}", hex(&bytes), joined(&g.lazy), joined(&g.owned), joined(&g.bufs));
    let want: Vec<String> = items
        .iter()
        .filter_map(|it| match it {
            Item::R(r) => Some(norm_canon(&canon_input(r))),
            _ => None,
        })
        .collect();
    if g.lazy.len() != g.owned.len() {
        return Obs::fail(obs, "gtf-lazy-differs-from-owned", format!("{} lazy lines, {} owned", g.lazy.len(), g.owned.len()));
    }
    let reused = record_pairs(&g.lazy, &g.owned);
    files_verdict("gtf", obs, &want, &reused, &want, &g.bufs, &bytes)
}

// ---------------------------------------------------------------------------------------------
// GFF3 attribute column: lazy iteration, lazy get, owned map, owned get

fn val_str(v: &Val) -> String {
    match v {
        Val::S(s) => format!("S:{}", hex(s)),
        Val::A(vs) => format!("A:{}", vs.iter().map(|x| hex(x)).collect::<Vec<_>>().join(",")),
    }
}

fn value_ref(v: ValueRef<'_>) -> io::Result<Val> {
    match v {
        ValueRef::String(s) => Ok(Val::S(s.to_vec())),
        ValueRef::Array(a) => a.iter().map(|r| r.map(|s| s.to_vec())).collect::<io::Result<Vec<_>>>().map(Val::A),
    }
}

/// gffattr <hex column>
pub fn run_gffattr(c: &Case) -> Obs {
    let col = c.b(0);
    let mut line = b"chr1\t.\tgene\t1\t2\t.\t+\t.\t".to_vec();
    line.extend_from_slice(&col);
    line.push(b'\n');
    let res = guarded(AssertUnwindSafe(move || -> io::Result<String> {
        let mut reader = gff::io::Reader::new(&line[..]);
        let mut l = gff::Line::default();
        if reader.read_line(&mut l)? == 0 {
            return Ok("NoLine".into());
        }
        let Some(rec) = l.as_record() else { return Ok("NotRecord".into()) };
        let rec = rec?;
        let (canon, _) = canon_feature(&rec);
        let items = canon.rsplit('|').next().unwrap_or("").to_string();
        // tags seen by the lazy iteration (decoded), in order, without repeats, plus an absent one
        let mut tags: Vec<Vec<u8>> = Vec::new();
        for item in rec.attributes().iter() {
            match item {
                Ok((t, _)) => {
                    if !tags.contains(&t.to_vec()) {
                        tags.push(t.to_vec());
                    }
                }
                Err(_) => break,
            }
        }
        tags.push(b"\x01absent".to_vec());
        let owned = RecordBuf::try_from_feature_record(&rec);
        let mut gets = Vec::new();
        for t in &tags {
            let lazy_get = match rec.attributes().get(t) {
                None => "None".to_string(),
                Some(Err(e)) => format!("Err:{}", errkind(&e)),
                Some(Ok(v)) => match value_ref(v.into()) {
                    Ok(v) => val_str(&v),
                    Err(e) => format!("Err:{}", errkind(&e)),
                },
            };
            let owned_get = match &owned {
                Err(e) => format!("Err:{}", errkind(e)),
                Ok(b) => match b.attributes().get(t.as_slice()) {
                    None => "None".to_string(),
                    Some(Value::String(s)) => val_str(&Val::S(s.to_vec())),
                    Some(Value::Array(a)) => val_str(&Val::A(a.iter().map(|x| x.to_vec()).collect())),
                },
            };
            gets.push(format!("{}:{}:{}", hex(t), lazy_get, owned_get));
        }
        let map = match &owned {
            Err(e) => format!("Err:{}", errkind(e)),
            Ok(b) => {
                let list: Vec<(Vec<u8>, Val)> = b
                    .attributes()
                    .as_ref()
                    .iter()
                    .map(|(t, v)| {
                        (t.to_vec(), match v {
                            Value::String(s) => Val::S(s.to_vec()),
                            Value::Array(a) => Val::A(a.iter().map(|x| x.to_vec()).collect()),
                        })
                    })
                    .collect();
                fmt_attrs(&list)
            }
        };
        Ok(format!("I={}|G={}|M={}", items, gets.join(","), map))
    }));
    match res {
        Outcome::Panicked(m) => Obs::fail("Panic", "gff3-attributes-panic", m),
        Outcome::Done(Err(e)) => Obs::ok(format!("Err:{}", errkind(&e)), true),
        Outcome::Done(Ok(obs)) => {
            // lazy get and owned get of the same tag differ only when a tag is repeated in the
            // column (lazy get = first field, IndexMap = last value): text no writer produces;
            // observed and modelled (c18_gff_attrs_get_lazy_eq_owned / _dup_refuted), not judged
            Obs::ok(obs, true)
        }
    }
}

pub fn gen_gffattr(rng: &mut Rng) -> Vec<u8> {
    let n = rng.range(0, 5);
    let mut fields: Vec<Vec<u8>> = Vec::new();
    for _ in 0..n {
        let tag: Vec<u8> = match rng.below(8) {
            0 => b"ID".to_vec(),
            1 => b"Parent".to_vec(),
            2 => b"%49D".to_vec(),
            3 => b"a".to_vec(),
            4 => b"a".to_vec(),
            5 => Vec::new(),
            _ => gen_plain(rng, 0, 4, b"ab%3D41"),
        };
        let mut f = tag;
        if !rng.chance(1, 10) {
            f.push(b'=');
            let k = rng.range(0, 3);
            let vals: Vec<Vec<u8>> = (0..=k).map(|_| gen_plain(rng, 0, 4, b"xy1%2C,=")).collect();
            f.extend_from_slice(&vals.join(&b','));
        }
        fields.push(f);
    }
    let mut col = fields.join(&b';');
    if rng.chance(1, 6) {
        col.push(b';');
    }
    if n == 0 && rng.chance(1, 2) {
        col = b".".to_vec();
    }
    col
}
