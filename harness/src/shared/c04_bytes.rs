//! C04, byte level (kind `bamb`): virtual offsets tied to bytes.
//!
//!   bamb  hl file frames sessions
//!         hl       = length of the BAM header in the uncompressed stream
//!         file     = the whole BGZF file (hex): the uncompressed BAM stream (header + records
//!                    written by bam::io::Writer) cut at arbitrary points -- inside records, inside
//!                    the 4 size bytes -- into BGZF blocks by bgzf::io::Writer (flush at each cut;
//!                    some cuts finish the writer and start a new one, which leaves an EMPTY block
//!                    in the middle of the file), EOF marker at the end
//!         frames   = csize.hexdata,...  the frame table of that file (BSIZE+1 and the inflated
//!                    data of every block, empty ones included); `run` recomputes it from `file`
//!                    and refuses the case when it differs
//!         sessions = q;q;...   q = a:b/a:b/...  chunk lists (virtual positions), run ONE AFTER THE
//!                    OTHER on the same reader object, after the sequential scan that the indexer
//!                    performs; "_" = the empty list
//!         obs      = S<a>-<b>-<len>-<hash>,...|Q<len>-<hash>,...|...   the scan (positions told
//!                    before / after each record, its size and a hash of its bytes) and what every
//!                    query yields, or Err:<kind>
//!
//! Model: NV.Index.ByteQuery.byte_session over NV.Bgzf.ReaderOps (the frames), i.e. csi::io::Query's
//! state machine + the BAM record framing, run on the file's bytes.
//! Oracle: every query yields, chunk by chunk, exactly the records whose start position (as the
//! scan told it) lies in [start, end) -- for chunk lists with starts at record starts and ends at
//! record ends (what an index holds); the chunk lists come from the real BAI index of the file
//! (index.query for random regions) and from random boundary pairs.

use std::{
    io::{self, Cursor, Read, Write},
    num::NonZero,
    panic::AssertUnwindSafe,
};

use noodles_bam as bam;
use noodles_bgzf as bgzf;
use noodles_core::Position;
use noodles_csi::{
    self as csi, BinningIndex,
    binning_index::{Indexer, index::reference_sequence::{bin::Chunk, index::LinearIndex}},
};
use noodles_sam::{
    self as sam,
    alignment::{
        Record as _, RecordBuf,
        io::Write as _,
        record::{Flags, cigar::{Op, op::Kind}},
        record_buf::{Cigar, Sequence},
    },
    header::record::value::{
        Map,
        map::{self, ReferenceSequence, header::{sort_order::COORDINATE, tag::SORT_ORDER}},
    },
};
use nv::{Case, CaseWriter, Obs, Outcome, Rng, errkind, guarded, hex, unhex};

fn mix(h: u64, v: u64) -> u64 {
    h.wrapping_mul(1_000_003).wrapping_add(v + 1) & ((1u64 << 62) - 1)
}

fn hash_bytes(b: &[u8]) -> u64 {
    b.iter().fold(0u64, |h, x| mix(h, u64::from(*x)))
}

fn header(nref: usize) -> sam::Header {
    let mut b = sam::Header::builder().set_header(
        Map::<map::Header>::builder().insert(SORT_ORDER, COORDINATE).build().expect("hd"),
    );
    for k in 0..nref {
        b = b.add_reference_sequence(
            format!("r{k}"),
            Map::<ReferenceSequence>::new(NonZero::new((1usize << 29) - 1).unwrap()),
        );
    }
    b.build()
}

/// the uncompressed BAM stream: (bytes, header length, [start, end) of every record in it)
fn raw_stream(rng: &mut Rng) -> io::Result<(Vec<u8>, usize, Vec<(usize, usize)>)> {
    raw_stream_mode(rng, 0)
}

/// mode 0: as the older kinds draw it; 1: an unplaced tail is forced (some of its reads NOT flagged
/// unmapped); 2: no placed read at all
fn raw_stream_mode(rng: &mut Rng, mode: u8) -> io::Result<(Vec<u8>, usize, Vec<(usize, usize)>)> {
    let nref = rng.range(1, 3) as usize;
    let h = header(nref);
    let mut w = bam::io::Writer::from(Vec::new());
    w.write_header(&h)?;
    let hl = w.get_ref().len();
    let n = rng.below(25) as usize;
    let mut spans = Vec::new();
    let mut rid = 0usize;
    let mut pos = 1u64;
    let unplaced_from = if rng.chance(1, 3) { n.saturating_sub(rng.below(4) as usize) } else { n };
    let unplaced_from = match mode {
        0 => unplaced_from,
        1 => n.saturating_sub(rng.range(1, 6) as usize),
        _ => 0,
    };
    for i in 0..n {
        let mut b = RecordBuf::default();
        *b.name_mut() = Some(i.to_string().into());
        let len = if rng.chance(1, 5) { rng.range(200, 1500) } else { rng.below(40) } as usize;
        if i < unplaced_from {
            if rng.chance(1, 6) && rid + 1 < nref {
                rid += 1;
                pos = 1;
            }
            pos += match rng.below(4) {
                0 => 0,
                1 => rng.below(50),
                2 => rng.below(20000),
                _ => rng.below(3_000_000),
            };
            *b.flags_mut() = Flags::from(if rng.chance(1, 8) { 4u16 } else { 0 });
            *b.reference_sequence_id_mut() = Some(rid);
            *b.alignment_start_mut() = Some(Position::try_from(pos as usize).unwrap());
            let mut ops = vec![Op::new(Kind::Match, len.max(1))];
            if rng.chance(1, 4) {
                ops.push(Op::new(Kind::Skip, rng.range(1, 200000) as usize));
                ops.push(Op::new(Kind::Match, 1));
            }
            let read_len: usize = ops.iter().filter(|o| o.kind() == Kind::Match).map(|o| o.len()).sum();
            *b.cigar_mut() = ops.into_iter().collect::<Cigar>();
            *b.sequence_mut() = Sequence::from(rng.bytes(read_len).iter().map(|x| b"ACGT"[(x & 3) as usize]).collect::<Vec<u8>>());
        } else {
            *b.flags_mut() = Flags::from(if mode != 0 && rng.chance(1, 6) { 0u16 } else { 4u16 });
            *b.sequence_mut() = Sequence::from(rng.bytes(len).iter().map(|x| b"ACGT"[(x & 3) as usize]).collect::<Vec<u8>>());
        }
        let start = w.get_ref().len();
        w.write_alignment_record(&h, &b)?;
        spans.push((start, w.get_ref().len()));
    }
    Ok((w.get_ref().clone(), hl, spans))
}

/// cut the stream into BGZF blocks with the real writer
fn bgzf_file(rng: &mut Rng, raw: &[u8]) -> io::Result<Vec<u8>> {
    let mut cuts: Vec<usize> = (0..rng.range(0, 9)).map(|_| rng.below(raw.len() as u64 + 1) as usize).collect();
    cuts.sort();
    cuts.dedup();
    let mut out = Vec::new();
    let mut w = bgzf::io::Writer::new(Vec::new());
    let mut at = 0usize;
    for c in cuts {
        w.write_all(&raw[at..c])?;
        at = c;
        if rng.chance(1, 4) {
            // finish: data block (if any) + EOF marker = an empty block inside the file
            out.extend(w.finish()?);
            w = bgzf::io::Writer::new(Vec::new());
        } else {
            w.flush()?;
        }
    }
    w.write_all(&raw[at..])?;
    out.extend(w.finish()?);
    Ok(out)
}

/// frame table of a BGZF file: (BSIZE + 1, inflated data) per member
fn frame_table(file: &[u8]) -> io::Result<Vec<(usize, Vec<u8>)>> {
    let mut out = Vec::new();
    let mut at = 0usize;
    while at < file.len() {
        if file.len() - at < 18 {
            return Err(io::Error::from(io::ErrorKind::InvalidData));
        }
        let csize = usize::from(u16::from_le_bytes([file[at + 16], file[at + 17]])) + 1;
        if at + csize > file.len() {
            return Err(io::Error::from(io::ErrorKind::InvalidData));
        }
        let mut data = Vec::new();
        flate2::read::MultiGzDecoder::new(&file[at..at + csize]).read_to_end(&mut data)?;
        out.push((csize, data));
        at += csize;
    }
    Ok(out)
}

fn fmt_frames(fs: &[(usize, Vec<u8>)]) -> String {
    if fs.is_empty() {
        return "_".into();
    }
    fs.iter().map(|(c, d)| format!("{c}.{}", hex(d))).collect::<Vec<_>>().join(",")
}

type Scan = Vec<(u64, u64, String)>; // a, b, name

fn scan(file: &[u8]) -> io::Result<(sam::Header, Scan)> {
    let mut reader = bam::io::Reader::new(Cursor::new(file));
    let h = reader.read_header()?;
    let mut out = Vec::new();
    let mut record = bam::Record::default();
    let mut start = u64::from(reader.get_ref().virtual_position());
    while reader.read_record(&mut record)? != 0 {
        let end = u64::from(reader.get_ref().virtual_position());
        out.push((start, end, rec_name(&record)));
        start = end;
    }
    Ok((h, out))
}

fn rec_name(r: &bam::Record) -> String {
    r.name().map(|n| String::from_utf8_lossy(n.as_ref()).into_owned()).unwrap_or_default()
}

/// the bam/fs/index.rs loop over the in-memory file (BAI geometry)
fn bai_index(file: &[u8]) -> io::Result<(usize, csi::binning_index::Index<LinearIndex>)> {
    let mut reader = bam::io::Reader::new(Cursor::new(file));
    let header = reader.read_header()?;
    let mut ix = Indexer::<LinearIndex>::default();
    let mut record = bam::Record::default();
    let mut start = reader.get_ref().virtual_position();
    while reader.read_record(&mut record)? != 0 {
        let end = reader.get_ref().virtual_position();
        let ctx = match (
            record.reference_sequence_id().transpose()?,
            record.alignment_start().transpose()?,
            record.alignment_end().transpose()?,
        ) {
            (Some(id), Some(s), Some(e)) => Some((id, s, e, !record.flags().is_unmapped())),
            _ => None,
        };
        ix.add_record(ctx, Chunk::new(start, end))?;
        start = end;
    }
    let n = header.reference_sequences().len();
    Ok((n, ix.build(n)))
}

fn fmt_sessions(qs: &[Vec<(u64, u64)>]) -> String {
    qs.iter()
        .map(|q| if q.is_empty() { "_".into() } else { q.iter().map(|(a, b)| format!("{a}:{b}")).collect::<Vec<_>>().join("/") })
        .collect::<Vec<_>>()
        .join(";")
}

fn parse_sessions(s: &str) -> Vec<Vec<(u64, u64)>> {
    s.split(';')
        .map(|q| {
            if q == "_" {
                vec![]
            } else {
                q.split('/')
                    .map(|p| {
                        let (a, b) = p.split_once(':').unwrap();
                        (a.parse().unwrap(), b.parse().unwrap())
                    })
                    .collect()
            }
        })
        .collect()
}

fn gen_one(rng: &mut Rng, w: &mut CaseWriter) {
    let mut r2 = rng.fork();
    let built = guarded(AssertUnwindSafe(move || -> io::Result<_> {
        let (raw, hl, spans) = raw_stream(&mut r2)?;
        let file = bgzf_file(&mut r2, &raw)?;
        let frames = frame_table(&file)?;
        let (_, sc) = scan(&file)?;
        let ix = bai_index(&file)?;
        Ok((hl, spans, file, frames, sc, ix))
    }));
    let (hl, spans, file, frames, sc, (nref, ix)) = match built {
        Outcome::Done(Ok(x)) => x,
        _ => return,
    };
    if sc.len() != spans.len() {
        return;
    }
    let mut sessions: Vec<Vec<(u64, u64)>> = Vec::new();
    for _ in 0..rng.range(1, 5) {
        let mut q: Vec<(u64, u64)> = Vec::new();
        if sc.is_empty() || rng.chance(1, 10) {
            // the empty chunk list
        } else if rng.chance(1, 2) {
            // what the real index answers for a random region
            let k = rng.below(nref as u64) as usize;
            let s = rng.range(1, 3_000_000);
            let e = s + match rng.below(3) { 0 => 0, 1 => rng.below(20000), _ => rng.below(6_000_000) };
            let e = e.min((1 << 29) - 1);
            let iv = (Position::try_from(s as usize).unwrap()..=Position::try_from(e as usize).unwrap()).into();
            if let Outcome::Done(Ok(cs)) = guarded(AssertUnwindSafe(|| ix.query(k, iv))) {
                q = cs.iter().map(|c| (u64::from(c.start()), u64::from(c.end()))).collect();
            }
        } else {
            // boundary pairs: start of record i, end of record j >= i; any order, overlaps, repeats
            for _ in 0..rng.range(1, 4) {
                let i = rng.below(sc.len() as u64) as usize;
                let j = rng.range(i as u64, sc.len() as u64 - 1) as usize;
                q.push((sc[i].0, sc[j].1));
            }
        }
        sessions.push(q);
    }
    w.push("bamb", vec![hl.to_string(), hex(&file), fmt_frames(&frames), fmt_sessions(&sessions)]);
}

pub fn generate(rng: &mut Rng, tier: &str, w: &mut CaseWriter) {
    let n = if tier == "thorough" { 1500 } else { 90 };
    for _ in 0..n {
        gen_one(rng, w);
    }
    // appended last: the draws of the older kinds stay what they were
    let n = if tier == "thorough" { 1500 } else { 90 };
    for _ in 0..n {
        gen_bamx(rng, w);
    }
    let n = if tier == "thorough" { 1200 } else { 80 };
    for _ in 0..n {
        gen_bamu(rng, w);
    }
    let n = if tier == "thorough" { 1000 } else { 70 };
    for _ in 0..n {
        gen_bcfb(rng, w);
    }
}

// ---------------------------------------------------------------------------------------------
// kind `bamx`: index + region query from the BYTES (NV.Index.ByteIndex.byte_bam_session)
//
//   bamx  hl file frames lin|bin ms d nref mut queries
//         hl, file, frames as for bamb; the index is built by the loop of bam/fs/index.rs
//         (index_inner) over Indexer<LinearIndex>::default() (`lin`, BAI) or
//         Indexer<BinnedIndex>::new(ms, d) (`bin`) on ONE bam::io::Reader, which then serves
//         Reader::query for every region of `queries` = k:s:e;...  ("-" = missing bound; the
//         region name is r<k>);  mut = 0 for a file as the writer produced it, 1 when record
//         bytes were patched afterwards (reference id going down / negative, POS missing or
//         negative, an invalid CIGAR operation code): then the property's premise does not hold
//         and only the correspondence with the model is checked
//         obs = IxErr | Err:<kind> | S<a>-<b>-<len>-<hash>,...|Q<len>-<hash>,...|QErr:<kind>|...
//   oracle (mut = 0): every answer == the records of a scan of the stream whose reference id is k
//   and whose span POS..POS+sum(M,D,N,=,X)-1 (POS when 0), computed here from the record bytes,
//   meets the region -- same order, nothing twice.

/// (rid, pos1, end1) from the record bytes; None when unplaced
fn body_span(b: &[u8]) -> Option<(i64, i64, i64)> {
    if b.len() < 32 {
        return None;
    }
    let rid = i64::from(i32::from_le_bytes([b[0], b[1], b[2], b[3]]));
    let pos = i64::from(i32::from_le_bytes([b[4], b[5], b[6], b[7]]));
    let l_name = b[8] as usize;
    let n_ops = u16::from_le_bytes([b[12], b[13]]) as usize;
    let mut span = 0i64;
    for i in 0..n_ops {
        let at = 32 + l_name + 4 * i;
        let v = u32::from_le_bytes([b[at], b[at + 1], b[at + 2], b[at + 3]]);
        if matches!(v & 15, 0 | 2 | 3 | 7 | 8) {
            span += i64::from(v >> 4);
        }
    }
    if rid < 0 || pos < 0 {
        return None;
    }
    Some((rid, pos + 1, if span == 0 { pos + 1 } else { pos + span }))
}

fn patch_stream(rng: &mut Rng, raw: &mut [u8], spans: &[(usize, usize)]) -> bool {
    if spans.is_empty() {
        return false;
    }
    let i = rng.below(spans.len() as u64) as usize;
    let at = spans[i].0 + 4; // body
    let put = |raw: &mut [u8], off: usize, v: i32| raw[at + off..at + off + 4].copy_from_slice(&v.to_le_bytes());
    match rng.below(6) {
        0 => put(raw, 0, -5),                      // reference id: invalid
        1 => put(raw, 0, 7),                       // reference id beyond the header / going down later
        2 => put(raw, 4, -1),                      // no POS
        3 => put(raw, 4, -9),                      // POS invalid
        4 => {
            let l_name = raw[at + 8] as usize;
            let n_ops = u16::from_le_bytes([raw[at + 12], raw[at + 13]]);
            if n_ops == 0 {
                return false;
            }
            raw[at + 32 + l_name] |= 0x0f; // operation code 15
        }
        _ => {
            if i == 0 {
                return false;
            }
            put(raw, 0, 0); // back to reference 0 (goes down when an earlier record is on reference 1)
        }
    }
    true
}

fn gen_bamx(rng: &mut Rng, w: &mut CaseWriter) {
    let mut r2 = rng.fork();
    let mutate = rng.chance(1, 6);
    let built = guarded(AssertUnwindSafe(move || -> io::Result<_> {
        let (mut raw, hl, spans) = raw_stream(&mut r2)?;
        let m = if mutate { patch_stream(&mut r2, &mut raw, &spans) } else { false };
        let file = bgzf_file(&mut r2, &raw)?;
        let frames = frame_table(&file)?;
        Ok((raw, hl, spans, file, frames, m))
    }));
    let (raw, hl, spans, file, frames, m) = match built {
        Outcome::Done(Ok(x)) => x,
        _ => return,
    };
    // number of references from the header text is not needed by the model: count @SQ lines
    let text_len = u32::from_le_bytes([raw[4], raw[5], raw[6], raw[7]]) as usize;
    let nref = u32::from_le_bytes([raw[8 + text_len], raw[9 + text_len], raw[10 + text_len], raw[11 + text_len]]) as u64;
    let (kd, ms, d) = if rng.chance(1, 2) {
        ("lin", 14u64, 5u64)
    } else {
        let geos = [(14u64, 5u64), (14, 6), (12, 5), (16, 4), (14, 3), (10, 6), (15, 5)];
        let g = geos[rng.below(geos.len() as u64) as usize];
        ("bin", g.0, g.1)
    };
    let maxp = ((1u64 << (ms + 3 * d)) - 1).min((1 << 29) - 1);
    let recs: Vec<(i64, i64, i64)> = spans.iter().filter_map(|(a, b)| body_span(&raw[a + 4..*b])).collect();
    let mut qs: Vec<String> = Vec::new();
    for _ in 0..rng.range(2, 6) {
        let k = if rng.chance(1, 20) { nref } else { rng.below(nref.max(1)) };
        let o = |x: Option<u64>| x.map(|v| v.to_string()).unwrap_or("-".into());
        let (s, e) = match rng.below(8) {
            0 => (None, None),
            1 => (Some(rng.range(1, maxp)), None),
            2 => (None, Some(rng.range(1, maxp))),
            3 if !recs.is_empty() => {
                // around a record's ends
                let r = recs[rng.below(recs.len() as u64) as usize];
                let p = (if rng.chance(1, 2) { r.1 } else { r.2 } + rng.range(0, 2) as i64 - 1).clamp(1, maxp as i64) as u64;
                (Some(p), Some((p + if rng.chance(1, 2) { 0 } else { rng.below(30000) }).min(maxp)))
            }
            4 => {
                // beyond the index range: refused
                let p = rng.range(1, maxp);
                (Some(p), Some(maxp + 1 + rng.below(1000)))
            }
            _ => {
                let p = rng.range(1, 3_200_000.min(maxp));
                (Some(p), Some((p + match rng.below(3) { 0 => 0, 1 => rng.below(20000), _ => rng.below(6_000_000) }).min(maxp)))
            }
        };
        qs.push(format!("{k}:{}:{}", o(s), o(e)));
    }
    w.push(
        "bamx",
        vec![
            hl.to_string(),
            hex(&file),
            fmt_frames(&frames),
            kd.to_string(),
            ms.to_string(),
            d.to_string(),
            nref.to_string(),
            if m { "1".into() } else { "0".into() },
            qs.join(";"),
        ],
    );
}

enum IxOut<I> {
    Built(Scan, I),
    Refused,
}

/// index_inner of bam/fs/index.rs on an open reader (header already read): the scan as the loop
/// sees it, and the index; Err = read_record failed, Refused = alignment_context / add_record failed
fn index_loop<R, X>(
    reader: &mut bam::io::Reader<R>,
    mut ix: Indexer<X>,
    nref: usize,
) -> io::Result<IxOut<csi::binning_index::Index<X>>>
where
    R: bgzf::io::Read,
    X: csi::binning_index::index::reference_sequence::Index + Default,
{
    let mut sc = Vec::new();
    let mut record = bam::Record::default();
    let mut start = reader.get_ref().virtual_position();
    while reader.read_record(&mut record)? != 0 {
        let end = reader.get_ref().virtual_position();
        let ctx = (|| -> io::Result<_> {
            Ok(match (
                record.reference_sequence_id().transpose()?,
                record.alignment_start().transpose()?,
                record.alignment_end().transpose()?,
            ) {
                (Some(id), Some(s), Some(e)) => Some((id, s, e, !record.flags().is_unmapped())),
                _ => None,
            })
        })();
        let ctx = match ctx {
            Ok(c) => c,
            Err(_) => return Ok(IxOut::Refused),
        };
        if ix.add_record(ctx, Chunk::new(start, end)).is_err() {
            return Ok(IxOut::Refused);
        }
        sc.push((u64::from(start), u64::from(end), rec_name(&record)));
        start = end;
    }
    Ok(IxOut::Built(sc, ix.build(nref)))
}

type Answers = Vec<io::Result<Vec<String>>>;

fn region_queries<R, I>(reader: &mut bam::io::Reader<R>, header: &sam::Header, index: &I, qs: &[(u64, Option<u64>, Option<u64>)]) -> Answers
where
    R: bgzf::io::BufRead + bgzf::io::Seek,
    I: BinningIndex,
{
    qs.iter()
        .map(|(k, s, e)| {
            let p = |n: u64| Position::try_from(n as usize).unwrap();
            let iv: noodles_core::region::Interval = match (s, e) {
                (None, None) => (..).into(),
                (Some(a), None) => (p(*a)..).into(),
                (None, Some(b)) => (..=p(*b)).into(),
                (Some(a), Some(b)) => (p(*a)..=p(*b)).into(),
            };
            let region = noodles_core::Region::new(format!("r{k}"), iv);
            let query = reader.query(header, index, &region)?;
            query.records().map(|r| r.map(|r| rec_name(&r))).collect()
        })
        .collect()
}

fn run_bamx(c: &Case) -> Obs {
    let hl = c.u(0) as usize;
    let file = unhex(&c.args[1]);
    let lin = c.args[3] == "lin";
    let (ms, d) = (c.u(4) as u8, c.u(5) as u8);
    let mutated = c.args[7] == "1";
    let qs: Vec<(u64, Option<u64>, Option<u64>)> = c.args[8]
        .split(';')
        .map(|q| {
            let f: Vec<&str> = q.split(':').collect();
            let o = |x: &str| if x == "-" { None } else { Some(x.parse::<u64>().unwrap()) };
            (f[0].parse().unwrap(), o(f[1]), o(f[2]))
        })
        .collect();
    let (frames, raw) = match guarded(AssertUnwindSafe(|| frame_table(&file))) {
        Outcome::Done(Ok(fs)) => {
            let raw: Vec<u8> = fs.iter().flat_map(|(_, d)| d.iter().copied()).collect();
            (fs, raw)
        }
        _ => return Obs::fail("-", "harness-bamx-frame-table", ""),
    };
    if fmt_frames(&frames) != c.args[2] {
        return Obs::fail("-", "harness-bamx-frames-differ-from-case", "");
    }
    let mut bodies: Vec<&[u8]> = Vec::new();
    let mut at = hl;
    while at + 4 <= raw.len() {
        let n = u32::from_le_bytes([raw[at], raw[at + 1], raw[at + 2], raw[at + 3]]) as usize;
        if n == 0 || at + 4 + n > raw.len() {
            break;
        }
        bodies.push(&raw[at + 4..at + 4 + n]);
        at += 4 + n;
    }
    let desc = |name: &str| -> String {
        match name.parse::<usize>().ok().and_then(|i| bodies.get(i).copied()) {
            Some(b) => format!("{}-{}", b.len(), hash_bytes(b)),
            None => "?".into(),
        }
    };
    let r = guarded(AssertUnwindSafe(|| -> io::Result<Option<(Scan, Answers, io::Result<Answers>)>> {
        // ONE reader object: header, the indexing loop, the queries
        let mut reader = bam::io::Reader::new(Cursor::new(&file[..]));
        let header = reader.read_header()?;
        let nref = header.reference_sequences().len();
        if lin {
            match index_loop(&mut reader, Indexer::<LinearIndex>::default(), nref)? {
                IxOut::Refused => Ok(None),
                IxOut::Built(sc, index) => {
                    let a = region_queries(&mut reader, &header, &index, &qs);
                    // the same queries, same reader, with the index written to BAI bytes and read back
                    let a2 = (|| -> io::Result<Answers> {
                        let mut w = bam::bai::io::Writer::new(Vec::new());
                        w.write_index(&index)?;
                        let buf = w.into_inner();
                        let index2 = bam::bai::io::Reader::new(&buf[..]).read_index()?;
                        Ok(region_queries(&mut reader, &header, &index2, &qs))
                    })();
                    Ok(Some((sc, a, a2)))
                }
            }
        } else {
            match index_loop(&mut reader, Indexer::<csi::binning_index::index::reference_sequence::index::BinnedIndex>::new(ms, d), nref)? {
                IxOut::Refused => Ok(None),
                IxOut::Built(sc, index) => {
                    let a = region_queries(&mut reader, &header, &index, &qs);
                    let a2 = (|| -> io::Result<Answers> {
                        let mut w = csi::io::Writer::new(Vec::new());
                        w.write_index(&index)?;
                        let buf = w.into_inner().finish()?;
                        let index2 = csi::io::Reader::new(&buf[..]).read_index()?;
                        Ok(region_queries(&mut reader, &header, &index2, &qs))
                    })();
                    Ok(Some((sc, a, a2)))
                }
            }
        }
    }));
    let label = if lin { "bai" } else { "csi" };
    let maxq = (1u64 << (u64::from(ms) + 3 * u64::from(d))) - 1;
    match r {
        Outcome::Done(Ok(None)) => {
            if mutated {
                Obs { obs: "IxErr".into(), verdict: "skip".into(), nontrivial: false }
            } else {
                Obs::fail("IxErr", &format!("bamx-{label}-index-build-fails"), "")
            }
        }
        Outcome::Done(Ok(Some((sc, answers, via_file)))) => {
            // "used in memory or after being written to and read from an index file"
            let canon = |a: &Answers| -> Vec<String> {
                a.iter().map(|r| match r { Ok(n) => n.join(","), Err(e) => format!("Err:{}", errkind(e)) }).collect()
            };
            let via: Result<(), (String, String)> = match &via_file {
                Ok(a2) if canon(a2) == canon(&answers) => Ok(()),
                Ok(a2) => Err((format!("bamx-{label}-index-file-roundtrip-changes-answer"), format!("{:?} vs {:?}", canon(&answers), canon(a2)))),
                Err(e) => Err((format!("bamx-{label}-index-file-write-or-read-fails"), format!("{e}"))),
            };
            let mut obs = String::from("S");
            obs.push_str(&sc.iter().map(|(a, b, n)| format!("{a}-{b}-{}", desc(n))).collect::<Vec<_>>().join(","));
            let mut verdict: Result<(), (String, String)> = Ok(());
            let mut nontrivial = false;
            let spans: Vec<Option<(i64, i64, i64)>> = bodies.iter().map(|b| body_span(b)).collect();
            // a read that ends beyond the index geometry (small non-default min_shift/depth): the
            // property's premise (records within the index range) does not hold -> correspondence only
            let mutated = mutated || spans.iter().any(|sp| sp.map(|x| x.2 > maxq as i64).unwrap_or(false));
            for ((k, s, e), ans) in qs.iter().zip(&answers) {
                obs.push_str("|Q");
                match ans {
                    Ok(names) => {
                        obs.push_str(&names.iter().map(|n| desc(n)).collect::<Vec<_>>().join(","));
                        let lo = s.unwrap_or(1) as i64;
                        let hi = e.map(|x| x as i64).unwrap_or(i64::MAX);
                        let want: Vec<String> = spans
                            .iter()
                            .enumerate()
                            .filter(|(_, sp)| sp.map(|(rid, rs, re)| rid == *k as i64 && rs <= hi && lo <= re).unwrap_or(false))
                            .map(|(i, _)| i.to_string())
                            .collect();
                        let on_ref = spans.iter().filter(|sp| sp.map(|x| x.0 == *k as i64).unwrap_or(false)).count();
                        if !want.is_empty() && want.len() < on_ref {
                            nontrivial = true;
                        }
                        if *names != want && verdict.is_ok() && !mutated {
                            let cls = if want.iter().any(|i| !names.contains(i)) {
                                "missing-record"
                            } else if names.iter().any(|i| !want.contains(i)) {
                                "extra-record"
                            } else {
                                "order-or-duplicate"
                            };
                            verdict = Err((format!("bamx-{label}-{cls}"), format!("region r{k}:{s:?}-{e:?} scan={want:?} query={names:?}")));
                        }
                    }
                    Err(err) => {
                        obs.push_str(&format!("Err:{}", errkind(err)));
                        let out_of_range = e.map(|x| x > maxq).unwrap_or(false) || s.map(|x| x > maxq).unwrap_or(false);
                        let no_such_ref = (*k as usize) >= c.u(6) as usize;
                        if !out_of_range && !no_such_ref && !mutated && verdict.is_ok() {
                            verdict = Err((format!("bamx-{label}-query-error"), format!("region r{k}:{s:?}-{e:?}: {err}")));
                        }
                    }
                }
            }
            if verdict.is_ok() && !mutated {
                verdict = via;
            }
            if mutated && verdict.is_ok() {
                return Obs { obs, verdict: "skip".into(), nontrivial: false };
            }
            Obs::ok(obs, nontrivial).with_verdict(verdict)
        }
        Outcome::Done(Err(e)) => Obs::fail(format!("Err:{}", errkind(&e)), "bamx-scan-error", format!("{e}")),
        Outcome::Panicked(m) => Obs::fail("Panic", "bamx-panic", m),
    }
}

// ---------------------------------------------------------------------------------------------
// kind `bamu`: query_unmapped over the BYTES, mixed with region queries on ONE reader
// (NV.Index.ByteUnmapped.byte_bam_ops_session)
//
//   bamu  hl file frames lin|bin ms d nref mut ops
//         as bamx; ops = U | k:s:e ; ...   U = Reader::query_unmapped(&index) drained,
//         k:s:e = Reader::query(header, index, region r<k>:s-e) drained; all on the reader that ran
//         the indexing loop, one after the other
//         obs = IxErr | Err:<kind> | S<scan>|U<len>-<hash>,...|Q<len>-<hash>,...|...
//   oracle (mut = 0), unmapped answer: only records flagged unmapped (flag bit 4 of the record
//   bytes); strictly increasing file order (nothing twice); when the records without reference
//   id / POS come last in the file: the unplaced records in the answer == the unplaced records of
//   the file that are flagged unmapped; the same answers with the index written to BAI / CSI bytes
//   and read back.  Region answers as for bamx.

fn gen_bamu(rng: &mut Rng, w: &mut CaseWriter) {
    let mut r2 = rng.fork();
    let mutate = rng.chance(1, 8);
    let mode = match rng.below(8) {
        0 => 0u8,
        1 => 2,
        _ => 1,
    };
    let built = guarded(AssertUnwindSafe(move || -> io::Result<_> {
        let (mut raw, hl, spans) = raw_stream_mode(&mut r2, mode)?;
        let m = if mutate { patch_stream(&mut r2, &mut raw, &spans) } else { false };
        let file = bgzf_file(&mut r2, &raw)?;
        let frames = frame_table(&file)?;
        Ok((raw, hl, file, frames, m))
    }));
    let (raw, hl, file, frames, m) = match built {
        Outcome::Done(Ok(x)) => x,
        _ => return,
    };
    let text_len = u32::from_le_bytes([raw[4], raw[5], raw[6], raw[7]]) as usize;
    let nref = u32::from_le_bytes([raw[8 + text_len], raw[9 + text_len], raw[10 + text_len], raw[11 + text_len]]) as u64;
    let (kd, ms, d) = if rng.chance(1, 2) {
        ("lin", 14u64, 5u64)
    } else {
        let geos = [(14u64, 5u64), (14, 6), (12, 5), (16, 4), (14, 3), (10, 6), (15, 5)];
        let g = geos[rng.below(geos.len() as u64) as usize];
        ("bin", g.0, g.1)
    };
    let maxp = ((1u64 << (ms + 3 * d)) - 1).min((1 << 29) - 1);
    let mut ops: Vec<String> = Vec::new();
    let nops = rng.range(1, 5);
    let mut has_u = false;
    for i in 0..nops {
        if rng.chance(1, 2) || (i + 1 == nops && !has_u) {
            has_u = true;
            ops.push("U".into());
        } else {
            let k = rng.below(nref.max(1));
            let o = |x: Option<u64>| x.map(|v| v.to_string()).unwrap_or("-".into());
            let (s, e) = match rng.below(4) {
                0 => (None, None),
                1 => (Some(rng.range(1, maxp)), None),
                _ => {
                    let p = rng.range(1, 3_200_000.min(maxp));
                    (Some(p), Some((p + match rng.below(3) { 0 => 0, 1 => rng.below(20000), _ => rng.below(6_000_000) }).min(maxp)))
                }
            };
            ops.push(format!("{k}:{}:{}", o(s), o(e)));
        }
    }
    w.push(
        "bamu",
        vec![
            hl.to_string(),
            hex(&file),
            fmt_frames(&frames),
            kd.to_string(),
            ms.to_string(),
            d.to_string(),
            nref.to_string(),
            if m { "1".into() } else { "0".into() },
            ops.join(";"),
        ],
    );
}

type SOp = Option<(u64, Option<u64>, Option<u64>)>; // None = query_unmapped

fn run_ops<R, I>(reader: &mut bam::io::Reader<R>, header: &sam::Header, index: &I, ops: &[SOp]) -> Answers
where
    R: bgzf::io::BufRead + bgzf::io::Seek,
    I: BinningIndex,
{
    ops.iter()
        .map(|op| match op {
            None => {
                let it = reader.query_unmapped(index)?;
                it.map(|r| r.map(|r| rec_name(&r))).collect()
            }
            Some(q) => region_queries(reader, header, index, std::slice::from_ref(q)).pop().unwrap(),
        })
        .collect()
}

fn run_bamu(c: &Case) -> Obs {
    let hl = c.u(0) as usize;
    let file = unhex(&c.args[1]);
    let lin = c.args[3] == "lin";
    let (ms, d) = (c.u(4) as u8, c.u(5) as u8);
    let mutated = c.args[7] == "1";
    let ops: Vec<SOp> = c.args[8]
        .split(';')
        .map(|q| {
            if q == "U" {
                return None;
            }
            let f: Vec<&str> = q.split(':').collect();
            let o = |x: &str| if x == "-" { None } else { Some(x.parse::<u64>().unwrap()) };
            Some((f[0].parse().unwrap(), o(f[1]), o(f[2])))
        })
        .collect();
    let (frames, raw) = match guarded(AssertUnwindSafe(|| frame_table(&file))) {
        Outcome::Done(Ok(fs)) => {
            let raw: Vec<u8> = fs.iter().flat_map(|(_, d)| d.iter().copied()).collect();
            (fs, raw)
        }
        _ => return Obs::fail("-", "harness-bamu-frame-table", ""),
    };
    if fmt_frames(&frames) != c.args[2] {
        return Obs::fail("-", "harness-bamu-frames-differ-from-case", "");
    }
    let mut bodies: Vec<&[u8]> = Vec::new();
    let mut at = hl;
    while at + 4 <= raw.len() {
        let n = u32::from_le_bytes([raw[at], raw[at + 1], raw[at + 2], raw[at + 3]]) as usize;
        if n == 0 || at + 4 + n > raw.len() {
            break;
        }
        bodies.push(&raw[at + 4..at + 4 + n]);
        at += 4 + n;
    }
    let desc = |name: &str| -> String {
        match name.parse::<usize>().ok().and_then(|i| bodies.get(i).copied()) {
            Some(b) => format!("{}-{}", b.len(), hash_bytes(b)),
            None => "?".into(),
        }
    };
    let r = guarded(AssertUnwindSafe(|| -> io::Result<Option<(Scan, Answers, io::Result<Answers>)>> {
        let mut reader = bam::io::Reader::new(Cursor::new(&file[..]));
        let header = reader.read_header()?;
        let nref = header.reference_sequences().len();
        if lin {
            match index_loop(&mut reader, Indexer::<LinearIndex>::default(), nref)? {
                IxOut::Refused => Ok(None),
                IxOut::Built(sc, index) => {
                    let a = run_ops(&mut reader, &header, &index, &ops);
                    let a2 = (|| -> io::Result<Answers> {
                        let mut w = bam::bai::io::Writer::new(Vec::new());
                        w.write_index(&index)?;
                        let buf = w.into_inner();
                        let index2 = bam::bai::io::Reader::new(&buf[..]).read_index()?;
                        Ok(run_ops(&mut reader, &header, &index2, &ops))
                    })();
                    Ok(Some((sc, a, a2)))
                }
            }
        } else {
            match index_loop(&mut reader, Indexer::<csi::binning_index::index::reference_sequence::index::BinnedIndex>::new(ms, d), nref)? {
                IxOut::Refused => Ok(None),
                IxOut::Built(sc, index) => {
                    let a = run_ops(&mut reader, &header, &index, &ops);
                    let a2 = (|| -> io::Result<Answers> {
                        let mut w = csi::io::Writer::new(Vec::new());
                        w.write_index(&index)?;
                        let buf = w.into_inner().finish()?;
                        let index2 = csi::io::Reader::new(&buf[..]).read_index()?;
                        Ok(run_ops(&mut reader, &header, &index2, &ops))
                    })();
                    Ok(Some((sc, a, a2)))
                }
            }
        }
    }));
    let label = if lin { "bai" } else { "csi" };
    let maxq = (1u64 << (u64::from(ms) + 3 * u64::from(d))) - 1;
    match r {
        Outcome::Done(Ok(None)) => {
            if mutated {
                Obs { obs: "IxErr".into(), verdict: "skip".into(), nontrivial: false }
            } else {
                Obs::fail("IxErr", &format!("bamu-{label}-index-build-fails"), "")
            }
        }
        Outcome::Done(Ok(Some((sc, answers, via_file)))) => {
            let mut obs = String::from("S");
            obs.push_str(&sc.iter().map(|(a, b, n)| format!("{a}-{b}-{}", desc(n))).collect::<Vec<_>>().join(","));
            let mut verdict: Result<(), (String, String)> = Ok(());
            let mut nontrivial = false;
            let spans: Vec<Option<(i64, i64, i64)>> = bodies.iter().map(|b| body_span(b)).collect();
            let flagged: Vec<bool> = bodies.iter().map(|b| b.len() >= 16 && (b[14] & 4) != 0).collect();
            let mutated = mutated || spans.iter().any(|sp| sp.map(|x| x.2 > maxq as i64).unwrap_or(false));
            // the records without an alignment context come last
            let first_unplaced = spans.iter().position(|s| s.is_none()).unwrap_or(spans.len());
            let unplaced_last = spans[first_unplaced..].iter().all(|s| s.is_none());
            let want_unplaced: Vec<usize> = (0..bodies.len()).filter(|i| spans[*i].is_none() && flagged[*i]).collect();
            // the statement's demands on one unmapped answer: (class, detail) of the first one it misses
            let check_u = |names: &Vec<String>| -> Option<(&'static str, String)> {
                let idx: Vec<usize> = names.iter().filter_map(|n| n.parse::<usize>().ok()).collect();
                let got_unplaced: Vec<usize> = idx.iter().copied().filter(|i| spans.get(*i).map(|s| s.is_none()).unwrap_or(false)).collect();
                if idx.len() != names.len() || idx.iter().any(|i| *i >= bodies.len()) {
                    Some(("returns-unknown-record", format!("{names:?}")))
                } else if idx.iter().any(|i| !flagged[*i]) {
                    Some(("returns-read-not-flagged-unmapped", format!("{names:?}")))
                } else if idx.windows(2).any(|w| w[0] >= w[1]) {
                    Some(("order-or-duplicate", format!("{names:?}")))
                } else if unplaced_last && got_unplaced != want_unplaced {
                    let cls = if want_unplaced.iter().any(|i| !got_unplaced.contains(i)) { "misses-unplaced-unmapped-read" } else { "extra-unplaced-read" };
                    Some((cls, format!("want {want_unplaced:?} got {got_unplaced:?}")))
                } else {
                    None
                }
            };
            // "used in memory or after being written to and read from an index file": region answers
            // must be the in-memory ones; an unmapped answer must meet the statement's demands again
            // (a CSI file stores other per-bin loffsets than the in-memory index holds, so the seek
            // position and with it the PLACED reads flagged unmapped in the answer may differ)
            let via: Result<(), (String, String)> = match &via_file {
                Ok(a2) => {
                    let mut r = Ok(());
                    for ((op, x), y) in ops.iter().zip(&answers).zip(a2) {
                        let cx = match x { Ok(n) => n.join(","), Err(e) => format!("Err:{}", errkind(e)) };
                        let cy = match y { Ok(n) => n.join(","), Err(e) => format!("Err:{}", errkind(e)) };
                        match (op, y) {
                            (None, Ok(names)) => {
                                if let Some((cls, det)) = check_u(names) {
                                    r = Err((format!("bamu-{label}-unmapped-{cls}-with-index-read-back-from-file"), det));
                                    break;
                                }
                            }
                            _ => {
                                if cx != cy {
                                    r = Err((format!("bamu-{label}-index-file-roundtrip-changes-answer"), format!("{cx:?} vs {cy:?}")));
                                    break;
                                }
                            }
                        }
                    }
                    r
                }
                Err(e) => Err((format!("bamu-{label}-index-file-write-or-read-fails"), format!("{e}"))),
            };
            for (oi, (op, ans)) in ops.iter().zip(&answers).enumerate() {
                let hist = if oi == 0 { "" } else { "-after-earlier-query-on-same-reader" };
                match op {
                    None => {
                        obs.push_str("|U");
                        match ans {
                            Ok(names) => {
                                obs.push_str(&names.iter().map(|n| desc(n)).collect::<Vec<_>>().join(","));
                                let idx: Vec<usize> = names.iter().filter_map(|n| n.parse::<usize>().ok()).collect();
                                if !want_unplaced.is_empty() && first_unplaced > 0 && idx.len() < bodies.len() {
                                    nontrivial = true;
                                }
                                if verdict.is_ok() && !mutated {
                                    if let Some((cls, det)) = check_u(names) {
                                        verdict = Err((format!("bamu-{label}-unmapped-{cls}{hist}"), det));
                                    }
                                }
                            }
                            Err(err) => {
                                obs.push_str(&format!("Err:{}", errkind(err)));
                                if !mutated && verdict.is_ok() {
                                    verdict = Err((format!("bamu-{label}-unmapped-query-error{hist}"), format!("{err}")));
                                }
                            }
                        }
                    }
                    Some((k, s, e)) => {
                        obs.push_str("|Q");
                        match ans {
                            Ok(names) => {
                                obs.push_str(&names.iter().map(|n| desc(n)).collect::<Vec<_>>().join(","));
                                let lo = s.unwrap_or(1) as i64;
                                let hi = e.map(|x| x as i64).unwrap_or(i64::MAX);
                                let want: Vec<String> = spans
                                    .iter()
                                    .enumerate()
                                    .filter(|(_, sp)| sp.map(|(rid, rs, re)| rid == *k as i64 && rs <= hi && lo <= re).unwrap_or(false))
                                    .map(|(i, _)| i.to_string())
                                    .collect();
                                if *names != want && verdict.is_ok() && !mutated {
                                    let cls = if want.iter().any(|i| !names.contains(i)) {
                                        "missing-record"
                                    } else if names.iter().any(|i| !want.contains(i)) {
                                        "extra-record"
                                    } else {
                                        "order-or-duplicate"
                                    };
                                    verdict = Err((format!("bamu-{label}-region-{cls}{hist}"), format!("region r{k}:{s:?}-{e:?} scan={want:?} query={names:?}")));
                                }
                            }
                            Err(err) => {
                                obs.push_str(&format!("Err:{}", errkind(err)));
                                if !mutated && verdict.is_ok() {
                                    verdict = Err((format!("bamu-{label}-region-query-error{hist}"), format!("region r{k}:{s:?}-{e:?}: {err}")));
                                }
                            }
                        }
                    }
                }
            }
            if verdict.is_ok() && !mutated {
                verdict = via;
            }
            if mutated && verdict.is_ok() {
                return Obs { obs, verdict: "skip".into(), nontrivial: false };
            }
            Obs::ok(obs, nontrivial).with_verdict(verdict)
        }
        Outcome::Done(Err(e)) => Obs::fail(format!("Err:{}", errkind(&e)), "bamu-scan-error", format!("{e}")),
        Outcome::Panicked(m) => Obs::fail("Panic", "bamu-panic", m),
    }
}

fn run_bamb(c: &Case) -> Obs {
    let hl = c.u(0) as usize;
    let file = unhex(&c.args[1]);
    let sessions = parse_sessions(&c.args[3]);
    // the frame table handed to the model must be the one of the bytes
    let (frames, raw) = match guarded(AssertUnwindSafe(|| frame_table(&file))) {
        Outcome::Done(Ok(fs)) => {
            let raw: Vec<u8> = fs.iter().flat_map(|(_, d)| d.iter().copied()).collect();
            (fs, raw)
        }
        _ => return Obs::fail("-", "harness-bamb-frame-table", ""),
    };
    if fmt_frames(&frames) != c.args[2] {
        return Obs::fail("-", "harness-bamb-frames-differ-from-case", "");
    }
    // record i of the uncompressed stream: its bytes (without the 4 size bytes)
    let mut bodies: Vec<&[u8]> = Vec::new();
    let mut at = hl;
    while at + 4 <= raw.len() {
        let n = u32::from_le_bytes([raw[at], raw[at + 1], raw[at + 2], raw[at + 3]]) as usize;
        if n == 0 || at + 4 + n > raw.len() {
            break;
        }
        bodies.push(&raw[at + 4..at + 4 + n]);
        at += 4 + n;
    }
    let body_of = |name: &str| -> Option<&[u8]> { name.parse::<usize>().ok().and_then(|i| bodies.get(i).copied()) };
    let desc = |name: &str| -> String {
        match body_of(name) {
            Some(b) => format!("{}-{}", b.len(), hash_bytes(b)),
            None => "?".into(),
        }
    };

    let r = guarded(AssertUnwindSafe(|| -> io::Result<(Scan, Vec<io::Result<Vec<String>>>)> {
        // ONE reader object for the scan and all the queries
        let mut reader = bam::io::Reader::new(Cursor::new(&file[..]));
        reader.read_header()?;
        let mut sc = Vec::new();
        let mut record = bam::Record::default();
        let mut start = u64::from(reader.get_ref().virtual_position());
        while reader.read_record(&mut record)? != 0 {
            let end = u64::from(reader.get_ref().virtual_position());
            sc.push((start, end, rec_name(&record)));
            start = end;
        }
        let mut answers = Vec::new();
        for q in &sessions {
            let cs: Vec<Chunk> = q
                .iter()
                .map(|(a, b)| Chunk::new(bgzf::VirtualPosition::from(*a), bgzf::VirtualPosition::from(*b)))
                .collect();
            let query = csi::io::Query::new(reader.get_mut(), cs);
            let mut qr = bam::io::Reader::from(query);
            let mut names = Vec::new();
            let mut res = Ok(());
            loop {
                match qr.read_record(&mut record) {
                    Ok(0) => break,
                    Ok(_) => names.push(rec_name(&record)),
                    Err(e) => {
                        res = Err(e);
                        break;
                    }
                }
            }
            answers.push(res.map(|()| names));
        }
        Ok((sc, answers))
    }));
    match r {
        Outcome::Done(Ok((sc, answers))) => {
            let mut obs = String::from("S");
            obs.push_str(&sc.iter().map(|(a, b, n)| format!("{a}-{b}-{}", desc(n))).collect::<Vec<_>>().join(","));
            let mut verdict: Result<(), (String, String)> = Ok(());
            let mut nontrivial = false;
            if sc.len() != bodies.len() {
                verdict = Err(("bamb-scan-record-count-differs-from-stream".into(), format!("{} vs {}", sc.len(), bodies.len())));
            }
            for (qi, (q, ans)) in sessions.iter().zip(&answers).enumerate() {
                obs.push_str("|Q");
                match ans {
                    Ok(names) => {
                        obs.push_str(&names.iter().map(|n| desc(n)).collect::<Vec<_>>().join(","));
                        let want: Vec<String> = q
                            .iter()
                            .flat_map(|(a, b)| sc.iter().filter(move |(ra, _, _)| *a <= *ra && *ra < *b).map(|(_, _, n)| n.clone()))
                            .collect();
                        if !names.is_empty() && names.len() != sc.len() {
                            nontrivial = true;
                        }
                        if *names != want && verdict.is_ok() {
                            let tag = if qi == 0 {
                                "bamb-chunk-read-differs-from-records-starting-in-chunks".to_string()
                            } else {
                                "bamb-chunk-read-after-previous-query-differs".to_string()
                            };
                            verdict = Err((tag, format!("query {qi}: want {want:?} got {names:?}")));
                        }
                    }
                    Err(e) => {
                        obs.push_str(&format!("Err:{}", errkind(e)));
                        if verdict.is_ok() {
                            verdict = Err(("bamb-chunk-read-error".into(), format!("query {qi}: {e}")));
                        }
                    }
                }
            }
            Obs::ok(obs, nontrivial).with_verdict(verdict)
        }
        Outcome::Done(Err(e)) => Obs::fail(format!("Err:{}", errkind(&e)), "bamb-scan-error", format!("{e}")),
        Outcome::Panicked(m) => Obs::fail("Panic", "bamb-panic", m),
    }
}

// ---------------------------------------------------------------------------------------------
// kind `bcfb`: the BCF record framing over the BYTES (NV.Index.BcfByteQuery.bcf_byte_session)
//
//   bcfb  hl file frames sessions      -- as for bamb; the uncompressed stream is a BCF file written
//         by bcf::io::Writer (hl = 5 magic bytes + 4 + l_text), cut at arbitrary points (inside
//         records, inside either length word) into BGZF blocks; the chunk lists are boundary pairs
//         of the scan (start of record i, end of record j >= i; any order, overlaps, repeats) and
//         the empty list
//         obs = S<a>-<b>-<len>-<hash>,...|Q<len>-<hash>,...|...  where a record is described by
//         everything behind its l_shared word (l_indiv word ++ site ++ samples), or Err:<kind>
//
// Model: bcf_byte_session = bcf/io/reader/record.rs read_record (two length words, site,
// Fields::index, samples) over the bgzf reader / over csi::io::Query::new(reader, chunks), which is
// what bcf::io::Reader::query wraps (bcf/io/reader/query.rs reads with read_record from it).
// Oracle: as for bamb (records whose start position lies in a chunk, chunk by chunk).

fn gen_bcfb(rng: &mut Rng, w: &mut CaseWriter) {
    let mut r2 = rng.fork();
    let built = guarded(AssertUnwindSafe(move || -> io::Result<_> {
        let raw = super::fmt::bcfb_raw_stream(&mut r2)?;
        if raw.len() < 9 {
            return Err(io::Error::from(io::ErrorKind::InvalidData));
        }
        let hl = 9 + u32::from_le_bytes([raw[5], raw[6], raw[7], raw[8]]) as usize;
        let file = bgzf_file(&mut r2, &raw)?;
        let frames = frame_table(&file)?;
        let mut reader = noodles_bcf::io::Reader::new(Cursor::new(&file[..]));
        reader.read_header()?;
        let mut sc: Vec<(u64, u64)> = Vec::new();
        let mut record = noodles_bcf::Record::default();
        let mut start = u64::from(reader.get_ref().virtual_position());
        while reader.read_record(&mut record)? != 0 {
            let end = u64::from(reader.get_ref().virtual_position());
            sc.push((start, end));
            start = end;
        }
        Ok((hl, file, frames, sc))
    }));
    let (hl, file, frames, sc) = match built {
        Outcome::Done(Ok(x)) => x,
        _ => return,
    };
    let mut sessions: Vec<Vec<(u64, u64)>> = Vec::new();
    for _ in 0..rng.range(1, 5) {
        let mut q: Vec<(u64, u64)> = Vec::new();
        if !(sc.is_empty() || rng.chance(1, 10)) {
            for _ in 0..rng.range(1, 4) {
                let i = rng.below(sc.len() as u64) as usize;
                let j = rng.range(i as u64, sc.len() as u64 - 1) as usize;
                q.push((sc[i].0, sc[j].1));
            }
        }
        sessions.push(q);
    }
    w.push("bcfb", vec![hl.to_string(), hex(&file), fmt_frames(&frames), fmt_sessions(&sessions)]);
}

fn run_bcfb(c: &Case) -> Obs {
    let hl = c.u(0) as usize;
    let file = unhex(&c.args[1]);
    let sessions = parse_sessions(&c.args[3]);
    let (frames, raw) = match guarded(AssertUnwindSafe(|| frame_table(&file))) {
        Outcome::Done(Ok(fs)) => {
            let raw: Vec<u8> = fs.iter().flat_map(|(_, d)| d.iter().copied()).collect();
            (fs, raw)
        }
        _ => return Obs::fail("-", "harness-bcfb-frame-table", ""),
    };
    if fmt_frames(&frames) != c.args[2] {
        return Obs::fail("-", "harness-bcfb-frames-differ-from-case", "");
    }
    // record i of the uncompressed stream: everything behind its l_shared word
    let mut bodies: Vec<&[u8]> = Vec::new();
    let mut at = hl;
    while at + 8 <= raw.len() {
        let ls = u32::from_le_bytes([raw[at], raw[at + 1], raw[at + 2], raw[at + 3]]) as usize;
        let li = u32::from_le_bytes([raw[at + 4], raw[at + 5], raw[at + 6], raw[at + 7]]) as usize;
        if ls == 0 || at + 8 + ls + li > raw.len() {
            break;
        }
        bodies.push(&raw[at + 4..at + 8 + ls + li]);
        at += 8 + ls + li;
    }
    // the reader does not expose the raw buffers: a record is identified by its ID column (the
    // generator writes the record's ordinal there) and described by the stream bytes of that ordinal
    fn rid(r: &noodles_bcf::Record) -> String {
        let ids = r.ids();
        let b: &[u8] = ids.as_ref();
        String::from_utf8_lossy(b).into_owned()
    }
    let body_of = |name: &str| -> Option<&[u8]> { name.parse::<usize>().ok().and_then(|i| bodies.get(i).copied()) };
    let desc = |name: &String| -> String {
        match body_of(name) {
            Some(b) => format!("{}-{}", b.len(), hash_bytes(b)),
            None => "?".into(),
        }
    };

    type Ans = Vec<io::Result<Vec<String>>>;
    let r = guarded(AssertUnwindSafe(|| -> io::Result<(Vec<(u64, u64, String)>, Ans)> {
        // ONE reader object for the scan and all the queries
        let mut reader = noodles_bcf::io::Reader::new(Cursor::new(&file[..]));
        reader.read_header()?;
        let mut sc = Vec::new();
        let mut record = noodles_bcf::Record::default();
        let mut start = u64::from(reader.get_ref().virtual_position());
        while reader.read_record(&mut record)? != 0 {
            let end = u64::from(reader.get_ref().virtual_position());
            sc.push((start, end, rid(&record)));
            start = end;
        }
        let mut answers = Vec::new();
        for q in &sessions {
            let cs: Vec<Chunk> = q
                .iter()
                .map(|(a, b)| Chunk::new(bgzf::VirtualPosition::from(*a), bgzf::VirtualPosition::from(*b)))
                .collect();
            let query = csi::io::Query::new(reader.get_mut(), cs);
            let mut qr = noodles_bcf::io::Reader::from(query);
            let mut got = Vec::new();
            let mut res = Ok(());
            loop {
                match qr.read_record(&mut record) {
                    Ok(0) => break,
                    Ok(_) => got.push(rid(&record)),
                    Err(e) => {
                        res = Err(e);
                        break;
                    }
                }
            }
            answers.push(res.map(|()| got));
        }
        Ok((sc, answers))
    }));
    match r {
        Outcome::Done(Ok((sc, answers))) => {
            let mut obs = String::from("S");
            obs.push_str(&sc.iter().map(|(a, b, n)| format!("{a}-{b}-{}", desc(n))).collect::<Vec<_>>().join(","));
            let mut verdict: Result<(), (String, String)> = Ok(());
            let mut nontrivial = false;
            if sc.len() != bodies.len() || sc.iter().enumerate().any(|(i, (_, _, n))| *n != i.to_string()) {
                verdict = Err(("bcfb-scan-records-differ-from-stream".into(), format!("{} vs {}", sc.len(), bodies.len())));
            }
            for (qi, (q, ans)) in sessions.iter().zip(&answers).enumerate() {
                obs.push_str("|Q");
                match ans {
                    Ok(got) => {
                        obs.push_str(&got.iter().map(|n| desc(n)).collect::<Vec<_>>().join(","));
                        let want: Vec<String> = q
                            .iter()
                            .flat_map(|(a, b)| sc.iter().filter(move |(ra, _, _)| *a <= *ra && *ra < *b).map(|(_, _, n)| n.clone()))
                            .collect();
                        if !got.is_empty() && got.len() != sc.len() {
                            nontrivial = true;
                        }
                        if *got != want && verdict.is_ok() {
                            let tag = if qi == 0 {
                                "bcfb-chunk-read-differs-from-records-starting-in-chunks".to_string()
                            } else {
                                "bcfb-chunk-read-after-previous-query-differs".to_string()
                            };
                            verdict = Err((tag, format!("query {qi}: want {} got {} records", want.len(), got.len())));
                        }
                    }
                    Err(e) => {
                        obs.push_str(&format!("Err:{}", errkind(e)));
                        if verdict.is_ok() {
                            verdict = Err(("bcfb-chunk-read-error".into(), format!("query {qi}: {e}")));
                        }
                    }
                }
            }
            Obs::ok(obs, nontrivial).with_verdict(verdict)
        }
        Outcome::Done(Err(e)) => Obs::fail(format!("Err:{}", errkind(&e)), "bcfb-scan-error", format!("{e}")),
        Outcome::Panicked(m) => Obs::fail("Panic", "bcfb-panic", m),
    }
}

// ---------------------------------------------------------------------------------------------
// kind `bcfk`: the indexing / filtering key read off a record's SITE BYTES
// (NV.Index.BcfSiteKey.bcf_site_key)
//
//   bcfk  site        -- the site block (hex); the real side lays it out as a record without samples
//                        (l_shared, l_indiv = 0, site), reads it with bcf::io::Reader::read_record over
//                        the plain bytes and asks Record::reference_sequence_id, variant_start, end.
//   expected          -- "Invalid" when read_record refuses the block (Fields::index), else
//                        rid=<n|Err>;start=<n|-|Err>;end=<n|Err>
pub fn generate_bcfk(rng: &mut Rng, tier: &str, w: &mut CaseWriter) {
    let n = if tier == "thorough" { 3000 } else { 150 };
    for _ in 0..n {
        let word = |rng: &mut Rng| -> i32 {
            match rng.below(8) {
                0 => -1,
                1 => 0,
                2 => i32::MAX,
                3 => i32::MIN,
                4 => -(rng.range(2, 100000) as i32),
                5 => rng.range(1, 10) as i32,
                _ => rng.range(0, i32::MAX as u64) as i32,
            }
        };
        let mut site: Vec<u8> = Vec::new();
        site.extend(word(rng).to_le_bytes());
        site.extend(word(rng).to_le_bytes());
        site.extend(word(rng).to_le_bytes());
        site.extend(0x7f80_0001u32.to_le_bytes());
        site.extend(0u16.to_le_bytes());
        let n_alt = rng.below(3) as u16;
        let n_allele = if rng.chance(1, 12) { 0 } else { 1 + n_alt };
        site.extend(n_allele.to_le_bytes());
        site.extend([0u8, 0, 0, 0]);
        // ID (empty or "r1"), REF, ALTs, FILTER (none)
        if rng.chance(1, 2) { site.push(0x07) } else { site.extend([0x27, b'r', b'1']) }
        site.extend([0x17, b'A']);
        for _ in 0..n_alt {
            site.extend([0x17, b'C']);
        }
        site.push(0x00);
        if rng.chance(1, 8) {
            let k = rng.below(site.len() as u64 + 1) as usize;
            site.truncate(k);
        }
        if site.is_empty() {
            site.push(0);
        }
        w.push("bcfk", vec![hex(&site)]);
    }
}

fn run_bcfk(c: &Case) -> Obs {
    let site = unhex(&c.args[0]);
    let mut stream: Vec<u8> = Vec::new();
    stream.extend((site.len() as u32).to_le_bytes());
    stream.extend(0u32.to_le_bytes());
    stream.extend(&site);
    let out = guarded(AssertUnwindSafe(|| {
        let mut reader = noodles_bcf::io::Reader::from(&stream[..]);
        let mut record = noodles_bcf::Record::default();
        match reader.read_record(&mut record) {
            Err(_) => "Invalid".to_string(),
            Ok(0) => "End".to_string(),
            Ok(_) => {
                let rid = match record.reference_sequence_id() {
                    Ok(n) => n.to_string(),
                    Err(_) => "Err".into(),
                };
                let start = match record.variant_start() {
                    None => "-".to_string(),
                    Some(Ok(p)) => usize::from(p).to_string(),
                    Some(Err(_)) => "Err".into(),
                };
                let end = match record.end() {
                    Ok(p) => usize::from(p).to_string(),
                    Err(_) => "Err".into(),
                };
                format!("rid={rid};start={start};end={end}")
            }
        }
    }));
    match out {
        Outcome::Done(s) => {
            let nontrivial = s != "Invalid";
            Obs::ok(s, nontrivial)
        }
        Outcome::Panicked(m) => Obs::fail("Panic", "bcfk-panic", m),
    }
}

pub fn run(c: &Case) -> Option<Obs> {
    match c.kind.as_str() {
        "bcfk" => Some(run_bcfk(c)),
        "bcfb" => Some(run_bcfb(c)),
        "bamb" => Some(run_bamb(c)),
        "bamx" => Some(run_bamx(c)),
        "bamu" => Some(run_bamu(c)),
        _ => None,
    }
}
