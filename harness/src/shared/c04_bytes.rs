//! C04, byte level (kind `bamb`): virtual offsets tied to bytes.
//!
//!   bamb  hl file frames sessions
//!         hl       = length of the BAM header in the uncompressed stream
//!         file     = the whole BGZF file (hex): the uncompressed BAM stream (header + records
//!                    written by bam::io::Writer) cut at arbitrary points -- inside records, inside
//!                    the 4 size bytes -- into BGZF blocks by bgzf::io::Writer (flush at each cut;
//!                    some cuts finish the writer and start a new one, which leaves an EMPTY block
//!                    in the middle of the file), EOF marker at the end
//!         frames   = csize.hexdata,...  the frame table of that file (BSIZE+1 and the inflated
//!                    data of every block, empty ones included); `run` recomputes it from `file`
//!                    and refuses the case when it differs
//!         sessions = q;q;...   q = a:b/a:b/...  chunk lists (virtual positions), run ONE AFTER THE
//!                    OTHER on the same reader object, after the sequential scan that the indexer
//!                    performs; "_" = the empty list
//!         obs      = S<a>-<b>-<len>-<hash>,...|Q<len>-<hash>,...|...   the scan (positions told
//!                    before / after each record, its size and a hash of its bytes) and what every
//!                    query yields, or Err:<kind>
//!
//! Model: NV.Index.ByteQuery.byte_session over NV.Bgzf.ReaderOps (the frames), i.e. csi::io::Query's
//! state machine + the BAM record framing, run on the file's bytes.
//! Oracle: every query yields, chunk by chunk, exactly the records whose start position (as the
//! scan told it) lies in [start, end) -- for chunk lists with starts at record starts and ends at
//! record ends (what an index holds); the chunk lists come from the real BAI index of the file
//! (index.query for random regions) and from random boundary pairs.

use std::{
    io::{self, Cursor, Read, Write},
    num::NonZero,
    panic::AssertUnwindSafe,
};

use noodles_bam as bam;
use noodles_bgzf as bgzf;
use noodles_core::Position;
use noodles_csi::{
    self as csi, BinningIndex,
    binning_index::{Indexer, index::reference_sequence::{bin::Chunk, index::LinearIndex}},
};
use noodles_sam::{
    self as sam,
    alignment::{
        Record as _, RecordBuf,
        io::Write as _,
        record::{Flags, cigar::{Op, op::Kind}},
        record_buf::{Cigar, Sequence},
    },
    header::record::value::{
        Map,
        map::{self, ReferenceSequence, header::{sort_order::COORDINATE, tag::SORT_ORDER}},
    },
};
use nv::{Case, CaseWriter, Obs, Outcome, Rng, errkind, guarded, hex, unhex};

fn mix(h: u64, v: u64) -> u64 {
    h.wrapping_mul(1_000_003).wrapping_add(v + 1) & ((1u64 << 62) - 1)
}

fn hash_bytes(b: &[u8]) -> u64 {
    b.iter().fold(0u64, |h, x| mix(h, u64::from(*x)))
}

fn header(nref: usize) -> sam::Header {
    let mut b = sam::Header::builder().set_header(
        Map::<map::Header>::builder().insert(SORT_ORDER, COORDINATE).build().expect("hd"),
    );
    for k in 0..nref {
        b = b.add_reference_sequence(
            format!("r{k}"),
            Map::<ReferenceSequence>::new(NonZero::new((1usize << 29) - 1).unwrap()),
        );
    }
    b.build()
}

/// the uncompressed BAM stream: (bytes, header length, [start, end) of every record in it)
fn raw_stream(rng: &mut Rng) -> io::Result<(Vec<u8>, usize, Vec<(usize, usize)>)> {
    let nref = rng.range(1, 3) as usize;
    let h = header(nref);
    let mut w = bam::io::Writer::from(Vec::new());
    w.write_header(&h)?;
    let hl = w.get_ref().len();
    let n = rng.below(25) as usize;
    let mut spans = Vec::new();
    let mut rid = 0usize;
    let mut pos = 1u64;
    let unplaced_from = if rng.chance(1, 3) { n.saturating_sub(rng.below(4) as usize) } else { n };
    for i in 0..n {
        let mut b = RecordBuf::default();
        *b.name_mut() = Some(i.to_string().into());
        let len = if rng.chance(1, 5) { rng.range(200, 1500) } else { rng.below(40) } as usize;
        if i < unplaced_from {
            if rng.chance(1, 6) && rid + 1 < nref {
                rid += 1;
                pos = 1;
            }
            pos += match rng.below(4) {
                0 => 0,
                1 => rng.below(50),
                2 => rng.below(20000),
                _ => rng.below(3_000_000),
            };
            *b.flags_mut() = Flags::from(if rng.chance(1, 8) { 4u16 } else { 0 });
            *b.reference_sequence_id_mut() = Some(rid);
            *b.alignment_start_mut() = Some(Position::try_from(pos as usize).unwrap());
            let mut ops = vec![Op::new(Kind::Match, len.max(1))];
            if rng.chance(1, 4) {
                ops.push(Op::new(Kind::Skip, rng.range(1, 200000) as usize));
                ops.push(Op::new(Kind::Match, 1));
            }
            let read_len: usize = ops.iter().filter(|o| o.kind() == Kind::Match).map(|o| o.len()).sum();
            *b.cigar_mut() = ops.into_iter().collect::<Cigar>();
            *b.sequence_mut() = Sequence::from(rng.bytes(read_len).iter().map(|x| b"ACGT"[(x & 3) as usize]).collect::<Vec<u8>>());
        } else {
            *b.flags_mut() = Flags::from(4u16);
            *b.sequence_mut() = Sequence::from(rng.bytes(len).iter().map(|x| b"ACGT"[(x & 3) as usize]).collect::<Vec<u8>>());
        }
        let start = w.get_ref().len();
        w.write_alignment_record(&h, &b)?;
        spans.push((start, w.get_ref().len()));
    }
    Ok((w.get_ref().clone(), hl, spans))
}

/// cut the stream into BGZF blocks with the real writer
fn bgzf_file(rng: &mut Rng, raw: &[u8]) -> io::Result<Vec<u8>> {
    let mut cuts: Vec<usize> = (0..rng.range(0, 9)).map(|_| rng.below(raw.len() as u64 + 1) as usize).collect();
    cuts.sort();
    cuts.dedup();
    let mut out = Vec::new();
    let mut w = bgzf::io::Writer::new(Vec::new());
    let mut at = 0usize;
    for c in cuts {
        w.write_all(&raw[at..c])?;
        at = c;
        if rng.chance(1, 4) {
            // finish: data block (if any) + EOF marker = an empty block inside the file
            out.extend(w.finish()?);
            w = bgzf::io::Writer::new(Vec::new());
        } else {
            w.flush()?;
        }
    }
    w.write_all(&raw[at..])?;
    out.extend(w.finish()?);
    Ok(out)
}

/// frame table of a BGZF file: (BSIZE + 1, inflated data) per member
fn frame_table(file: &[u8]) -> io::Result<Vec<(usize, Vec<u8>)>> {
    let mut out = Vec::new();
    let mut at = 0usize;
    while at < file.len() {
        if file.len() - at < 18 {
            return Err(io::Error::from(io::ErrorKind::InvalidData));
        }
        let csize = usize::from(u16::from_le_bytes([file[at + 16], file[at + 17]])) + 1;
        if at + csize > file.len() {
            return Err(io::Error::from(io::ErrorKind::InvalidData));
        }
        let mut data = Vec::new();
        flate2::read::MultiGzDecoder::new(&file[at..at + csize]).read_to_end(&mut data)?;
        out.push((csize, data));
        at += csize;
    }
    Ok(out)
}

fn fmt_frames(fs: &[(usize, Vec<u8>)]) -> String {
    if fs.is_empty() {
        return "_".into();
    }
    fs.iter().map(|(c, d)| format!("{c}.{}", hex(d))).collect::<Vec<_>>().join(",")
}

type Scan = Vec<(u64, u64, String)>; // a, b, name

fn scan(file: &[u8]) -> io::Result<(sam::Header, Scan)> {
    let mut reader = bam::io::Reader::new(Cursor::new(file));
    let h = reader.read_header()?;
    let mut out = Vec::new();
    let mut record = bam::Record::default();
    let mut start = u64::from(reader.get_ref().virtual_position());
    while reader.read_record(&mut record)? != 0 {
        let end = u64::from(reader.get_ref().virtual_position());
        out.push((start, end, rec_name(&record)));
        start = end;
    }
    Ok((h, out))
}

fn rec_name(r: &bam::Record) -> String {
    r.name().map(|n| String::from_utf8_lossy(n.as_ref()).into_owned()).unwrap_or_default()
}

/// the bam/fs/index.rs loop over the in-memory file (BAI geometry)
fn bai_index(file: &[u8]) -> io::Result<(usize, csi::binning_index::Index<LinearIndex>)> {
    let mut reader = bam::io::Reader::new(Cursor::new(file));
    let header = reader.read_header()?;
    let mut ix = Indexer::<LinearIndex>::default();
    let mut record = bam::Record::default();
    let mut start = reader.get_ref().virtual_position();
    while reader.read_record(&mut record)? != 0 {
        let end = reader.get_ref().virtual_position();
        let ctx = match (
            record.reference_sequence_id().transpose()?,
            record.alignment_start().transpose()?,
            record.alignment_end().transpose()?,
        ) {
            (Some(id), Some(s), Some(e)) => Some((id, s, e, !record.flags().is_unmapped())),
            _ => None,
        };
        ix.add_record(ctx, Chunk::new(start, end))?;
        start = end;
    }
    let n = header.reference_sequences().len();
    Ok((n, ix.build(n)))
}

fn fmt_sessions(qs: &[Vec<(u64, u64)>]) -> String {
    qs.iter()
        .map(|q| if q.is_empty() { "_".into() } else { q.iter().map(|(a, b)| format!("{a}:{b}")).collect::<Vec<_>>().join("/") })
        .collect::<Vec<_>>()
        .join(";")
}

fn parse_sessions(s: &str) -> Vec<Vec<(u64, u64)>> {
    s.split(';')
        .map(|q| {
            if q == "_" {
                vec![]
            } else {
                q.split('/')
                    .map(|p| {
                        let (a, b) = p.split_once(':').unwrap();
                        (a.parse().unwrap(), b.parse().unwrap())
                    })
                    .collect()
            }
        })
        .collect()
}

fn gen_one(rng: &mut Rng, w: &mut CaseWriter) {
    let mut r2 = rng.fork();
    let built = guarded(AssertUnwindSafe(move || -> io::Result<_> {
        let (raw, hl, spans) = raw_stream(&mut r2)?;
        let file = bgzf_file(&mut r2, &raw)?;
        let frames = frame_table(&file)?;
        let (_, sc) = scan(&file)?;
        let ix = bai_index(&file)?;
        Ok((hl, spans, file, frames, sc, ix))
    }));
    let (hl, spans, file, frames, sc, (nref, ix)) = match built {
        Outcome::Done(Ok(x)) => x,
        _ => return,
    };
    if sc.len() != spans.len() {
        return;
    }
    let mut sessions: Vec<Vec<(u64, u64)>> = Vec::new();
    for _ in 0..rng.range(1, 5) {
        let mut q: Vec<(u64, u64)> = Vec::new();
        if sc.is_empty() || rng.chance(1, 10) {
            // the empty chunk list
        } else if rng.chance(1, 2) {
            // what the real index answers for a random region
            let k = rng.below(nref as u64) as usize;
            let s = rng.range(1, 3_000_000);
            let e = s + match rng.below(3) { 0 => 0, 1 => rng.below(20000), _ => rng.below(6_000_000) };
            let e = e.min((1 << 29) - 1);
            let iv = (Position::try_from(s as usize).unwrap()..=Position::try_from(e as usize).unwrap()).into();
            if let Outcome::Done(Ok(cs)) = guarded(AssertUnwindSafe(|| ix.query(k, iv))) {
                q = cs.iter().map(|c| (u64::from(c.start()), u64::from(c.end()))).collect();
            }
        } else {
            // boundary pairs: start of record i, end of record j >= i; any order, overlaps, repeats
            for _ in 0..rng.range(1, 4) {
                let i = rng.below(sc.len() as u64) as usize;
                let j = rng.range(i as u64, sc.len() as u64 - 1) as usize;
                q.push((sc[i].0, sc[j].1));
            }
        }
        sessions.push(q);
    }
    w.push("bamb", vec![hl.to_string(), hex(&file), fmt_frames(&frames), fmt_sessions(&sessions)]);
}

pub fn generate(rng: &mut Rng, tier: &str, w: &mut CaseWriter) {
    let n = if tier == "thorough" { 1500 } else { 90 };
    for _ in 0..n {
        gen_one(rng, w);
    }
}

fn run_bamb(c: &Case) -> Obs {
    let hl = c.u(0) as usize;
    let file = unhex(&c.args[1]);
    let sessions = parse_sessions(&c.args[3]);
    // the frame table handed to the model must be the one of the bytes
    let (frames, raw) = match guarded(AssertUnwindSafe(|| frame_table(&file))) {
        Outcome::Done(Ok(fs)) => {
            let raw: Vec<u8> = fs.iter().flat_map(|(_, d)| d.iter().copied()).collect();
            (fs, raw)
        }
        _ => return Obs::fail("-", "harness-bamb-frame-table", ""),
    };
    if fmt_frames(&frames) != c.args[2] {
        return Obs::fail("-", "harness-bamb-frames-differ-from-case", "");
    }
    // record i of the uncompressed stream: its bytes (without the 4 size bytes)
    let mut bodies: Vec<&[u8]> = Vec::new();
    let mut at = hl;
    while at + 4 <= raw.len() {
        let n = u32::from_le_bytes([raw[at], raw[at + 1], raw[at + 2], raw[at + 3]]) as usize;
        if n == 0 || at + 4 + n > raw.len() {
            break;
        }
        bodies.push(&raw[at + 4..at + 4 + n]);
        at += 4 + n;
    }
    let body_of = |name: &str| -> Option<&[u8]> { name.parse::<usize>().ok().and_then(|i| bodies.get(i).copied()) };
    let desc = |name: &str| -> String {
        match body_of(name) {
            Some(b) => format!("{}-{}", b.len(), hash_bytes(b)),
            None => "?".into(),
        }
    };

    let r = guarded(AssertUnwindSafe(|| -> io::Result<(Scan, Vec<io::Result<Vec<String>>>)> {
        // ONE reader object for the scan and all the queries
        let mut reader = bam::io::Reader::new(Cursor::new(&file[..]));
        reader.read_header()?;
        let mut sc = Vec::new();
        let mut record = bam::Record::default();
        let mut start = u64::from(reader.get_ref().virtual_position());
        while reader.read_record(&mut record)? != 0 {
            let end = u64::from(reader.get_ref().virtual_position());
            sc.push((start, end, rec_name(&record)));
            start = end;
        }
        let mut answers = Vec::new();
        for q in &sessions {
            let cs: Vec<Chunk> = q
                .iter()
                .map(|(a, b)| Chunk::new(bgzf::VirtualPosition::from(*a), bgzf::VirtualPosition::from(*b)))
                .collect();
            let query = csi::io::Query::new(reader.get_mut(), cs);
            let mut qr = bam::io::Reader::from(query);
            let mut names = Vec::new();
            let mut res = Ok(());
            loop {
                match qr.read_record(&mut record) {
                    Ok(0) => break,
                    Ok(_) => names.push(rec_name(&record)),
                    Err(e) => {
                        res = Err(e);
                        break;
                    }
                }
            }
            answers.push(res.map(|()| names));
        }
        Ok((sc, answers))
    }));
    match r {
        Outcome::Done(Ok((sc, answers))) => {
            let mut obs = String::from("S");
            obs.push_str(&sc.iter().map(|(a, b, n)| format!("{a}-{b}-{}", desc(n))).collect::<Vec<_>>().join(","));
            let mut verdict: Result<(), (String, String)> = Ok(());
            let mut nontrivial = false;
            if sc.len() != bodies.len() {
                verdict = Err(("bamb-scan-record-count-differs-from-stream".into(), format!("{} vs {}", sc.len(), bodies.len())));
            }
            for (qi, (q, ans)) in sessions.iter().zip(&answers).enumerate() {
                obs.push_str("|Q");
                match ans {
                    Ok(names) => {
                        obs.push_str(&names.iter().map(|n| desc(n)).collect::<Vec<_>>().join(","));
                        let want: Vec<String> = q
                            .iter()
                            .flat_map(|(a, b)| sc.iter().filter(move |(ra, _, _)| *a <= *ra && *ra < *b).map(|(_, _, n)| n.clone()))
                            .collect();
                        if !names.is_empty() && names.len() != sc.len() {
                            nontrivial = true;
                        }
                        if *names != want && verdict.is_ok() {
                            let tag = if qi == 0 {
                                "bamb-chunk-read-differs-from-records-starting-in-chunks".to_string()
                            } else {
                                "bamb-chunk-read-after-previous-query-differs".to_string()
                            };
                            verdict = Err((tag, format!("query {qi}: want {want:?} got {names:?}")));
                        }
                    }
                    Err(e) => {
                        obs.push_str(&format!("Err:{}", errkind(e)));
                        if verdict.is_ok() {
                            verdict = Err(("bamb-chunk-read-error".into(), format!("query {qi}: {e}")));
                        }
                    }
                }
            }
            Obs::ok(obs, nontrivial).with_verdict(verdict)
        }
        Outcome::Done(Err(e)) => Obs::fail(format!("Err:{}", errkind(&e)), "bamb-scan-error", format!("{e}")),
        Outcome::Panicked(m) => Obs::fail("Panic", "bamb-panic", m),
    }
}

pub fn run(c: &Case) -> Option<Obs> {
    match c.kind.as_str() {
        "bamb" => Some(run_bamb(c)),
        _ => None,
    }
}
