//! C13: canonical text of CSI / tabix / fai / crai indexes (the same text is printed by
//! ocaml/c13_driver.ml from the Coq model's values) and the real readers on a payload prefix.
//!
//!   csi  = ms~depth~hdr~refs~unplaced        tbi = hdr~refs~unplaced
//!   hdr  = `-` | fmt:seq:beg:end:meta:skip:names   fmt in g b s v; end `-`|n; names hex,hex (`.` empty, `_` none)
//!   refs = ref/ref (`_` none); csi ref = bins|loffs|meta; tbi ref = bins|meta|intervals
//!   bins = id=a:b,a:b;id=..  (`_` none)    meta = a:b:c:d | `-`    unplaced = `-` | n
//!   fai  = namehex:len:pos:lb:lw;...       crai = rid:start:span:off:land:slen;...  (`_` none)

use std::io::{Cursor, Read, Write};

use indexmap::IndexMap;
use noodles_bgzf as bgzf;
use noodles_csi::{
    self as csi,
    binning_index::{
        BinningIndex, ReferenceSequence as _,
        index::{
            Header, ReferenceSequence,
            header::{Format, format::CoordinateSystem},
            reference_sequence::{Bin, Metadata, index::BinnedIndex, index::LinearIndex},
        },
    },
};
use noodles_tabix as tabix;
use nv::Outcome;

pub enum R {
    Ok(String),
    Err,
    Panic(String),
}

impl R {
    pub fn token(&self) -> String {
        match self {
            R::Ok(s) => format!("Ok:{s}"),
            R::Err => "Err".into(),
            R::Panic(_) => "Panic".into(),
        }
    }
}

fn fmt_list<T>(sep: &str, l: &[T], f: impl Fn(&T) -> String) -> String {
    if l.is_empty() { "_".into() } else { l.iter().map(f).collect::<Vec<_>>().join(sep) }
}
fn fmt_opt<T>(o: Option<T>, f: impl Fn(T) -> String) -> String {
    match o {
        None => "-".into(),
        Some(x) => f(x),
    }
}
fn fmt_pairs(cs: &[(u64, u64)]) -> String {
    fmt_list(",", cs, |(a, b)| format!("{a}:{b}"))
}

fn fmt_hdr(h: Option<&Header>) -> String {
    fmt_opt(h, |h| {
        let names: Vec<Vec<u8>> = h.reference_sequence_names().iter().map(|n| n.to_vec()).collect();
        [
            match h.format() {
                Format::Generic(CoordinateSystem::Gff) => "g".to_string(),
                Format::Generic(CoordinateSystem::Bed) => "b".into(),
                Format::Sam => "s".into(),
                Format::Vcf => "v".into(),
            },
            h.reference_sequence_name_index().to_string(),
            h.start_position_index().to_string(),
            fmt_opt(h.end_position_index(), |e| e.to_string()),
            h.line_comment_prefix().to_string(),
            h.line_skip_count().to_string(),
            fmt_list(",", &names, |n| if n.is_empty() { ".".into() } else { nv::hex(n) }),
        ]
        .join(":")
    })
}

fn fmt_meta(m: Option<&Metadata>) -> String {
    fmt_opt(m, |m| {
        format!(
            "{}:{}:{}:{}",
            u64::from(m.start_position()),
            u64::from(m.end_position()),
            m.mapped_record_count(),
            m.unmapped_record_count()
        )
    })
}
fn fmt_bins(bins: &IndexMap<usize, Bin>) -> String {
    let v: Vec<(usize, Vec<(u64, u64)>)> = bins
        .iter()
        .map(|(id, b)| (*id, b.chunks().iter().map(|c| (u64::from(c.start()), u64::from(c.end()))).collect()))
        .collect();
    fmt_list(";", &v, |(id, cs)| format!("{id}={}", fmt_pairs(cs)))
}
fn fmt_cref(r: &ReferenceSequence<BinnedIndex>) -> String {
    let loffs: Vec<(u64, u64)> = r.index().iter().map(|(id, v)| (*id as u64, u64::from(*v))).collect();
    [fmt_bins(r.bins()), fmt_pairs(&loffs), fmt_meta(r.metadata())].join("|")
}
fn fmt_tref(r: &ReferenceSequence<LinearIndex>) -> String {
    let ivs: Vec<u64> = r.index().iter().map(|v| u64::from(*v)).collect();
    [fmt_bins(r.bins()), fmt_meta(r.metadata()), fmt_list(",", &ivs, |x| x.to_string())].join("|")
}

pub fn fmt_csi(i: &csi::Index) -> String {
    [
        i.min_shift().to_string(),
        i.depth().to_string(),
        fmt_hdr(i.header()),
        fmt_list("/", i.reference_sequences(), fmt_cref),
        fmt_opt(i.unplaced_unmapped_record_count(), |n| n.to_string()),
    ]
    .join("~")
}
pub fn fmt_tbi(i: &tabix::Index) -> String {
    [
        fmt_hdr(i.header()),
        fmt_list("/", i.reference_sequences(), fmt_tref),
        fmt_opt(i.unplaced_unmapped_record_count(), |n| n.to_string()),
    ]
    .join("~")
}
pub fn fmt_fai(recs: &[noodles_fasta::fai::Record]) -> String {
    fmt_list(";", recs, |r| {
        format!("{}:{}:{}:{}:{}", nv::hex(r.name()), r.length(), r.position(), r.line_base_count(), r.line_width())
    })
}
pub fn fmt_crai(recs: &[noodles_cram::crai::Record]) -> String {
    fmt_list(";", recs, |r| {
        format!(
            "{}:{}:{}:{}:{}:{}",
            fmt_opt(r.reference_sequence_id(), |x| x.to_string()),
            fmt_opt(r.alignment_start(), |p| usize::from(p).to_string()),
            r.alignment_span(),
            r.offset(),
            r.landmark(),
            r.slice_length()
        )
    })
}

pub fn inflate(bgzf_bytes: &[u8]) -> Vec<u8> {
    let mut out = Vec::new();
    bgzf::io::Reader::new(bgzf_bytes).read_to_end(&mut out).unwrap();
    out
}
pub fn deflate(payload: &[u8]) -> Vec<u8> {
    let mut w = bgzf::io::Writer::new(Vec::new());
    w.write_all(payload).unwrap();
    w.finish().unwrap()
}
pub fn gunzip(gz: &[u8]) -> Vec<u8> {
    let mut text = Vec::new();
    flate2::read::MultiGzDecoder::new(gz).read_to_end(&mut text).unwrap();
    text
}
pub fn gzip(text: &[u8]) -> Vec<u8> {
    let mut e = flate2::write::GzEncoder::new(Vec::new(), Default::default());
    e.write_all(text).unwrap();
    e.finish().unwrap()
}

fn outcome<T, E>(o: Outcome<Result<T, E>>, f: impl Fn(&T) -> String) -> R {
    match o {
        Outcome::Done(Ok(i)) => R::Ok(f(&i)),
        Outcome::Done(Err(_)) => R::Err,
        Outcome::Panicked(m) => R::Panic(m),
    }
}

/// the real readers on a BGZF (csi, tabix) / plain (fai) / gzip (crai) FILE
pub fn read_file(kind: &str, file: &[u8]) -> R {
    let file = file.to_vec();
    match kind {
        "csi" => outcome(nv::guarded(move || csi::io::Reader::new(Cursor::new(file)).read_index()), fmt_csi),
        "tbi" => outcome(nv::guarded(move || tabix::io::Reader::new(Cursor::new(file)).read_index()), fmt_tbi),
        "fai" => outcome(nv::guarded(move || noodles_fasta::fai::io::Reader::new(&file[..]).read_index()), |i| fmt_fai(i.as_ref())),
        _ => outcome(nv::guarded(move || noodles_cram::crai::io::Reader::new(&file[..]).read_index()), |i| fmt_crai(i)),
    }
}

/// the real readers on the first bytes of the uncompressed PAYLOAD (wrapped in an intact container)
pub fn read_payload(kind: &str, p: &[u8]) -> R {
    match kind {
        "csi" | "tbi" => read_file(kind, &deflate(p)),
        "fai" => read_file(kind, p),
        _ => read_file(kind, &gzip(p)),
    }
}
