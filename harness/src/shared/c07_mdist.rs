//! C07 `mdist` kind (L2 for the reader half of the mate model + L3 "no panic"): the real CRAM
//! reader's `read_mate` / `resolve_mates` on HOSTILE mate distances (the NF series) and arbitrary
//! DETACHED / MATE_IS_DOWNSTREAM CRAM flag bits, reached through a CRC-sealed patched file.
//!
//!   mdist refs recs links
//!       refs  = as in `rt` / `mates` (fmt_refs / parse_refs)
//!       recs  = the `mates` record format  name|flag|rid|pos|cigar|mrid|mpos|tlen|seqhex  with
//!               unique names q0,q1,.., mrid = -1, mpos = 0, tlen = 0 and flags without 0x8 / 0x20
//!               (the writer writes every record detached with MF = 0)
//!       links = ','-joined  cf:nf  one per record: cf in {0,2,4,6} = the bits DETACHED (2) |
//!               MATE_IS_DOWNSTREAM (4) to store in the CF series, nf = the u32 to store in the NF
//!               series (stored ONLY for the records with cf & 6 == 4)
//!
//! The file is written by the real writer (read names preserved, no block compression, one slice),
//! then in the single slice of the first data container the external blocks CF (content id 2; only
//! the bits 2|4 of each value are replaced), MF (8, n x 0), NS (9, n x ITF8(-1)), NP (10, n x 0),
//! TS (11, n x 0) and NF (12, ITF8(nf as i32) of the records with cf = 4) are rebuilt, a missing
//! block is inserted (slice header block count / content ids, container block count), the
//! container length and every CRC32 are recomputed, and the file is read back by the real reader.
//!
//!   obs = ';'-joined  flag,mrid,mpos,tlen  of the records read back (mrid -1 = none, mpos 0 = none)
//!         | ReadErr:<kind> (reader error) | Panic | Harness (the harness could not build the case)
use super::mates::{MRec, fmt_mrecs, parse_mrecs};
use super::*;

// ------------------------------------------------------------------------------------------------
// header / records (copies of the private helpers of c07_mates.rs)

fn header_of(refs: &Refs) -> sam::Header {
    let mut b = sam::Header::builder();
    for (n, s) in refs {
        b = b.add_reference_sequence(
            n.as_bytes().to_vec(),
            sam::header::record::value::Map::<sam::header::record::value::map::ReferenceSequence>::new(
                std::num::NonZeroUsize::new(s.len().max(1)).unwrap(),
            ),
        );
    }
    b.build()
}

fn record_of(m: &MRec) -> RecordBuf {
    let mut b = RecordBuf::builder()
        .set_flags(Flags::from(m.flag))
        .set_cigar(parse_cigar(&m.cigar).into_iter().collect::<Cigar>())
        .set_template_length(m.tlen)
        .set_sequence(Sequence::from(m.seq.clone()))
        .set_quality_scores(QualityScores::from(vec![30u8; m.seq.len()]));
    if m.name != "*" {
        b = b.set_name(m.name.as_bytes().to_vec());
    }
    if m.rid >= 0 {
        b = b.set_reference_sequence_id(m.rid as usize);
    }
    if let Some(p) = Position::new(m.pos) {
        b = b.set_alignment_start(p);
    }
    if m.mrid >= 0 {
        b = b.set_mate_reference_sequence_id(m.mrid as usize);
    }
    if let Some(p) = Position::new(m.mpos) {
        b = b.set_mate_alignment_start(p);
    }
    b.build()
}

// ------------------------------------------------------------------------------------------------
// links

pub fn fmt_links(ls: &[(u8, u32)]) -> String {
    ls.iter().map(|(cf, nf)| format!("{cf}:{nf}")).collect::<Vec<_>>().join(",")
}

pub fn parse_links(s: &str) -> Option<Vec<(u8, u32)>> {
    s.split(',')
        .map(|l| {
            let (cf, nf) = l.split_once(':')?;
            let cf: u8 = cf.parse().ok()?;
            if cf & !6 != 0 {
                return None;
            }
            Some((cf, nf.parse().ok()?))
        })
        .collect()
}

// ------------------------------------------------------------------------------------------------
// a minimal CRAM 3.x walker / rebuilder (the technique of C15's `cmate` kind)

fn push_itf8(t: &mut Vec<u8>, v: u32) {
    if v < 0x80 {
        t.push(v as u8);
    } else if v < 0x4000 {
        t.push(0x80 | (v >> 8) as u8);
        t.push(v as u8);
    } else if v < 0x20_0000 {
        t.push(0xc0 | (v >> 16) as u8);
        t.push((v >> 8) as u8);
        t.push(v as u8);
    } else if v < 0x1000_0000 {
        t.push(0xe0 | (v >> 24) as u8);
        t.push((v >> 16) as u8);
        t.push((v >> 8) as u8);
        t.push(v as u8);
    } else {
        t.push(0xf0 | (v >> 28) as u8);
        t.push((v >> 20) as u8);
        t.push((v >> 12) as u8);
        t.push((v >> 4) as u8);
        t.push((v & 0x0f) as u8);
    }
}

struct Cur<'a> {
    b: &'a [u8],
    p: usize,
}

impl Cur<'_> {
    fn u8(&mut self) -> Result<u8, String> {
        let v = *self.b.get(self.p).ok_or("eof")?;
        self.p += 1;
        Ok(v)
    }
    fn itf8(&mut self) -> Result<i32, String> {
        let b0 = self.u8()? as u32;
        let v = if b0 < 0x80 {
            b0
        } else if b0 < 0xc0 {
            (b0 & 0x7f) << 8 | self.u8()? as u32
        } else if b0 < 0xe0 {
            (b0 & 0x3f) << 16 | (self.u8()? as u32) << 8 | self.u8()? as u32
        } else if b0 < 0xf0 {
            (b0 & 0x1f) << 24 | (self.u8()? as u32) << 16 | (self.u8()? as u32) << 8 | self.u8()? as u32
        } else {
            (b0 & 0x0f) << 28
                | (self.u8()? as u32) << 20
                | (self.u8()? as u32) << 12
                | (self.u8()? as u32) << 4
                | (self.u8()? as u32 & 0x0f)
        };
        Ok(v as i32)
    }
    fn ltf8_skip(&mut self) -> Result<(), String> {
        let n = self.u8()?.leading_ones() as usize;
        if self.p + n > self.b.len() {
            return Err("eof".into());
        }
        self.p += n;
        Ok(())
    }
}

fn crc32(bs: &[u8]) -> u32 {
    let mut c = flate2::Crc::new();
    c.update(bs);
    c.sum()
}

fn itf8(t: &mut Vec<u8>, v: i32) {
    push_itf8(t, v as u32)
}

struct Block {
    method: u8,
    ctype: u8,
    cid: i32,
    rsize: i32,
    data: Vec<u8>,
}

fn put_block(out: &mut Vec<u8>, b: &Block) {
    let s = out.len();
    out.push(b.method);
    out.push(b.ctype);
    itf8(out, b.cid);
    itf8(out, b.data.len() as i32);
    itf8(out, b.rsize);
    out.extend_from_slice(&b.data);
    let c = crc32(&out[s..]);
    out.extend_from_slice(&c.to_le_bytes());
}

fn raw_block(cid: i32, data: Vec<u8>) -> Block {
    Block { method: 0, ctype: 4, cid, rsize: data.len() as i32, data }
}

/// a parsed container header (fields before n_blocks kept verbatim, n_blocks, landmarks) and the
/// byte range of the container body
struct Container {
    pre: Vec<u8>, // ref id .. bases (verbatim)
    n_blocks: i32,
    landmarks: Vec<i32>,
    body: (usize, usize),
}

fn container_at(file: &[u8], off: usize) -> Result<Container, String> {
    let mut c = Cur { b: file, p: off };
    if off + 4 > file.len() {
        return Err("eof".into());
    }
    let len = i32::from_le_bytes([file[off], file[off + 1], file[off + 2], file[off + 3]]);
    c.p += 4;
    let s = c.p;
    for _ in 0..4 {
        c.itf8()?;
    }
    c.ltf8_skip()?;
    c.ltf8_skip()?;
    let pre = file[s..c.p].to_vec();
    let n_blocks = c.itf8()?;
    let nl = c.itf8()?;
    let mut landmarks = Vec::new();
    for _ in 0..nl.clamp(0, 1000) {
        landmarks.push(c.itf8()?);
    }
    c.p += 4;
    if len < 0 || c.p + len as usize > file.len() {
        return Err("container length".into());
    }
    Ok(Container { pre, n_blocks, landmarks, body: (c.p, c.p + len as usize) })
}

fn blocks_of(body: &[u8]) -> Result<Vec<Block>, String> {
    let mut c = Cur { b: body, p: 0 };
    let mut out = Vec::new();
    while c.p < body.len() {
        let method = c.u8()?;
        let ctype = c.u8()?;
        let cid = c.itf8()?;
        let csize = c.itf8()?;
        let rsize = c.itf8()?;
        if csize < 0 || c.p + csize as usize + 4 > body.len() {
            return Err("block size".into());
        }
        let data = body[c.p..c.p + csize as usize].to_vec();
        c.p += csize as usize + 4;
        out.push(Block { method, ctype, cid, rsize, data });
    }
    Ok(out)
}

/// the slice header with one more block (count + content id list), everything else verbatim
fn slice_header_add_block(data: &[u8], cid: i32) -> Result<Vec<u8>, String> {
    let mut c = Cur { b: data, p: 0 };
    for _ in 0..4 {
        c.itf8()?; // ref id, start, span, n_records
    }
    c.ltf8_skip()?; // record counter
    let head = c.p;
    let n_blocks = c.itf8()?;
    let n_ids = c.itf8()?;
    let mut ids = Vec::new();
    for _ in 0..n_ids.clamp(0, 1000) {
        ids.push(c.itf8()?);
    }
    let tail = c.p;
    ids.push(cid);
    let mut out = data[..head].to_vec();
    itf8(&mut out, n_blocks + 1);
    itf8(&mut out, ids.len() as i32);
    for id in ids {
        itf8(&mut out, id);
    }
    out.extend_from_slice(&data[tail..]);
    Ok(out)
}

/// rebuild the CF / MF / NS / NP / TS / NF series of the (single) slice of the first data container
fn patch(file: &[u8], links: &[(u8, u32)]) -> Result<Vec<u8>, String> {
    let n = links.len();
    // file definition (26 bytes), header container
    let hc = container_at(file, 26)?;
    let off = hc.body.1;
    let dc = container_at(file, off)?;
    if dc.landmarks.len() != 1 {
        return Err(format!("{} slices", dc.landmarks.len()));
    }
    let mut blocks = blocks_of(&file[dc.body.0..dc.body.1])?;
    if blocks.iter().any(|b| b.method != 0) {
        return Err("compressed block".into());
    }
    if blocks.len() as i32 != dc.n_blocks {
        return Err(format!("{} blocks walked, container header says {}", blocks.len(), dc.n_blocks));
    }
    // CF: keep every bit but DETACHED | MATE_IS_DOWNSTREAM
    {
        let cf = blocks.iter_mut().find(|b| b.ctype == 4 && b.cid == 2).ok_or("no CF block")?;
        let mut c = Cur { b: &cf.data, p: 0 };
        let mut vals = Vec::new();
        while c.p < cf.data.len() {
            vals.push(c.itf8()?);
        }
        if vals.len() != n {
            return Err(format!("{} CF values for {n} records", vals.len()));
        }
        if let Some(v) = vals.iter().find(|&&v| v & 6 != 2) {
            return Err(format!("the writer wrote CF = {v}: a record that is not detached"));
        }
        let mut t = Vec::new();
        for (v, l) in vals.iter().zip(links) {
            itf8(&mut t, (v & !6) | (l.0 & 6) as i32);
        }
        *cf = raw_block(2, t);
    }
    let mut series: Vec<(i32, Vec<u8>)> = Vec::new();
    series.push((8, vec![0u8; n]));
    let mut ns = Vec::new();
    for _ in 0..n {
        itf8(&mut ns, -1);
    }
    series.push((9, ns));
    series.push((10, vec![0u8; n]));
    series.push((11, vec![0u8; n]));
    let mut nf = Vec::new();
    for l in links {
        if l.0 & 6 == 4 {
            itf8(&mut nf, l.1 as i32);
        }
    }
    series.push((12, nf));
    let mut added = 0;
    for (cid, data) in series {
        if let Some(b) = blocks.iter_mut().find(|b| b.ctype == 4 && b.cid == cid) {
            *b = raw_block(cid, data);
        } else {
            let sh = blocks.iter_mut().find(|b| b.ctype == 2).ok_or("no slice header")?;
            sh.data = slice_header_add_block(&sh.data, cid)?;
            sh.rsize = sh.data.len() as i32;
            blocks.push(raw_block(cid, data));
            added += 1;
        }
    }
    // the landmark (offset of the slice header block) is unchanged: only the compression header
    // block precedes it
    let mut body = Vec::new();
    for b in &blocks {
        put_block(&mut body, b);
    }
    let mut out = file[..off].to_vec();
    let hs = out.len();
    out.extend_from_slice(&(body.len() as i32).to_le_bytes());
    out.extend_from_slice(&dc.pre);
    itf8(&mut out, dc.n_blocks + added);
    itf8(&mut out, dc.landmarks.len() as i32);
    for l in &dc.landmarks {
        itf8(&mut out, *l);
    }
    let c = crc32(&out[hs..]);
    out.extend_from_slice(&c.to_le_bytes());
    out.extend_from_slice(&body);
    out.extend_from_slice(&file[dc.body.1..]);
    Ok(out)
}

// ------------------------------------------------------------------------------------------------
// running

type Cols = Vec<(u16, i64, usize, i32)>;

/// what the real reader makes of the patched file: Ok(columns) | Err("ReadErr:<kind>")
fn read_cols(refs: &Refs, file: &[u8]) -> Outcome<Result<Cols, String>> {
    nv::guarded(AssertUnwindSafe(|| -> Result<Cols, String> {
        let (_, back) = read_cram(refs, file).map_err(|e| format!("ReadErr:{}", nv::errkind(&e)))?;
        Ok(back
            .iter()
            .map(|r| {
                (
                    u16::from(r.flags()),
                    r.mate_reference_sequence_id().map(|x| x as i64).unwrap_or(-1),
                    r.mate_alignment_start().map(usize::from).unwrap_or(0),
                    r.template_length(),
                )
            })
            .collect())
    }))
}

pub fn run_mdist(c: &Case) -> Obs {
    if c.args.len() != 3 {
        return Obs::fail("Harness", "harness-mdist", format!("{} arguments", c.args.len()));
    }
    let refs = parse_refs(&c.args[0]);
    let ms = parse_mrecs(&c.args[1]);
    let links = match parse_links(&c.args[2]) {
        Some(l) if l.len() == ms.len() => l,
        _ => return Obs::fail("Harness", "harness-mdist", format!("bad links {}", c.args[2])),
    };
    if let Some(m) = ms.iter().find(|m| m.flag & 0x28 != 0 || m.mrid != -1 || m.mpos != 0 || m.tlen != 0) {
        return Obs::fail("Harness", "harness-mdist", format!("record {} carries mate fields", m.name));
    }
    let h = header_of(&refs);
    let recs: Vec<RecordBuf> = ms.iter().map(record_of).collect();
    let o = Opts { names: true, deltas: true, rps: recs.len() + 1, enc: "all:none".into() };
    let base = match nv::guarded(AssertUnwindSafe(|| write_cram(&o, &refs, &h, &recs))) {
        Outcome::Done(Ok(f)) => f,
        Outcome::Done(Err(e)) => return Obs::fail("Harness", "harness-mdist-write", format!("{e}")),
        Outcome::Panicked(m) => return Obs::fail("Harness", "harness-mdist-write", format!("panic: {m}")),
    };
    // self-check of the patching: with every record detached the patched file reads back as written
    let all_detached: Vec<(u8, u32)> = links.iter().map(|l| (2u8, l.1)).collect();
    let expect: Cols = ms.iter().map(|m| (m.flag, -1i64, 0usize, 0i32)).collect();
    let control = match patch(&base, &all_detached) {
        Ok(f) => f,
        Err(e) => return Obs::fail("Harness", "harness-mdist", format!("patch (control): {e}")),
    };
    match read_cols(&refs, &control) {
        Outcome::Done(Ok(v)) if v == expect => {}
        Outcome::Done(Ok(v)) => {
            return Obs::fail("Harness", "harness-mdist", format!("control file read back as {v:?}, expected {expect:?}"));
        }
        Outcome::Done(Err(e)) => return Obs::fail("Harness", "harness-mdist", format!("control file: {e}")),
        Outcome::Panicked(m) => return Obs::fail("Harness", "harness-mdist", format!("control file: panic {m}")),
    }
    let file = match patch(&base, &links) {
        Ok(f) => f,
        Err(e) => return Obs::fail("Harness", "harness-mdist", format!("patch: {e}")),
    };
    let nontrivial = links.iter().any(|l| l.0 & 6 == 4);
    match read_cols(&refs, &file) {
        Outcome::Panicked(m) => Obs::fail("Panic", "mdist-panic", m),
        Outcome::Done(Err(e)) => Obs::ok(e, nontrivial),
        Outcome::Done(Ok(v)) => {
            let obs = v.iter().map(|(f, r, p, t)| format!("{f},{r},{p},{t}")).collect::<Vec<_>>().join(";");
            if v.len() != ms.len() {
                return Obs::fail(obs, "harness-mdist", format!("{} records read back, {} written", v.len(), ms.len()));
            }
            if links.iter().all(|l| l.0 & 6 == 2) && v != expect {
                return Obs::fail(obs, "harness-mdist", "all-detached file did not read back as written");
            }
            Obs::ok(obs, nontrivial)
        }
    }
}

// ------------------------------------------------------------------------------------------------
// generation

fn simple_alignment(rng: &mut Rng, refb: &[u8]) -> (usize, String, Vec<u8>) {
    loop {
        if let Some(a) = cgen::gen_alignment(rng, refb, 20) {
            return (a.pos, a.cigar, a.seq);
        }
    }
}

pub fn push_mdist(rng: &mut Rng, w: &mut CaseWriter) {
    let nrefs = rng.range(1, 2) as usize;
    let refs: Refs = (0..nrefs)
        .map(|i| {
            let len = rng.range(60, 160) as usize;
            (format!("r{i}"), cgen::gen_ref(rng, len))
        })
        .collect();
    let n = rng.range(1, 8) as usize;
    let mut rs: Vec<MRec> = Vec::new();
    for i in 0..n {
        let mut flag: u16 = 1;
        if rng.chance(1, 2) {
            flag |= 16;
        }
        flag |= *rng.pick(&[0u16, 0x40, 0x80]);
        if rng.chance(1, 10) {
            flag |= 0x100;
        }
        let mut r =
            MRec { name: format!("q{i}"), flag, rid: -1, pos: 0, cigar: "*".into(), mrid: -1, mpos: 0, tlen: 0, seq: vec![] };
        if rng.below(10) < 6 {
            // mapped
            let rid = rng.below(nrefs as u64) as usize;
            let (pos, cigar, seq) = simple_alignment(rng, &refs[rid].1);
            r.rid = rid as i64;
            r.pos = pos;
            r.cigar = cigar;
            r.seq = seq;
            if rng.chance(1, 8) {
                // flagged unmapped but carrying an alignment
                r.flag |= 4;
            }
        } else {
            r.flag |= 4;
            let len = rng.range(0, 40) as usize;
            r.seq = (0..len).map(|_| *rng.pick(b"ACGTN")).collect();
            if rng.chance(1, 2) {
                // placed
                let rid = rng.below(nrefs as u64) as usize;
                r.rid = rid as i64;
                r.pos = rng.range(1, refs[rid].1.len() as u64) as usize;
            }
        }
        rs.push(r);
    }
    let all_valid = rng.chance(1, 3);
    let mut links: Vec<(u8, u32)> = Vec::new();
    for i in 0..n {
        let mut cf: u8 = if rng.chance(1, 2) {
            4
        } else if rng.chance(2, 3) {
            2
        } else {
            *rng.pick(&[0u8, 6])
        };
        // the distances that name a record of the slice: 0 ..= n - i - 2
        let room = n - i - 1;
        let valid = |rng: &mut Rng| rng.below(room as u64) as u32;
        let nf: u32 = if all_valid {
            if room == 0 {
                if cf == 4 {
                    cf = *rng.pick(&[2u8, 2, 0, 6]);
                }
                0
            } else {
                valid(rng)
            }
        } else if room > 0 && rng.chance(1, 2) {
            valid(rng)
        } else {
            *rng.pick(&[
                room as u32,     // the first distance out of range
                room as u32 + 1, // = n - i
                n as u32,
                127,
                128,
                16383,
                16384,
                2097151,
                2097152,
                268435455,
                268435456,
                2147483646,
                2147483647,
                2147483648,
                4294967295,
            ])
        };
        links.push((cf, nf));
    }
    w.push("mdist", vec![fmt_refs(&refs), fmt_mrecs(&rs), fmt_links(&links)]);
}
