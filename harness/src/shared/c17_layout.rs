//! C17: CSI and tabix byte layouts against the Coq model NV.Index.CsiLayout.
//!
//! Modelled kinds:
//!   csiw ms d hdr refs unplaced -> writer status, uncompressed payload of the file the real
//!                                  writer produced (BGZF inflated), and the index the real
//!                                  reader returns for that file
//!   csir <hex payload>          -> the real reader on bgzf(payload): index or Err
//!   tbiw hdr refs unplaced / tbir <hex payload>   the same for tabix
//!
//! Text formats (shared with ocaml/c17_driver.ml):
//!   hdr   = `-` | fmt:seq:beg:end:meta:skip:names   fmt in g b s v; end `-`|n; names hex,hex (`.` empty name, `_` none)
//!   chunks= a:b,a:b | `_`        bins = id=chunks;id=chunks | `_`
//!   csi ref = bins|loffs|meta    loffs = id:v,id:v | `_`   meta = a:b:c:d | `-`
//!   tbi ref = bins|meta|intervals
//!   refs joined by `/` (`_` none); unplaced `-` | n

use std::io::{Cursor, Read, Write};

use indexmap::IndexMap;
use noodles_bgzf::{self as bgzf, VirtualPosition as VP};
use noodles_csi::{
    self as csi,
    binning_index::{
        self, BinningIndex, ReferenceSequence as _,
        index::{
            Header, ReferenceSequence,
            header::{Builder as HB, Format, format::CoordinateSystem},
            reference_sequence::{Bin, Metadata, bin::Chunk, index::BinnedIndex, index::LinearIndex},
        },
    },
};
use noodles_tabix as tabix;
use nv::{Case, CaseWriter, Obs, Outcome, Rng};

// ------------------------------------------------------------------------------------------
// text <-> values

fn opt<T>(s: &str, f: impl Fn(&str) -> T) -> Option<T> {
    if s == "-" { None } else { Some(f(s)) }
}
fn list<T>(sep: char, s: &str, f: impl Fn(&str) -> T) -> Vec<T> {
    if s == "_" { vec![] } else { s.split(sep).map(f).collect() }
}
fn fmt_list<T>(sep: &str, l: &[T], f: impl Fn(&T) -> String) -> String {
    if l.is_empty() { "_".into() } else { l.iter().map(f).collect::<Vec<_>>().join(sep) }
}
fn fmt_opt<T>(o: Option<T>, f: impl Fn(T) -> String) -> String {
    match o {
        None => "-".into(),
        Some(x) => f(x),
    }
}
fn u(s: &str) -> u64 {
    s.parse().unwrap()
}
fn pairs(s: &str) -> Vec<(u64, u64)> {
    list(',', s, |p| {
        let (a, b) = p.split_once(':').unwrap();
        (u(a), u(b))
    })
}
fn fmt_pairs(cs: &[(u64, u64)]) -> String {
    fmt_list(",", cs, |(a, b)| format!("{a}:{b}"))
}

fn parse_hdr(s: &str) -> Option<Header> {
    opt(s, |s| {
        let f: Vec<&str> = s.split(':').collect();
        let fmt = match f[0] {
            "g" => Format::Generic(CoordinateSystem::Gff),
            "b" => Format::Generic(CoordinateSystem::Bed),
            "s" => Format::Sam,
            _ => Format::Vcf,
        };
        let names: Vec<Vec<u8>> = list(',', f[6], |n| if n == "." { vec![] } else { nv::unhex(n) });
        HB::default()
            .set_format(fmt)
            .set_reference_sequence_name_index(u(f[1]) as usize)
            .set_start_position_index(u(f[2]) as usize)
            .set_end_position_index(opt(f[3], |e| u(e) as usize))
            .set_line_comment_prefix(u(f[4]) as u8)
            .set_line_skip_count(u(f[5]) as u32)
            .set_reference_sequence_names(names.into_iter().map(|n| n.into()).collect())
            .build()
    })
}

fn fmt_hdr(h: Option<&Header>) -> String {
    fmt_opt(h, |h| {
        let names: Vec<Vec<u8>> = h.reference_sequence_names().iter().map(|n| n.to_vec()).collect();
        [
            match h.format() {
                Format::Generic(CoordinateSystem::Gff) => "g".to_string(),
                Format::Generic(CoordinateSystem::Bed) => "b".into(),
                Format::Sam => "s".into(),
                Format::Vcf => "v".into(),
            },
            h.reference_sequence_name_index().to_string(),
            h.start_position_index().to_string(),
            fmt_opt(h.end_position_index(), |e| e.to_string()),
            h.line_comment_prefix().to_string(),
            h.line_skip_count().to_string(),
            fmt_list(",", &names, |n| if n.is_empty() { ".".into() } else { nv::hex(n) }),
        ]
        .join(":")
    })
}

fn parse_meta(s: &str) -> Option<Metadata> {
    opt(s, |m| {
        let m: Vec<u64> = m.split(':').map(u).collect();
        Metadata::new(VP::from(m[0]), VP::from(m[1]), m[2], m[3])
    })
}
fn fmt_meta(m: Option<&Metadata>) -> String {
    fmt_opt(m, |m| {
        format!(
            "{}:{}:{}:{}",
            u64::from(m.start_position()),
            u64::from(m.end_position()),
            m.mapped_record_count(),
            m.unmapped_record_count()
        )
    })
}
fn parse_bins(s: &str) -> IndexMap<usize, Bin> {
    list(';', s, |b| {
        let (id, cs) = b.split_once('=').unwrap();
        let cs: Vec<Chunk> = pairs(cs).iter().map(|&(a, b)| Chunk::new(VP::from(a), VP::from(b))).collect();
        (u(id) as usize, Bin::new(cs))
    })
    .into_iter()
    .collect()
}
fn fmt_bins(bins: &IndexMap<usize, Bin>) -> String {
    let v: Vec<(usize, Vec<(u64, u64)>)> = bins
        .iter()
        .map(|(id, b)| (*id, b.chunks().iter().map(|c| (u64::from(c.start()), u64::from(c.end()))).collect()))
        .collect();
    fmt_list(";", &v, |(id, cs)| format!("{id}={}", fmt_pairs(cs)))
}

fn parse_cref(s: &str) -> ReferenceSequence<BinnedIndex> {
    let f: Vec<&str> = s.split('|').collect();
    let loffs: BinnedIndex = pairs(f[1]).into_iter().map(|(id, v)| (id as usize, VP::from(v))).collect();
    ReferenceSequence::new(parse_bins(f[0]), loffs, parse_meta(f[2]))
}
fn fmt_cref(r: &ReferenceSequence<BinnedIndex>) -> String {
    let loffs: Vec<(u64, u64)> = r.index().iter().map(|(id, v)| (*id as u64, u64::from(*v))).collect();
    [fmt_bins(r.bins()), fmt_pairs(&loffs), fmt_meta(r.metadata())].join("|")
}
fn parse_tref(s: &str) -> ReferenceSequence<LinearIndex> {
    let f: Vec<&str> = s.split('|').collect();
    let ivs: LinearIndex = list(',', f[2], |x| VP::from(u(x)));
    ReferenceSequence::new(parse_bins(f[0]), ivs, parse_meta(f[1]))
}
fn fmt_tref(r: &ReferenceSequence<LinearIndex>) -> String {
    let ivs: Vec<u64> = r.index().iter().map(|v| u64::from(*v)).collect();
    [fmt_bins(r.bins()), fmt_meta(r.metadata()), fmt_list(",", &ivs, |x| x.to_string())].join("|")
}

fn fmt_csi(i: &csi::Index) -> String {
    [
        i.min_shift().to_string(),
        i.depth().to_string(),
        fmt_hdr(i.header()),
        fmt_list("/", i.reference_sequences(), fmt_cref),
        fmt_opt(i.unplaced_unmapped_record_count(), |n| n.to_string()),
    ]
    .join(" ")
}
fn fmt_tbi(i: &tabix::Index) -> String {
    [
        fmt_hdr(i.header()),
        fmt_list("/", i.reference_sequences(), fmt_tref),
        fmt_opt(i.unplaced_unmapped_record_count(), |n| n.to_string()),
    ]
    .join(" ")
}

fn inflate(bgzf_bytes: &[u8]) -> std::io::Result<Vec<u8>> {
    let mut out = Vec::new();
    bgzf::io::Reader::new(bgzf_bytes).read_to_end(&mut out)?;
    Ok(out)
}
fn deflate(payload: &[u8]) -> Vec<u8> {
    let mut w = bgzf::io::Writer::new(Vec::new());
    w.write_all(payload).unwrap();
    w.finish().unwrap()
}

// ------------------------------------------------------------------------------------------
// running

/// everything of a CSI index except the per-bin loffsets and the header
fn csi_shape(i: &csi::Index) -> String {
    let refs: Vec<String> = i
        .reference_sequences()
        .iter()
        .map(|r| format!("{}|{}", fmt_bins(r.bins()), fmt_meta(r.metadata())))
        .collect();
    format!("{} {} {} {:?}", i.min_shift(), i.depth(), refs.join("/"), i.unplaced_unmapped_record_count())
}

/// the header as it must read back: `Some(end) == start` is the encoding of "no end column"
fn norm_hdr(h: Option<&Header>) -> String {
    let s = fmt_hdr(h);
    match h {
        Some(h) if h.end_position_index() == Some(h.start_position_index()) => {
            let mut f: Vec<String> = s.split(':').map(|x| x.to_string()).collect();
            f[3] = "-".into();
            f.join(":")
        }
        _ => s,
    }
}

pub fn run_csiw(c: &Case) -> Obs {
    let (ms, d) = (c.u(0) as u8, c.u(1) as u8);
    let mut b = binning_index::Index::<BinnedIndex>::builder()
        .set_min_shift(ms)
        .set_depth(d)
        .set_reference_sequences(list('/', &c.args[3], parse_cref));
    if let Some(h) = parse_hdr(&c.args[2]) {
        b = b.set_header(h);
    }
    if let Some(n) = opt(&c.args[4], u) {
        b = b.set_unplaced_unmapped_record_count(n);
    }
    let index: csi::Index = b.build();
    let ix = index.clone();
    let written = nv::guarded(move || {
        let mut w = csi::io::Writer::new(Vec::new());
        w.write_index(&ix).map(|_| w.into_inner().finish().unwrap())
    });
    let file = match written {
        Outcome::Panicked(_) => return Obs { obs: "Panic".into(), verdict: "skip".into(), nontrivial: false },
        Outcome::Done(Err(e)) => {
            return Obs { obs: format!("Err:{}", nv::errkind(&e)), verdict: "skip".into(), nontrivial: false };
        }
        Outcome::Done(Ok(f)) => f,
    };
    let payload = match inflate(&file) {
        Ok(p) => p,
        Err(e) => return Obs::fail("-", "csi-written-file-not-bgzf", format!("{e} {}", c.line())),
    };
    let aback = fmt_csi_res(&async_csi(file.clone()));
    let back = nv::guarded(move || csi::io::Reader::new(Cursor::new(file)).read_index());
    let valid = c.args.get(5).map(|s| s == "valid").unwrap_or(false);
    let sback = match &back {
        Outcome::Panicked(_) => "Panic".to_string(),
        Outcome::Done(Err(_)) => "Err".into(),
        Outcome::Done(Ok(b)) => fmt_csi(b),
    };
    if aback != sback {
        return Obs::fail(
            format!("{} {}", nv::hex(&payload), sback),
            "csi-async-reader-differs-from-sync",
            format!("sync={sback} async={aback} {}", c.line()),
        );
    }
    match back {
        Outcome::Panicked(m) => Obs::fail(format!("{} Panic", nv::hex(&payload)), "csi-read-panic", format!("{m} {}", c.line())),
        Outcome::Done(Err(e)) => {
            let o = format!("{} Err", nv::hex(&payload));
            if valid { Obs::fail(o, "csi-read-error", format!("{e} {}", c.line())) } else { Obs { obs: o, verdict: "skip".into(), nontrivial: false } }
        }
        Outcome::Done(Ok(back)) => {
            let o = format!("{} {}", nv::hex(&payload), fmt_csi(&back));
            if !valid {
                return Obs { obs: o, verdict: "skip".into(), nontrivial: false };
            }
            if csi_shape(&back) != csi_shape(&index) {
                return Obs::fail(o, "csi-roundtrip-shape-differs", c.line());
            }
            if fmt_hdr(back.header()) != norm_hdr(index.header()) {
                return Obs::fail(o, "csi-roundtrip-header-differs", c.line());
            }
            Obs::ok(o, !index.reference_sequences().is_empty())
        }
    }
}

pub fn run_csir(c: &Case) -> Obs {
    let file = deflate(&c.b(0));
    match nv::guarded(move || csi::io::Reader::new(Cursor::new(file)).read_index()) {
        Outcome::Panicked(m) => Obs::fail("Panic", "csi-read-panic", format!("{m} {}", c.line())),
        Outcome::Done(Err(_)) => Obs::ok("Err", true),
        Outcome::Done(Ok(i)) => Obs::ok(fmt_csi(&i), true),
    }
}

pub fn run_tbiw(c: &Case) -> Obs {
    let mut b = binning_index::Index::<LinearIndex>::builder().set_reference_sequences(list('/', &c.args[1], parse_tref));
    if let Some(h) = parse_hdr(&c.args[0]) {
        b = b.set_header(h);
    }
    if let Some(n) = opt(&c.args[2], u) {
        b = b.set_unplaced_unmapped_record_count(n);
    }
    let index: tabix::Index = b.build();
    let ix = index.clone();
    let written = nv::guarded(move || {
        let mut w = tabix::io::Writer::new(Vec::new());
        w.write_index(&ix).map(|_| w.into_inner().finish().unwrap())
    });
    let file = match written {
        Outcome::Panicked(_) => return Obs { obs: "Panic".into(), verdict: "skip".into(), nontrivial: false },
        Outcome::Done(Err(e)) => {
            return Obs { obs: format!("Err:{}", nv::errkind(&e)), verdict: "skip".into(), nontrivial: false };
        }
        Outcome::Done(Ok(f)) => f,
    };
    let payload = match inflate(&file) {
        Ok(p) => p,
        Err(e) => return Obs::fail("-", "tbi-written-file-not-bgzf", format!("{e} {}", c.line())),
    };
    let aback = fmt_tbi_res(&async_tbi(file.clone()));
    let back = nv::guarded(move || tabix::io::Reader::new(Cursor::new(file)).read_index());
    let valid = c.args.get(3).map(|s| s == "valid").unwrap_or(false);
    let sback = match &back {
        Outcome::Panicked(_) => "Panic".to_string(),
        Outcome::Done(Err(_)) => "Err".into(),
        Outcome::Done(Ok(b)) => fmt_tbi(b),
    };
    if aback != sback {
        return Obs::fail(
            format!("{} {}", nv::hex(&payload), sback),
            "tbi-async-reader-differs-from-sync",
            format!("sync={sback} async={aback} {}", c.line()),
        );
    }
    match back {
        Outcome::Panicked(m) => Obs::fail(format!("{} Panic", nv::hex(&payload)), "tbi-read-panic", format!("{m} {}", c.line())),
        Outcome::Done(Err(e)) => {
            let o = format!("{} Err", nv::hex(&payload));
            if valid { Obs::fail(o, "tbi-read-error", format!("{e} {}", c.line())) } else { Obs { obs: o, verdict: "skip".into(), nontrivial: false } }
        }
        Outcome::Done(Ok(back)) => {
            let o = format!("{} {}", nv::hex(&payload), fmt_tbi(&back));
            if !valid {
                return Obs { obs: o, verdict: "skip".into(), nontrivial: false };
            }
            // equal up to the header's "end column = start column" encoding of None
            let same = back.reference_sequences() == index.reference_sequences()
                && back.unplaced_unmapped_record_count() == index.unplaced_unmapped_record_count()
                && fmt_hdr(back.header()) == norm_hdr(index.header());
            if !same {
                return Obs::fail(o, "tbi-roundtrip-not-equal", c.line());
            }
            Obs::ok(o, !index.reference_sequences().is_empty())
        }
    }
}

pub fn run_tbir(c: &Case) -> Obs {
    let file = deflate(&c.b(0));
    match nv::guarded(move || tabix::io::Reader::new(Cursor::new(file)).read_index()) {
        Outcome::Panicked(m) => Obs::fail("Panic", "tbi-read-panic", format!("{m} {}", c.line())),
        Outcome::Done(Err(_)) => Obs::ok("Err", true),
        Outcome::Done(Ok(i)) => Obs::ok(fmt_tbi(&i), true),
    }
}

// ------------------------------------------------------------------------------------------
// generation

fn gen_u64(rng: &mut Rng) -> u64 {
    match rng.below(5) {
        0 => rng.below(100),
        1 => rng.below(1 << 32),
        2 => u64::MAX - rng.below(3),
        3 => 1u64 << rng.below(64),
        _ => rng.next(),
    }
}

fn gen_name(rng: &mut Rng, i: usize, allow_nul: bool) -> Vec<u8> {
    let k = rng.range(0, 6) as usize;
    let mut n: Vec<u8> = rng.bytes(k).into_iter().filter(|&b| allow_nul || b != 0).collect();
    if !rng.chance(1, 8) {
        n.extend_from_slice(format!("r{i}").as_bytes());
    }
    n
}

/// header text; `valid` = the writer must accept it
fn gen_hdr_text(rng: &mut Rng, valid: bool) -> String {
    let fmt = *rng.pick(&["g", "b", "s", "v"]);
    let generic = fmt == "g" || fmt == "b";
    let col = |rng: &mut Rng| -> u64 {
        if valid || rng.chance(3, 4) {
            match rng.below(4) {
                0 => rng.below(12),
                1 => (i32::MAX as u64) - 1 - rng.below(2),
                _ => rng.below(6),
            }
        } else {
            *rng.pick(&[u64::MAX, i32::MAX as u64, i32::MAX as u64 + 1, u64::MAX - 1, 1 << 40])
        }
    };
    let seq = col(rng);
    let beg = col(rng);
    let end = if generic {
        match rng.below(4) {
            0 => "-".to_string(),
            1 => beg.to_string(), // Some(start): reads back as None
            _ => col(rng).to_string(),
        }
    } else if !valid && rng.chance(1, 3) {
        col(rng).to_string() // SAM / VCF with an end column: InvalidInput
    } else {
        "-".into()
    };
    let meta = *rng.pick(&[b'#', b'@', b'>', 0x00, 0x01, 0xff, b' ']);
    let skip: u64 = if valid || rng.chance(3, 4) {
        *rng.pick(&[0u64, 1, 2, 100, i32::MAX as u64])
    } else {
        *rng.pick(&[i32::MAX as u64 + 1, u32::MAX as u64])
    };
    let nn = rng.range(0, 4) as usize;
    let mut names: Vec<Vec<u8>> = Vec::new();
    for i in 0..nn {
        let nul = !valid && rng.chance(1, 3);
        let n = gen_name(rng, i, nul);
        if !names.contains(&n) {
            names.push(n);
        }
    }
    let names = fmt_list(",", &names, |n| if n.is_empty() { ".".into() } else { nv::hex(n) });
    format!("{fmt}:{seq}:{beg}:{end}:{meta}:{skip}:{names}")
}

fn max_id(d: u64) -> u64 {
    ((1u64 << ((d + 1) * 3)) - 1) / 7
}

/// bin ids with ancestor chains (so the stored chain minimum differs from the own loffset)
fn gen_ids(rng: &mut Rng, d: u64, valid: bool) -> Vec<u64> {
    let lim = max_id(d.min(10));
    let mut ids: Vec<u64> = Vec::new();
    for _ in 0..rng.range(0, 4) {
        let mut id = match rng.below(4) {
            0 => rng.below(lim.min(10)),
            1 => lim - 1 - rng.below(lim.min(3)),
            _ => rng.below(lim),
        };
        if !valid && rng.chance(1, 12) {
            id = *rng.pick(&[lim + 1, lim, u32::MAX as u64, u32::MAX as u64 + 1, 1 << 40]);
        }
        loop {
            if !ids.contains(&id) {
                ids.push(id);
            }
            if id == 0 || id > lim || rng.chance(1, 3) {
                break;
            }
            id = (id - 1) / 8;
        }
    }
    // random order
    for i in (1..ids.len()).rev() {
        let j = rng.below(i as u64 + 1) as usize;
        ids.swap(i, j);
    }
    ids
}

fn gen_chunks(rng: &mut Rng) -> Vec<(u64, u64)> {
    (0..rng.range(0, 3))
        .map(|i| if i == 0 && rng.chance(1, 4) { (0, gen_u64(rng)) } else { (gen_u64(rng), gen_u64(rng)) })
        .collect()
}
fn gen_meta_text(rng: &mut Rng) -> String {
    if rng.chance(1, 2) {
        format!("{}:{}:{}:{}", gen_u64(rng), gen_u64(rng), gen_u64(rng), gen_u64(rng))
    } else {
        "-".into()
    }
}

pub fn gen_csiw(rng: &mut Rng, w: &mut CaseWriter) {
    let valid = rng.chance(3, 4);
    let (ms, d): (u64, u64) = if valid || rng.chance(1, 2) {
        *rng.pick(&[(14, 5), (14, 5), (12, 4), (14, 6), (3, 2), (16, 3), (1, 0), (33, 10), (4, 10), (63, 0), (20, 7)])
    } else {
        *rng.pick(&[(0, 5), (14, 11), (14, 21), (40, 8), (64, 0), (255, 255), (255, 1)])
    };
    let hdr = if rng.chance(1, 3) { "-".into() } else { gen_hdr_text(rng, valid) };
    let nref = rng.range(0, 3);
    let refs: Vec<String> = (0..nref)
        .map(|_| {
            let ids = gen_ids(rng, d, valid);
            let bins: Vec<String> = ids.iter().map(|id| format!("{id}={}", fmt_pairs(&gen_chunks(rng)))).collect();
            // loffsets: the same keys as the bins (as the Indexer builds them); otherwise also with
            // keys missing or added (the writer then uses 0 / the chain as it finds it)
            let mut keys = ids.clone();
            if !valid {
                keys.retain(|_| !rng.chance(1, 4));
                if rng.chance(1, 3) {
                    let k = rng.below(max_id(d.min(10)));
                    if !keys.contains(&k) {
                        keys.push(k);
                    }
                }
            }
            // first record at virtual position 0: loffsets (own and chain minima) equal to 0
            let base = if rng.chance(1, 3) { 0 } else { gen_u64(rng) >> 8 };
            let loffs: Vec<(u64, u64)> = keys
                .iter()
                .map(|&k| {
                    (k, match rng.below(6) {
                        0 => gen_u64(rng),
                        1 => base,
                        _ => base + rng.below(50),
                    })
                })
                .collect();
            // the metadata pseudo-bin needs Bin::metadata_id(depth): depth <= 10 or the writer panics
            let meta = gen_meta_text(rng);
            format!(
                "{}|{}|{}",
                if bins.is_empty() { "_".into() } else { bins.join(";") },
                fmt_pairs(&loffs),
                meta
            )
        })
        .collect();
    let unplaced = if rng.chance(1, 2) { gen_u64(rng).to_string() } else { "-".into() };
    w.push(
        "csiw",
        vec![
            ms.to_string(),
            d.to_string(),
            hdr,
            if refs.is_empty() { "_".into() } else { refs.join("/") },
            unplaced,
            if valid { "valid".into() } else { "any".into() },
        ],
    );
}

fn gen_tref_text(rng: &mut Rng, valid: bool) -> String {
    let mut ids = gen_ids(rng, 5, true);
    if !valid && rng.chance(1, 4) {
        let x = *rng.pick(&[37450u64, u32::MAX as u64, u32::MAX as u64 + 1, 40000]);
        if !ids.contains(&x) {
            ids.push(x);
        }
    }
    let bins: Vec<String> = ids.iter().map(|id| format!("{id}={}", fmt_pairs(&gen_chunks(rng)))).collect();
    let ivs: Vec<String> = (0..rng.range(0, 5)).map(|_| gen_u64(rng).to_string()).collect();
    format!(
        "{}|{}|{}",
        if bins.is_empty() { "_".into() } else { bins.join(";") },
        gen_meta_text(rng),
        if ivs.is_empty() { "_".into() } else { ivs.join(",") }
    )
}

pub fn gen_tbiw(rng: &mut Rng, w: &mut CaseWriter) {
    let valid = rng.chance(3, 4);
    let hdr = if !valid && rng.chance(1, 8) { "-".into() } else { gen_hdr_text(rng, valid) };
    let refs: Vec<String> = (0..rng.range(0, 3)).map(|_| gen_tref_text(rng, valid)).collect();
    let unplaced = if rng.chance(1, 2) { gen_u64(rng).to_string() } else { "-".into() };
    w.push(
        "tbiw",
        vec![
            hdr,
            if refs.is_empty() { "_".into() } else { refs.join("/") },
            unplaced,
            if valid { "valid".into() } else { "any".into() },
        ],
    );
}

// ---- raw payloads for the readers: a small serializer of its own with deliberate anomalies ----

fn p32(v: &mut Vec<u8>, n: i64) {
    v.extend_from_slice(&(n as i32).to_le_bytes());
}
fn p64(v: &mut Vec<u8>, n: u64) {
    v.extend_from_slice(&n.to_le_bytes());
}
fn odd(rng: &mut Rng, p: u64) -> bool {
    rng.chance(1, p)
}

/// tabix header / CSI aux bytes.  IMPORTANT for all raw payloads: the extracted model turns a
/// count field into a unary `nat`, so a payload must never make a reader (real or model) see a
/// large positive count.  Every anomaly below either fails at once, or keeps the parse aligned;
/// count and length fields are only ever small or negative.
fn gen_header_bytes(rng: &mut Rng, overshoot_ok: bool) -> Vec<u8> {
    let mut v = Vec::new();
    let fmt: i64 = if odd(rng, 20) {
        *rng.pick(&[0x10001, 0x20000, 3, 0x10002, -1, 0x7fff0000, 0x10000 + 65536 * 65535])
    } else {
        *rng.pick(&[0, 0x10000, 1, 2])
    };
    p32(&mut v, fmt);
    let col = |rng: &mut Rng| -> i64 { if odd(rng, 40) { *rng.pick(&[0, -1, i32::MAX as i64]) } else { rng.range(1, 6) as i64 } };
    p32(&mut v, col(rng));
    let beg = col(rng);
    p32(&mut v, beg);
    // SAM / VCF store 0; generic formats a column (equal to the start column = none)
    let samvcf = (fmt & 0xffff) == 1 || (fmt & 0xffff) == 2;
    let end = if odd(rng, 12) {
        if samvcf { col(rng) } else { 0 }
    } else if samvcf {
        0
    } else if odd(rng, 3) {
        beg
    } else {
        col(rng)
    };
    p32(&mut v, end);
    p32(&mut v, if odd(rng, 40) { *rng.pick(&[256, -1, 1000]) } else { *rng.pick(&[35, 64, 0, 255]) });
    p32(&mut v, if odd(rng, 40) { -1 } else { *rng.pick(&[0, 1, 7, i32::MAX as i64]) });
    let nn = rng.range(0, 3) as usize;
    let mut body = Vec::new();
    for i in 0..nn {
        let k = if odd(rng, 30) { 0 } else { i }; // sometimes a duplicate
        body.extend(gen_name(rng, k, false));
        body.push(0);
    }
    let mut l_nm = body.len() as i64;
    match rng.below(36) {
        0 if !body.is_empty() => {
            body.pop(); // last name not terminated: ExpectedEof
            l_nm -= 1;
        }
        1 => l_nm = -1,
        2 if overshoot_ok => l_nm += rng.range(1, 9) as i64, // limited by the aux `take`
        _ => {}
    }
    p32(&mut v, l_nm);
    v.extend(body);
    v
}

/// `last`: no reference follows; `short_tail`: at most 3 bytes follow the references
fn gen_bins_bytes(rng: &mut Rng, v: &mut Vec<u8>, csi: bool, metadata_id: u64, real_mid: bool, last_and_short_tail: bool) {
    // (id, is_meta)
    let mut entries: Vec<(u64, bool)> = gen_ids(rng, 5, true).into_iter().map(|id| (id, false)).collect();
    if odd(rng, 2) {
        let at = rng.below(entries.len() as u64 + 1) as usize;
        entries.insert(at, (metadata_id, true));
        if odd(rng, 25) {
            entries.push((metadata_id, true)); // duplicate metadata
        }
    }
    if odd(rng, 30) && !entries.is_empty() {
        let e = entries[0];
        entries.push(e); // duplicate bin
    }
    let n_bin: i64 = if odd(rng, 40) {
        if last_and_short_tail && odd(rng, 2) { entries.len() as i64 + 1 } else { -1 }
    } else {
        entries.len() as i64
    };
    p32(v, n_bin);
    for (id, is_meta) in entries {
        v.extend_from_slice(&(id as u32).to_le_bytes());
        if csi {
            p64(v, gen_u64(rng));
        }
        if is_meta {
            // a wrong chunk count only where the reader really takes this for the metadata bin
            p32(v, if real_mid && odd(rng, 25) { *rng.pick(&[1, 3, 0]) } else { 2 });
            for _ in 0..4 {
                p64(v, gen_u64(rng));
            }
        } else {
            let k = rng.range(0, 3);
            p32(v, if odd(rng, 50) { -1 } else { k as i64 });
            for _ in 0..k {
                p64(v, gen_u64(rng));
                p64(v, gen_u64(rng));
            }
        }
    }
}

/// trailer kinds: 0 none, 1 an n_no_coor, 2 one to three stray bytes, 3 more than eight bytes
fn gen_trailer(rng: &mut Rng, v: &mut Vec<u8>, kind: u64) {
    match kind {
        0 => {}
        1 => p64(v, gen_u64(rng)),
        2 => v.extend(std::iter::repeat_n(0x01u8, rng.range(1, 3) as usize)),
        _ => v.extend(std::iter::repeat_n(0x02u8, rng.range(9, 20) as usize)),
    }
}

pub fn gen_csir(rng: &mut Rng, w: &mut CaseWriter) {
    let mut v = Vec::new();
    v.extend_from_slice(if odd(rng, 50) { b"CSI\x02" } else { b"CSI\x01" });
    let (ms, d): (i64, i64) = if odd(rng, 12) {
        *rng.pick(&[(0, 5), (14, 11), (256, 5), (-1, 5), (14, -1), (14, 256), (40, 8), (34, 10), (255, 0), (64, 0)])
    } else {
        *rng.pick(&[(14, 5), (14, 6), (12, 4), (3, 2), (1, 0), (33, 10), (63, 0)])
    };
    p32(&mut v, ms);
    p32(&mut v, d);
    // aux
    match rng.below(4) {
        0 => p32(&mut v, if odd(rng, 30) { -1 } else { 0 }),
        _ => match rng.below(14) {
            0 => {
                // bytes of the aux block that the header parser does not consume stay in the
                // stream: 0xff.. is then a negative n_ref, 00 00 00 00 an n_ref of 0
                let h = gen_header_bytes(rng, false);
                let pad: Vec<u8> = if odd(rng, 2) { vec![0xff; rng.range(4, 8) as usize] } else { vec![0; 4 * rng.range(1, 2) as usize] };
                p32(&mut v, (h.len() + pad.len()) as i64);
                v.extend(&h);
                v.extend(pad);
            }
            1 => {
                // l_aux cuts the fixed part of the header
                let h = gen_header_bytes(rng, false);
                p32(&mut v, rng.range(1, 27) as i64);
                v.extend(&h);
            }
            _ => {
                let h = gen_header_bytes(rng, true);
                p32(&mut v, h.len() as i64);
                v.extend(&h);
            }
        },
    }
    let nref = rng.range(0, 3);
    let trailer = rng.below(4);
    let short_tail = trailer == 0 || trailer == 2;
    p32(&mut v, if odd(rng, 40) { if trailer == 0 && odd(rng, 2) { nref as i64 + 1 } else { -1 } } else { nref as i64 });
    let mid = if (0..=10).contains(&d) { max_id(d as u64) + 1 } else { 37450 };
    for i in 0..nref {
        let wrong = odd(rng, 10) && mid != 37450;
        gen_bins_bytes(rng, &mut v, true, if wrong { 37450 } else { mid }, !wrong, short_tail && i + 1 == nref);
    }
    gen_trailer(rng, &mut v, trailer);
    if odd(rng, 15) {
        let k = rng.below(v.len() as u64) as usize;
        v.truncate(k);
    }
    w.push("csir", vec![nv::hex(&v)]);
}

pub fn gen_tbir(rng: &mut Rng, w: &mut CaseWriter) {
    let mut v = Vec::new();
    v.extend_from_slice(if odd(rng, 50) { b"TBI\x02" } else { b"TBI\x01" });
    let nref = rng.range(0, 3);
    let trailer = rng.below(4);
    p32(&mut v, if odd(rng, 40) { if trailer == 0 && odd(rng, 2) { nref as i64 + 1 } else { -1 } } else { nref as i64 });
    v.extend(gen_header_bytes(rng, false));
    for _ in 0..nref {
        gen_bins_bytes(rng, &mut v, false, 37450, true, false);
        let k = rng.range(0, 4);
        p32(&mut v, if odd(rng, 50) { -1 } else { k as i64 });
        for _ in 0..k {
            p64(&mut v, gen_u64(rng));
        }
    }
    gen_trailer(rng, &mut v, trailer);
    if odd(rng, 15) {
        let k = rng.below(v.len() as u64) as usize;
        v.truncate(k);
    }
    w.push("tbir", vec![nv::hex(&v)]);
}

#[allow(dead_code)]
pub fn _unused(_: &dyn BinningIndex) {}

// ==========================================================================================
// fai / crai text layouts against NV.Index.TextIndex
//   faiw  namehex:len:pos:lb:lw;...      -> hex(text the real writer produced) + records read back | Err
//   fair  <hex text>                     -> records the real reader returns | Err
//   craiw rid:start:span:off:land:slen;... (rid/start `-` = None), crair <hex text>: the same
//         for crai, on the text inside the gzip member

fn fmt_fai(recs: &[noodles_fasta::fai::Record]) -> String {
    fmt_list(";", recs, |r| {
        format!("{}:{}:{}:{}:{}", nv::hex(r.name()), r.length(), r.position(), r.line_base_count(), r.line_width())
    })
}
fn fmt_crai(recs: &[noodles_cram::crai::Record]) -> String {
    fmt_list(";", recs, |r| {
        format!(
            "{}:{}:{}:{}:{}:{}",
            fmt_opt(r.reference_sequence_id(), |x| x.to_string()),
            fmt_opt(r.alignment_start(), |p| usize::from(p).to_string()),
            r.alignment_span(),
            r.offset(),
            r.landmark(),
            r.slice_length()
        )
    })
}

fn read_fai_text(text: Vec<u8>) -> String {
    match nv::guarded(move || noodles_fasta::fai::io::Reader::new(&text[..]).read_index()) {
        Outcome::Panicked(_) => "Panic".into(),
        Outcome::Done(Err(_)) => "Err".into(),
        Outcome::Done(Ok(i)) => fmt_fai(i.as_ref()),
    }
}
fn read_crai_text(text: &[u8]) -> String {
    let mut e = flate2::write::GzEncoder::new(Vec::new(), Default::default());
    e.write_all(text).unwrap();
    let gz = e.finish().unwrap();
    match nv::guarded(move || noodles_cram::crai::io::Reader::new(&gz[..]).read_index()) {
        Outcome::Panicked(_) => "Panic".into(),
        Outcome::Done(Err(_)) => "Err".into(),
        Outcome::Done(Ok(i)) => fmt_crai(&i),
    }
}

pub fn run_faiw(c: &Case) -> Obs {
    use std::num::NonZero;
    let recs: Vec<noodles_fasta::fai::Record> = list(';', &c.args[0], |r| {
        let f: Vec<&str> = r.split(':').collect();
        noodles_fasta::fai::Record::new(
            nv::unhex(f[0]),
            u(f[1]),
            u(f[2]),
            NonZero::new(u(f[3])).unwrap(),
            NonZero::new(u(f[4])).unwrap(),
        )
    });
    let names_ok = recs.iter().all(|r| !r.name().contains(&b'\t') && !r.name().contains(&b'\n'));
    let non_utf8 = recs.iter().any(|r| std::str::from_utf8(r.name()).is_err());
    let index = noodles_fasta::fai::Index::from(recs.clone());
    let mut text = Vec::new();
    if let Err(e) = noodles_fasta::fai::io::Writer::new(&mut text).write_index(&index) {
        return Obs::fail(format!("Err:{}", nv::errkind(&e)), "fai-write-error", c.line());
    }
    let back = read_fai_text(text.clone());
    let o = format!("{} {}", nv::hex(&text), back);
    let aback = match async_fai(text.clone()) {
        Ok(i) => fmt_fai(i.as_ref()),
        Err(e) => e,
    };
    if aback != back {
        return Obs::fail(o, "fai-async-reader-differs-from-sync", format!("sync={back} async={aback} {}", c.line()));
    }
    if !names_ok {
        return Obs { obs: o, verdict: "skip".into(), nontrivial: false };
    }
    if back == fmt_fai(&recs) {
        Obs::ok(o, !recs.is_empty())
    } else if non_utf8 && back == "Err" {
        // known class: the fai reader reads lines as UTF-8 `String`s while names are arbitrary bytes
        Obs::fail(o, "fai-non-utf8-name", c.line())
    } else {
        Obs::fail(o, "fai-roundtrip-not-equal", c.line())
    }
}

pub fn run_fair(c: &Case) -> Obs {
    Obs::ok(read_fai_text(c.b(0)), true)
}

pub fn run_craiw(c: &Case) -> Obs {
    let recs: Vec<noodles_cram::crai::Record> = list(';', &c.args[0], |r| {
        let f: Vec<&str> = r.split(':').collect();
        noodles_cram::crai::Record::new(
            opt(f[0], |x| u(x) as usize),
            opt(f[1], |x| noodles_core::Position::new(u(x) as usize).unwrap()),
            u(f[2]) as usize,
            u(f[3]),
            u(f[4]),
            u(f[5]),
        )
    });
    let valid = recs.iter().all(|r| r.reference_sequence_id().is_none_or(|x| x <= i32::MAX as usize));
    let mut w = noodles_cram::crai::io::Writer::new(Vec::new());
    if let Err(e) = w.write_index(&recs) {
        return Obs::fail(format!("Err:{}", nv::errkind(&e)), "crai-write-error", c.line());
    }
    let gz = match w.finish() {
        Ok(b) => b,
        Err(e) => return Obs::fail("-", "crai-finish-error", format!("{e} {}", c.line())),
    };
    let mut text = Vec::new();
    if let Err(e) = flate2::read::MultiGzDecoder::new(&gz[..]).read_to_end(&mut text) {
        return Obs::fail("-", "crai-written-file-not-gzip", format!("{e} {}", c.line()));
    }
    let gz2 = gz.clone();
    let back = match nv::guarded(move || noodles_cram::crai::io::Reader::new(&gz2[..]).read_index()) {
        Outcome::Panicked(_) => "Panic".to_string(),
        Outcome::Done(Err(_)) => "Err".into(),
        Outcome::Done(Ok(i)) => fmt_crai(&i),
    };
    let o = format!("{} {}", nv::hex(&text), back);
    let aback = match async_crai(gz.clone()) {
        Ok(i) => fmt_crai(&i),
        Err(e) => e,
    };
    if aback != back {
        return Obs::fail(o, "crai-async-reader-differs-from-sync", format!("sync={back} async={aback} {}", c.line()));
    }
    if !valid {
        return Obs { obs: o, verdict: "skip".into(), nontrivial: false };
    }
    if back == fmt_crai(&recs) { Obs::ok(o, !recs.is_empty()) } else { Obs::fail(o, "crai-roundtrip-not-equal", c.line()) }
}

pub fn run_crair(c: &Case) -> Obs {
    Obs::ok(read_crai_text(&c.b(0)), true)
}

fn gen_fai_name(rng: &mut Rng, i: usize) -> Vec<u8> {
    let k = rng.range(0, 6) as usize;
    let mut v: Vec<u8> = Vec::new();
    match rng.below(10) {
        0 => v = rng.bytes(k), // any bytes: may hold TAB / LF, may be invalid UTF-8
        1 => v = rng.bytes(k).into_iter().filter(|b| !matches!(b, b'\t' | b'\n')).collect(),
        _ => {
            for _ in 0..k {
                match rng.below(10) {
                    0 => v.extend_from_slice("é".as_bytes()),
                    1 => v.extend_from_slice("染".as_bytes()),
                    2 => v.extend_from_slice("𝄞".as_bytes()),
                    3 => v.push(b'\r'),
                    _ => v.push(rng.range(0x20, 0x7e) as u8),
                }
            }
        }
    }
    if !rng.chance(1, 6) {
        v.extend_from_slice(format!("s{i}").as_bytes());
    }
    v
}

pub fn gen_faiw(rng: &mut Rng, w: &mut CaseWriter) {
    let n = rng.range(0, 4) as usize;
    let recs: Vec<String> = (0..n)
        .map(|i| {
            format!(
                "{}:{}:{}:{}:{}",
                nv::hex(&gen_fai_name(rng, i)),
                gen_u64(rng),
                gen_u64(rng),
                gen_u64(rng).max(1),
                gen_u64(rng).max(1)
            )
        })
        .collect();
    w.push("faiw", vec![if recs.is_empty() { "_".into() } else { recs.join(";") }]);
}

fn gen_num_text(rng: &mut Rng, signed_ok: bool) -> String {
    match rng.below(14) {
        0 => format!("+{}", rng.below(1000)),
        1 => format!("00{}", rng.below(1000)),
        2 => "18446744073709551615".into(),
        3 => "18446744073709551616".into(),
        4 => "0".into(),
        5 => "".into(),
        6 => if signed_ok { "-1".into() } else { "-0".into() },
        7 => format!("-{}", rng.below(5)),
        8 => format!("{}x", rng.below(100)),
        9 => "2147483648".into(),
        10 => "2147483647".into(),
        _ => gen_u64(rng).min(1 << 40).to_string(),
    }
}

fn gen_text(rng: &mut Rng, nfields: usize, fai: bool) -> Vec<u8> {
    let mut v = Vec::new();
    let n = rng.range(0, 3);
    for i in 0..n {
        let clean = rng.chance(1, 2);
        let nf = if clean || rng.chance(3, 4) { nfields } else { nfields - 1 + 2 * rng.below(2) as usize };
        for j in 0..nf {
            if j > 0 {
                v.push(b'\t');
            }
            if fai && j == 0 {
                let mut name = gen_fai_name(rng, i as usize);
                name.retain(|b| !matches!(b, b'\t' | b'\n'));
                if !clean && rng.chance(1, 4) {
                    name.push(0xc3); // truncated UTF-8 sequence
                }
                v.extend(name);
            } else if clean {
                let x = if !fai && j == 0 {
                    if rng.chance(1, 3) { "-1".to_string() } else { rng.below(100).to_string() }
                } else {
                    gen_u64(rng).max(1).to_string()
                };
                v.extend(x.as_bytes());
            } else {
                v.extend(gen_num_text(rng, !fai && j == 0).as_bytes());
            }
        }
        match rng.below(8) {
            0 => v.extend(b"\r\n"),
            1 if i + 1 == n => {}           // no final newline
            2 if i + 1 == n => v.push(b'\r'), // bare CR at the end of the file: not stripped
            3 if !clean => v.extend(b"\n\n"), // an empty line
            _ => v.push(b'\n'),
        }
    }
    v
}

pub fn gen_fair(rng: &mut Rng, w: &mut CaseWriter) {
    w.push("fair", vec![nv::hex(&gen_text(rng, 5, true))]);
}

pub fn gen_craiw(rng: &mut Rng, w: &mut CaseWriter) {
    let n = rng.range(0, 4);
    let recs: Vec<String> = (0..n)
        .map(|_| {
            let rid = match rng.below(6) {
                0 => "-".to_string(),
                1 => (i32::MAX as u64 - rng.below(2)).to_string(),
                2 if rng.chance(1, 3) => (i32::MAX as u64 + 1 + rng.below(3)).to_string(), // does not read back
                _ => {
                    let sh = rng.below(31);
                    rng.below(1 << sh).to_string()
                }
            };
            let start = if rng.chance(1, 4) { "-".to_string() } else { gen_u64(rng).max(1).to_string() };
            format!("{rid}:{start}:{}:{}:{}:{}", gen_u64(rng), gen_u64(rng), gen_u64(rng), gen_u64(rng))
        })
        .collect();
    w.push("craiw", vec![if recs.is_empty() { "_".into() } else { recs.join(";") }]);
}

pub fn gen_crair(rng: &mut Rng, w: &mut CaseWriter) {
    w.push("crair", vec![nv::hex(&gen_text(rng, 6, false))]);
}

// ==========================================================================================
// the ASYNC index readers (tokio current-thread runtime): every index that is written is also read
// back with the async reader, which must return the same index as the sync reader -- and hence
// the written one, field by field (bins, chunks, loffsets including 0, metadata pseudo-bins,
// n_no_coor, header).  Result: Ok(index) | Err("Err" | "Panic").

pub fn block_on<F: std::future::Future>(f: F) -> F::Output {
    tokio::runtime::Builder::new_current_thread().build().unwrap().block_on(f)
}
fn arun<T>(f: impl FnOnce() -> std::io::Result<T> + std::panic::UnwindSafe) -> Result<T, String> {
    match nv::guarded(f) {
        Outcome::Panicked(_) => Err("Panic".into()),
        Outcome::Done(Err(_)) => Err("Err".into()),
        Outcome::Done(Ok(x)) => Ok(x),
    }
}
pub fn async_csi(file: Vec<u8>) -> Result<csi::Index, String> {
    arun(move || block_on(async move { csi::r#async::io::Reader::new(&file[..]).read_index().await }))
}
pub fn async_tbi(file: Vec<u8>) -> Result<tabix::Index, String> {
    arun(move || block_on(async move { tabix::r#async::io::Reader::new(&file[..]).read_index().await }))
}
pub fn async_bai(file: Vec<u8>) -> Result<noodles_bam::bai::Index, String> {
    arun(move || block_on(async move { noodles_bam::bai::r#async::io::Reader::new(&file[..]).read_index().await }))
}
pub fn async_gzi(file: Vec<u8>) -> Result<bgzf::gzi::Index, String> {
    arun(move || block_on(async move { bgzf::gzi::r#async::io::Reader::new(&file[..]).read_index().await }))
}
/// async gzi reader on arbitrary bytes, keeping the io::ErrorKind ("Err:<kind>"; "Panic")
pub fn async_gzi_kind(file: Vec<u8>) -> Result<bgzf::gzi::Index, String> {
    match nv::guarded(move || block_on(async move { bgzf::gzi::r#async::io::Reader::new(&file[..]).read_index().await })) {
        Outcome::Panicked(_) => Err("Panic".into()),
        Outcome::Done(Err(e)) => Err(format!("Err:{:?}", e.kind())),
        Outcome::Done(Ok(x)) => Ok(x),
    }
}
pub fn async_fai(text: Vec<u8>) -> Result<noodles_fasta::fai::Index, String> {
    arun(move || block_on(async move { noodles_fasta::fai::r#async::io::Reader::new(&text[..]).read_index().await }))
}
pub fn async_crai(gz: Vec<u8>) -> Result<noodles_cram::crai::Index, String> {
    arun(move || block_on(async move { noodles_cram::crai::r#async::io::Reader::new(&gz[..]).read_index().await }))
}

pub fn fmt_csi_res(r: &Result<csi::Index, String>) -> String {
    match r {
        Ok(i) => fmt_csi(i),
        Err(e) => e.clone(),
    }
}
pub fn fmt_tbi_res(r: &Result<tabix::Index, String>) -> String {
    match r {
        Ok(i) => fmt_tbi(i),
        Err(e) => e.clone(),
    }
}
