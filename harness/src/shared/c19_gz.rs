//! C19, fourth part: the gzip layer of a .crai file.
//!
//! `gz` cases carry index entries (those cram::fs::index returns on a generated -- possibly
//! multi-slice -- CRAM file, or random crai records incl. extreme field values), the way the gzip
//! member is built around the text crai::io::Writer produces, a mutation, and the BYTES of the
//! resulting file.  `run` rebuilds the file with the real writer (must give the same bytes), hands
//! it to the real crai::io::Reader (and, for untouched files, crai::fs::write + crai::fs::read through
//! the file system) and prints
//!   R=<entries | Err:Kind>   crai::io::Reader::read_index
//!   T=<hex | ->              the text flate2's single-member GzDecoder inflates
//!   F=<xfl | ->              the file is 1f 8b 08 00 00000000 XFL ff ++ payload ++ CRC32 ++ ISIZE of that text
//!   W=<0|1>                  the file is byte for byte the stored-block member built HERE from that text
//! The model (NV.CramIdx.Gz over C01's inflater and CRC-32) gets only the bytes and must print the same.
//!
//! variants: 0 = crai::io::Writer (the real .crai); 1 = flate2 GzBuilder with a random subset of
//! extra / filename / comment and level 0 / 1 / 6 / 9; 2 = as 1 with FHCRC set and the header CRC16
//! inserted; 3 = stored blocks built here (what NV.CramIdx.Gz.write_crai_gz_stored writes).
//! mutations: n; x<k> = k bytes appended after the member (never read); c<k> = cut to k bytes, k inside
//! the header or inside / right before the trailer; f<k>.<bit> = one bit flipped in ID1 ID2 CM, a
//! reserved FLG bit, MTIME / XFL / OS, or the trailer.  `gzb` cases (no model) damage the DEFLATE body:
//! the reader must fail (a cut: UnexpectedEof) and never panic.

use super::c19_multi::*;
use super::*;
use std::io::{Read as _, Write as _};

pub fn parse_entries_gz(s: &str) -> Vec<Entry> {
    if s == "_" {
        return Vec::new();
    }
    s.split(';')
        .map(|t| {
            let f: Vec<&str> = t.split(',').collect();
            (
                if f[0] == "*" { None } else { Some(f[0].parse().unwrap()) },
                if f[1] == "-" { None } else { Some(f[1].parse().unwrap()) },
                f[2].parse().unwrap(),
                f[3].parse().unwrap(),
                f[4].parse().unwrap(),
                f[5].parse().unwrap(),
            )
        })
        .collect()
}

fn crc32(b: &[u8]) -> u32 {
    let mut c = flate2::Crc::new();
    c.update(b);
    c.sum()
}

fn trailer(text: &[u8]) -> Vec<u8> {
    let mut t = crc32(text).to_le_bytes().to_vec();
    t.extend_from_slice(&(text.len() as u32).to_le_bytes());
    t
}

/// stored blocks of at most 65535 bytes, BFINAL on the last one
pub fn stored_member(text: &[u8]) -> Vec<u8> {
    let mut out = vec![0x1f, 0x8b, 8, 0, 0, 0, 0, 0, 4, 0xff];
    let mut rest = text;
    loop {
        let fin = rest.len() <= 65535;
        let n = rest.len().min(65535);
        out.push(if fin { 1 } else { 0 });
        out.extend_from_slice(&(n as u16).to_le_bytes());
        out.extend_from_slice(&(!(n as u16)).to_le_bytes());
        out.extend_from_slice(&rest[..n]);
        rest = &rest[n..];
        if fin {
            break;
        }
    }
    out.extend_from_slice(&trailer(text));
    out
}

fn real_member(entries: &[Entry]) -> std::io::Result<Vec<u8>> {
    let index: Vec<crai::Record> = entries.iter().map(record_of).collect();
    let mut w = crai::io::Writer::new(Vec::new());
    w.write_index(&index)?;
    w.finish()
}

fn single_gunzip(b: &[u8]) -> std::io::Result<Vec<u8>> {
    let mut out = Vec::new();
    flate2::read::GzDecoder::new(b).read_to_end(&mut out)?;
    Ok(out)
}

/// the member around `text`, by variant; `opt` selects the optional header fields and the level
fn member(variant: u64, opt: u64, entries: &[Entry]) -> Result<Vec<u8>, String> {
    let real = real_member(entries).map_err(|e| format!("write:{}", errkind(&e)))?;
    if variant == 0 {
        return Ok(real);
    }
    let text = single_gunzip(&real).map_err(|e| format!("gunzip:{}", errkind(&e)))?;
    if variant == 3 {
        return Ok(stored_member(&text));
    }
    let level = [0u32, 1, 6, 9][(opt & 3) as usize];
    let mut b = flate2::GzBuilder::new();
    let mut hdr_len = 10usize;
    if opt & 4 != 0 {
        let extra: Vec<u8> = (0..((opt >> 8) & 31)).map(|i| (i * 37 + opt) as u8).collect();
        hdr_len += 2 + extra.len();
        b = b.extra(extra);
    }
    if opt & 8 != 0 {
        let name = format!("s{}.cram.crai", opt >> 5);
        hdr_len += name.len() + 1;
        b = b.filename(name.into_bytes());
    }
    if opt & 16 != 0 {
        let cm = format!("index {}", opt >> 3);
        hdr_len += cm.len() + 1;
        b = b.comment(cm.into_bytes());
    }
    let mut enc = b.write(Vec::new(), flate2::Compression::new(level));
    enc.write_all(&text).map_err(|e| format!("enc:{}", errkind(&e)))?;
    let mut out = enc.finish().map_err(|e| format!("enc:{}", errkind(&e)))?;
    if variant == 2 {
        out[3] |= 2;
        let c = (crc32(&out[..hdr_len]) & 0xffff) as u16;
        out.splice(hdr_len..hdr_len, c.to_le_bytes());
    }
    Ok(out)
}

fn apply(bytes: &[u8], m: &str) -> Vec<u8> {
    let mut b = bytes.to_vec();
    if let Some(k) = m.strip_prefix('x') {
        let k: usize = k.parse().unwrap();
        b.extend((0..k).map(|i| (i * 131 + 7) as u8));
    } else if let Some(k) = m.strip_prefix('c') {
        b.truncate(k.parse().unwrap());
    } else if let Some(t) = m.strip_prefix('f') {
        let (k, bit) = t.split_once('.').unwrap();
        let k: usize = k.parse().unwrap();
        if k < b.len() {
            b[k] ^= 1 << bit.parse::<u32>().unwrap();
        }
    }
    b
}

fn fmt_read(r: &Outcome<std::io::Result<crai::Index>>) -> String {
    match r {
        Outcome::Done(Ok(i)) => fmt_entries(&i.iter().map(entry_of).collect::<Vec<_>>()),
        Outcome::Done(Err(e)) => format!("Err:{}", errkind(e)),
        Outcome::Panicked(_) => "Panic".into(),
    }
}

/// args: 0 entries, 1 variant, 2 opt, 3 mutation, 4 file hex
pub fn run_gz(c: &Case) -> Obs {
    let entries = parse_entries_gz(&c.args[0]);
    let variant = c.u(1);
    let opt = c.u(2);
    let m = c.args[3].clone();
    let clean = match member(variant, opt, &entries) {
        Ok(b) => b,
        Err(e) => return Obs::fail("-", "crai-member-build", e),
    };
    let file = apply(&clean, &m);
    if c.kind == "gz" && file != c.b(4) {
        return Obs::fail("-", "crai-writer-not-reproducible", format!("{} vs {} bytes", file.len(), c.b(4).len()));
    }
    let f2 = file.clone();
    let read = guarded(move || crai::io::Reader::new(&f2[..]).read_index());
    let text = single_gunzip(&file).ok();
    let framed = text.as_ref().and_then(|t| {
        let n = file.len();
        if n >= 18 && file[..8] == [0x1f, 0x8b, 8, 0, 0, 0, 0, 0] && file[9] == 0xff && file[n - 8..] == trailer(t)[..] {
            Some(file[8])
        } else {
            None
        }
    });
    let stored = text.as_ref().map(|t| stored_member(t) == file).unwrap_or(false);
    let obs = format!(
        "R={};T={};F={};W={}",
        fmt_read(&read),
        text.as_ref().map(|t| nv::hex(t)).unwrap_or_else(|| "-".into()),
        framed.map(|x| x.to_string()).unwrap_or_else(|| "-".into()),
        if stored { 1 } else { 0 }
    );
    // ---- the property on the implementation
    let want: Vec<Entry> = entries.clone();
    let verdict = (|| -> Result<(), (String, String)> {
        let got = match &read {
            Outcome::Panicked(msg) => return Err(("crai-read-panic".into(), msg.clone())),
            Outcome::Done(r) => r,
        };
        let same = |i: &crai::Index| i.iter().map(entry_of).collect::<Vec<_>>() == want;
        if c.kind == "gzb" {
            // damaged DEFLATE body: an error (a cut: UnexpectedEof); a flip the stream survives with the
            // same output (padding bits) may be accepted with the same index
            return match got {
                Err(e) if m.starts_with('c') && errkind(e) != "UnexpectedEof" => {
                    Err(("crai-cut-body-wrong-kind".into(), errkind(e)))
                }
                Err(_) => Ok(()),
                Ok(i) if !m.starts_with('c') && same(i) => Ok(()),
                Ok(_) => Err(("crai-damaged-body-accepted".into(), m.clone())),
            };
        }
        let tail8 = clean.len().saturating_sub(8);
        match (m.as_str(), got) {
            (_, Ok(i)) if m.starts_with('x') || m == "n" => {
                if !same(i) {
                    return Err(("crai-gz-roundtrip-differs".into(), fmt_read(&read)));
                }
            }
            (_, Err(e)) if m == "n" || m.starts_with('x') => {
                return Err(("crai-gz-roundtrip-error".into(), errkind(e)));
            }
            (_, Ok(i)) if m.starts_with('c') => {
                return Err(("crai-truncated-member-accepted".into(), fmt_entries(&i.iter().map(entry_of).collect::<Vec<_>>())));
            }
            (_, Err(e)) if m.starts_with('c') => {
                if errkind(e) != "UnexpectedEof" {
                    return Err(("crai-truncated-member-wrong-kind".into(), errkind(e)));
                }
            }
            (_, Ok(i)) => {
                // a flip: only the ignored header bytes may be accepted, and then with the same index
                let k: usize = m[1..].split('.').next().unwrap().parse().unwrap();
                if k >= tail8 || k < 4 || !same(i) {
                    return Err(("crai-damaged-member-accepted".into(), m.clone()));
                }
            }
            (_, Err(_)) => {}
        }
        if variant == 0 && m == "n" {
            // crai::fs::write + crai::fs::read through the file system
            let path = temp_path("crai", c);
            let _g = TempFile(path.clone());
            let index: Vec<crai::Record> = entries.iter().map(record_of).collect();
            let p = path.clone();
            let r = guarded(move || crai::fs::write(&p, &index).and_then(|_| crai::fs::read(&p)));
            match r {
                Outcome::Done(Ok(i)) if same(&i) => {}
                other => return Err(("crai-fs-roundtrip-differs".into(), fmt_read(&other))),
            }
            match std::fs::read(&path) {
                Ok(b) if b == clean => {}
                _ => return Err(("crai-fs-write-differs-from-io-writer".into(), String::new())),
            }
        }
        Ok(())
    })();
    let nontrivial = !entries.is_empty() || m != "n";
    Obs::ok(if c.kind == "gz" { obs } else { "-".into() }, nontrivial).with_verdict(verdict)
}

fn random_entries(rng: &mut Rng, n: usize) -> Vec<Entry> {
    (0..n)
        .map(|_| {
            let big = |rng: &mut Rng| match rng.below(6) {
                0 => u64::MAX,
                1 => rng.next(),
                2 => 0,
                _ => rng.below(1 << 20),
            };
            if rng.chance(1, 5) {
                (None, None, 0, big(rng), big(rng), big(rng))
            } else {
                let rid = match rng.below(8) {
                    0 => i32::MAX as usize,
                    1 => rng.below(1 << 31) as usize,
                    _ => rng.below(40) as usize,
                };
                let start = match rng.below(8) {
                    0 => (usize::MAX >> 1) as u64,
                    _ => rng.range(1, 1 << 28),
                };
                let span = match rng.below(8) {
                    0 => (usize::MAX >> 1) as u64,
                    1 => 0,
                    _ => rng.range(1, 1 << 20),
                };
                (Some(rid), Some(start), span, big(rng), big(rng), big(rng))
            }
        })
        .collect()
}

fn real_cram_entries(rng: &mut Rng, i: u64) -> Option<Vec<Entry>> {
    let mut spec = gen_spec(rng, i * 7 + 1);
    spec.per_slice = rng.range(1, 4) as usize;
    let (a, _) = mbase(rng, &spec, true)?;
    let repo = repository(&spec);
    let raw = write_cram(&spec, &repo).ok()?;
    let (_p0, conts, tail) = walk_m(&raw).ok()?;
    let bytes = merge(&raw, &conts, tail, &parse_groups(&a[5]), false).ok()?;
    let path = std::env::temp_dir().join(format!("nv-c19-gz-{}-{}.cram", std::process::id(), i));
    std::fs::write(&path, &bytes).ok()?;
    let idx = guarded({
        let p = path.clone();
        move || cram::fs::index(&p)
    });
    let _ = std::fs::remove_file(&path);
    match idx {
        Outcome::Done(Ok(idx)) => Some(idx.iter().map(entry_of).collect()),
        _ => None,
    }
}

pub fn generate_gz(rng: &mut Rng, thorough: bool, w: &mut CaseWriter) {
    let n = if thorough { 4000 } else { 260 };
    for i in 0..n {
        let entries = if i % 2 == 0 {
            match real_cram_entries(rng, i) {
                Some(e) => e,
                None => continue,
            }
        } else {
            let k = match rng.below(10) {
                0 => 0,
                1 => rng.range(30, 120) as usize,
                _ => rng.range(1, 12) as usize,
            };
            random_entries(rng, k)
        };
        let variant = match rng.below(8) {
            0 | 1 | 2 | 3 => 0,
            4 => 1,
            5 => 2,
            _ => 3,
        };
        let opt = rng.below(1 << 13);
        let Ok(clean) = member(variant, opt, &entries) else { continue };
        // header length of this member
        let mut hl = 10usize;
        if variant == 1 || variant == 2 {
            if opt & 4 != 0 {
                hl += 2 + ((opt >> 8) & 31) as usize;
            }
            if opt & 8 != 0 {
                hl += format!("s{}.cram.crai", opt >> 5).len() + 1;
            }
            if opt & 16 != 0 {
                hl += format!("index {}", opt >> 3).len() + 1;
            }
            if variant == 2 {
                hl += 2;
            }
        }
        let len = clean.len();
        let m = match rng.below(10) {
            0 => format!("x{}", rng.range(1, 40)),
            1 => format!("c{}", rng.below(hl as u64)),
            2 => format!("c{}", rng.range(len as u64 - 8, len as u64 - 1)),
            3 => format!("f{}.{}", rng.below(3), rng.below(8)),
            4 => format!("f3.{}", rng.range(5, 7)),
            5 => format!("f{}.{}", rng.range(4, 9), rng.below(8)),
            6 => format!("f{}.{}", rng.range(len as u64 - 8, len as u64 - 1), rng.below(8)),
            _ => "n".to_string(),
        };
        let file = apply(&clean, &m);
        w.push(
            "gz",
            vec![fmt_entries(&entries), variant.to_string(), opt.to_string(), m.clone(), nv::hex(&file)],
        );
        // body damage (not modelled)
        if i % 3 == 0 && len > hl + 8 + 1 {
            let k = rng.range(hl as u64, len as u64 - 9);
            let m = if rng.chance(1, 2) { format!("c{k}") } else { format!("f{k}.{}", rng.below(8)) };
            w.push("gzb", vec![fmt_entries(&entries), variant.to_string(), opt.to_string(), m, "_".into()]);
        }
    }
    if thorough {
        // texts of several stored blocks (> 65535 bytes)
        for _ in 0..2 {
            let entries = random_entries(rng, 2600);
            for variant in [0u64, 3] {
                let Ok(clean) = member(variant, 2, &entries) else { continue };
                w.push("gz", vec![fmt_entries(&entries), variant.to_string(), "2".into(), "n".into(), nv::hex(&clean)]);
            }
        }
    }
}
