//! Script-driven adversarial `Read` / `Write` wrappers (the model's delivery / fault scripts).

use std::{
    io::{self, Read, Seek, SeekFrom, Write},
    sync::{Arc, Mutex},
};

/// One event of a delivery script for a byte source.
#[derive(Clone, Copy, Debug, PartialEq, Eq)]
pub enum Deliver {
    /// deliver at most k bytes (k >= 1)
    Bytes(usize),
    /// return ErrorKind::Interrupted without consuming anything
    Interrupted,
}

/// A `Read` over a byte slice that follows a delivery script; when the script is exhausted it
/// repeats its last `Bytes` event (or delivers everything asked for).
pub struct ScriptedReader {
    pub data: Vec<u8>,
    pub pos: usize,
    pub script: Vec<Deliver>,
    pub at: usize,
    pub calls: usize,
}

impl ScriptedReader {
    pub fn new(data: Vec<u8>, script: Vec<Deliver>) -> Self {
        Self {
            data,
            pos: 0,
            script,
            at: 0,
            calls: 0,
        }
    }
}

impl Read for ScriptedReader {
    fn read(&mut self, buf: &mut [u8]) -> io::Result<usize> {
        self.calls += 1;
        let ev = if self.at < self.script.len() {
            let e = self.script[self.at];
            self.at += 1;
            e
        } else {
            Deliver::Bytes(usize::MAX)
        };
        match ev {
            Deliver::Interrupted => Err(io::Error::from(io::ErrorKind::Interrupted)),
            Deliver::Bytes(k) => {
                let n = k.max(1).min(buf.len()).min(self.data.len() - self.pos);
                buf[..n].copy_from_slice(&self.data[self.pos..self.pos + n]);
                self.pos += n;
                Ok(n)
            }
        }
    }
}

impl Seek for ScriptedReader {
    fn seek(&mut self, pos: SeekFrom) -> io::Result<u64> {
        let new = match pos {
            SeekFrom::Start(n) => n as i128,
            SeekFrom::End(d) => self.data.len() as i128 + d as i128,
            SeekFrom::Current(d) => self.pos as i128 + d as i128,
        };
        if new < 0 {
            return Err(io::Error::from(io::ErrorKind::InvalidInput));
        }
        self.pos = (new as usize).min(self.data.len());
        Ok(new as u64)
    }
}

/// One event of a fault script for a sink; one event is consumed per `write` call and per
/// `flush` call.
#[derive(Clone, Copy, Debug, PartialEq, Eq)]
pub enum Fault {
    /// accept the whole buffer
    Full,
    /// accept at most k bytes (k >= 1)
    Short(usize),
    Interrupted,
    /// fail with this error kind
    Fail(io::ErrorKind),
}

#[derive(Default, Debug)]
pub struct SinkState {
    pub bytes: Vec<u8>,
    pub script: Vec<Fault>,
    pub at: usize,
    pub write_calls: usize,
    pub flush_calls: usize,
    pub failures_injected: usize,
}

/// A sink whose bytes survive dropping the writer that owns it.
#[derive(Clone, Default)]
pub struct FaultySink(pub Arc<Mutex<SinkState>>);

impl FaultySink {
    pub fn new(script: Vec<Fault>) -> Self {
        FaultySink(Arc::new(Mutex::new(SinkState {
            script,
            ..Default::default()
        })))
    }
    pub fn bytes(&self) -> Vec<u8> {
        self.0.lock().unwrap().bytes.clone()
    }
    pub fn failures(&self) -> usize {
        self.0.lock().unwrap().failures_injected
    }
    pub fn calls(&self) -> usize {
        let s = self.0.lock().unwrap();
        s.write_calls + s.flush_calls
    }
    fn next(s: &mut SinkState) -> Fault {
        if s.at < s.script.len() {
            let e = s.script[s.at];
            s.at += 1;
            e
        } else {
            Fault::Full
        }
    }
}

impl Write for FaultySink {
    fn write(&mut self, buf: &[u8]) -> io::Result<usize> {
        let mut s = self.0.lock().unwrap();
        s.write_calls += 1;
        match Self::next(&mut s) {
            Fault::Full => {
                s.bytes.extend_from_slice(buf);
                Ok(buf.len())
            }
            Fault::Short(k) => {
                let n = k.max(1).min(buf.len());
                s.bytes.extend_from_slice(&buf[..n]);
                Ok(n)
            }
            Fault::Interrupted => Err(io::Error::from(io::ErrorKind::Interrupted)),
            Fault::Fail(k) => {
                s.failures_injected += 1;
                Err(io::Error::new(k, "injected"))
            }
        }
    }
    fn flush(&mut self) -> io::Result<()> {
        let mut s = self.0.lock().unwrap();
        s.flush_calls += 1;
        match Self::next(&mut s) {
            Fault::Fail(k) => {
                s.failures_injected += 1;
                Err(io::Error::new(k, "injected"))
            }
            // flush cannot be short; Interrupted from flush is not retried by std, treat as ok
            _ => Ok(()),
        }
    }
}
