//! Shared plumbing for the per-property correspondence harness binaries (`src/bin/cXX.rs`).
//!
//! Every binary has the same command line:
//!
//!   cXX gen <seed> <tier> <cases-out>     write one case per line:  id \t kind \t payload...
//!   cXX run <cases-in> <out>              run the real noodles code on each case and write
//!                                         id \t obs \t verdict \t nontrivial(0|1)
//!
//! `obs` is the canonical observation that the extracted Coq model must reproduce (or `-` when
//! the case has no model and is an implementation-only property oracle); `verdict` is `ok`,
//! `skip`, or `fail <tag> <detail>` where `<tag>` names the *input class* that failed (this is
//! what known_findings.json is keyed on).

use std::{
    fmt::Write as _,
    fs,
    io::{self, BufRead, BufWriter, Write},
    panic::{self, UnwindSafe},
};

pub mod adversary;

// ---------------------------------------------------------------------------------------------
// Deterministic PRNG: every random choice of a run derives from one SplitMix64 state.

#[derive(Clone, Debug)]
pub struct Rng(pub u64);

impl Rng {
    pub fn new(seed: u64) -> Self {
        Rng(seed.wrapping_mul(0x9E37_79B9_7F4A_7C15) ^ 0xD1B5_4A32_D192_ED03)
    }
    pub fn next(&mut self) -> u64 {
        self.0 = self.0.wrapping_add(0x9E37_79B9_7F4A_7C15);
        let mut z = self.0;
        z = (z ^ (z >> 30)).wrapping_mul(0xBF58_476D_1CE4_E5B9);
        z = (z ^ (z >> 27)).wrapping_mul(0x94D0_49BB_1331_11EB);
        z ^ (z >> 31)
    }
    /// uniform in 0..n (n > 0)
    pub fn below(&mut self, n: u64) -> u64 {
        self.next() % n
    }
    /// uniform in lo..=hi
    pub fn range(&mut self, lo: u64, hi: u64) -> u64 {
        lo + self.below(hi - lo + 1)
    }
    pub fn chance(&mut self, num: u64, den: u64) -> bool {
        self.below(den) < num
    }
    pub fn pick<'a, T>(&mut self, xs: &'a [T]) -> &'a T {
        &xs[self.below(xs.len() as u64) as usize]
    }
    pub fn bytes(&mut self, n: usize) -> Vec<u8> {
        (0..n).map(|_| self.next() as u8).collect()
    }
    pub fn fork(&mut self) -> Rng {
        Rng(self.next())
    }
}

// ---------------------------------------------------------------------------------------------
// Hex helpers (payloads are hex so that a case is one line of plain ASCII).

pub fn hex(bs: &[u8]) -> String {
    if bs.is_empty() {
        return "_".into();
    }
    let mut s = String::with_capacity(bs.len() * 2);
    for b in bs {
        write!(s, "{b:02x}").unwrap();
    }
    s
}

pub fn unhex(s: &str) -> Vec<u8> {
    if s == "_" {
        return Vec::new();
    }
    let b = s.as_bytes();
    assert!(b.len() % 2 == 0, "odd hex length");
    (0..b.len() / 2)
        .map(|i| {
            let h = (b[2 * i] as char).to_digit(16).expect("hex") as u8;
            let l = (b[2 * i + 1] as char).to_digit(16).expect("hex") as u8;
            h << 4 | l
        })
        .collect()
}

/// Canonical image of an io::Error: its kind only (messages are never compared).
pub fn errkind(e: &io::Error) -> String {
    format!("{:?}", e.kind())
}

// ---------------------------------------------------------------------------------------------
// Panics are observations, not crashes.

pub enum Outcome<T> {
    Done(T),
    Panicked(String),
}

pub fn silence_panics() {
    panic::set_hook(Box::new(|_| {}));
}

pub fn guarded<T>(f: impl FnOnce() -> T + UnwindSafe) -> Outcome<T> {
    match panic::catch_unwind(f) {
        Ok(v) => Outcome::Done(v),
        Err(p) => {
            let msg = if let Some(s) = p.downcast_ref::<&str>() {
                (*s).to_string()
            } else if let Some(s) = p.downcast_ref::<String>() {
                s.clone()
            } else {
                "panic".to_string()
            };
            Outcome::Panicked(msg.replace(['\t', '\n'], " "))
        }
    }
}

// ---------------------------------------------------------------------------------------------
// Case files.

#[derive(Clone, Debug)]
pub struct Case {
    pub id: String,
    pub kind: String,
    pub args: Vec<String>,
}

impl Case {
    pub fn new(id: impl Into<String>, kind: &str, args: Vec<String>) -> Self {
        Case {
            id: id.into(),
            kind: kind.into(),
            args,
        }
    }
    pub fn line(&self) -> String {
        let mut s = format!("{}\t{}", self.id, self.kind);
        for a in &self.args {
            s.push('\t');
            s.push_str(a);
        }
        s
    }
    pub fn u(&self, i: usize) -> u64 {
        self.args[i].parse().unwrap_or_else(|_| panic!("arg {i} of {}", self.line()))
    }
    pub fn i(&self, i: usize) -> i64 {
        self.args[i].parse().unwrap_or_else(|_| panic!("arg {i} of {}", self.line()))
    }
    pub fn b(&self, i: usize) -> Vec<u8> {
        unhex(&self.args[i])
    }
}

pub fn read_cases(path: &str) -> Vec<Case> {
    let f = fs::File::open(path).unwrap_or_else(|e| panic!("open {path}: {e}"));
    io::BufReader::new(f)
        .lines()
        .map(|l| l.unwrap())
        .filter(|l| !l.is_empty())
        .map(|l| {
            let mut it = l.split('\t');
            let id = it.next().unwrap().to_string();
            let kind = it.next().unwrap_or("").to_string();
            Case {
                id,
                kind,
                args: it.map(|s| s.to_string()).collect(),
            }
        })
        .collect()
}

pub struct CaseWriter {
    w: BufWriter<fs::File>,
    n: usize,
}

impl CaseWriter {
    pub fn create(path: &str) -> Self {
        CaseWriter {
            w: BufWriter::new(fs::File::create(path).unwrap_or_else(|e| panic!("create {path}: {e}"))),
            n: 0,
        }
    }
    /// id is assigned sequentially: "<n>"
    pub fn push(&mut self, kind: &str, args: Vec<String>) {
        let c = Case::new(self.n.to_string(), kind, args);
        writeln!(self.w, "{}", c.line()).unwrap();
        self.n += 1;
    }
    pub fn len(&self) -> usize {
        self.n
    }
    pub fn is_empty(&self) -> bool {
        self.n == 0
    }
}

/// Result of running one case on the implementation.
pub struct Obs {
    /// canonical observation to be compared with the model ("-" = not modelled)
    pub obs: String,
    /// "ok" | "skip" | "fail <tag> <detail>"
    pub verdict: String,
    pub nontrivial: bool,
}

impl Obs {
    pub fn ok(obs: impl Into<String>, nontrivial: bool) -> Self {
        Obs {
            obs: obs.into(),
            verdict: "ok".into(),
            nontrivial,
        }
    }
    pub fn fail(obs: impl Into<String>, tag: &str, detail: impl AsRef<str>) -> Self {
        Obs {
            obs: obs.into(),
            verdict: format!("fail {tag} {}", detail.as_ref().replace(['\t', '\n'], " ")),
            nontrivial: true,
        }
    }
    pub fn with_verdict(mut self, r: Result<(), (String, String)>) -> Self {
        if let Err((tag, detail)) = r {
            self.verdict = format!("fail {tag} {}", detail.replace(['\t', '\n'], " "));
        }
        self
    }
}

/// Standard `main` for a harness binary (cases run in parallel).
pub fn main_with(
    generate: impl Fn(&mut Rng, &str, &mut CaseWriter),
    run: impl Fn(&Case) -> Obs + Sync,
) {
    main_impl(generate, run, false)
}

/// Same, but cases run one after the other (for harnesses that use process-global state such as
/// the bgzf worker gate or a private thread pool).
pub fn main_serial(
    generate: impl Fn(&mut Rng, &str, &mut CaseWriter),
    run: impl Fn(&Case) -> Obs + Sync,
) {
    main_impl(generate, run, true)
}

fn main_impl(
    generate: impl Fn(&mut Rng, &str, &mut CaseWriter),
    run: impl Fn(&Case) -> Obs + Sync,
    force_serial: bool,
) {
    let args: Vec<String> = std::env::args().collect();
    if args.get(1).map(|s| s.as_str()) == Some("run") && std::env::var("NV_SHOW_PANICS").is_err() {
        silence_panics();
    }
    match args.get(1).map(|s| s.as_str()) {
        Some("gen") => {
            let seed: u64 = args[2].parse().expect("seed");
            let tier = args[3].as_str();
            let mut w = CaseWriter::create(&args[4]);
            let mut rng = Rng::new(seed);
            generate(&mut rng, tier, &mut w);
        }
        Some("run") => {
            use rayon::prelude::*;
            let cases = read_cases(&args[2]);
            let serial = force_serial || std::env::var("NV_SERIAL").is_ok();
            let run1 = |c: &Case| -> String {
                let o = match guarded(panic::AssertUnwindSafe(|| run(c))) {
                    Outcome::Done(o) => o,
                    Outcome::Panicked(m) => Obs::fail("-", "harness-panic", m),
                };
                format!(
                    "{}\t{}\t{}\t{}",
                    c.id,
                    o.obs,
                    o.verdict,
                    if o.nontrivial { 1 } else { 0 }
                )
            };
            let lines: Vec<String> = if serial {
                cases.iter().map(run1).collect()
            } else {
                cases.par_iter().map(run1).collect()
            };
            let mut w = BufWriter::new(fs::File::create(&args[3]).expect("create out"));
            for l in lines {
                writeln!(w, "{l}").unwrap();
            }
        }
        _ => {
            eprintln!("usage: {} gen <seed> <tier> <out> | run <cases> <out>", args[0]);
            std::process::exit(2);
        }
    }
}
