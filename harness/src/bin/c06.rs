//! C06: SAM text records and headers round-trip; SAM and BAM carry the same content.
//!
//! Modelled kinds (obs compared with the extracted Coq model NV.Sam.Record):
//!   wr  refs ftab dtab <record fields...>   -> hex of the line sam::io::Writer emits | Err
//!   wh  HD SQ RG PG CO                        -> hex of the header text sam::io::Writer emits | Err
//!   ph  hextext                               -> canonical dump of the header sam::io::Reader parses | Err
//!   pr  refs ptab hexline                   -> canonical dump of the record sam::io::Reader parses | Err:<column>
//!   lzc refs ptab ftab hexline              -> lazy optional fields: Data::iter collected | try_from_alignment_record (c06_part5.rs)
//!   tb  nref <record fields...>             -> hex of the BAM block for the RecordBuf (bridge to the C05 model) | Err:<kind>
//!   sf  ptab hextext                        -> whole SAM file read: header # records # Eof|Err:<column>
//!   sfw HD SQ RG PG CO n <record fields>*n  -> hex of the whole SAM file sam::io::Writer emits | Err
//!   (wh ph bwh bph lzv: see c06_part2.rs / c06_part4.rs)
//! Implementation-only oracles (the property itself):
//!   rt  seed n     header + n generated records: SAM write/read (eager + lazy), fixed point,
//!                  BAM write/read, SAM->BAM->SAM, BAM->SAM->BAM
//!   hdr seed       generated header: SAM write/read, fixed point, BAM write/read
//!   lz  refs hexline  lazy sam::Record on a given line: conversion equals the eager parse, same re-rendered text
//!   fsw start n    float oracle hypothesis parse(fmt b) = b on bit patterns start..start+n
//!                  (scalar `f` = lexical format, `B:f` = Display format), through the public API

use std::{io, num::NonZero};

use bstr::BString;
use noodles_bam as bam;
use noodles_core::Position;
use noodles_sam::{
    self as sam,
    alignment::{
        RecordBuf,
        io::Write as _,
        record::{
            Flags, MappingQuality,
            cigar::{Op, op::Kind},
            data::field::Tag,
        },
        record_buf::{
            Cigar, Data, QualityScores, Sequence,
            data::field::{Value, value::Array},
        },
    },
    header::record::value::{
        Map,
        map::{self, Program, ReadGroup, ReferenceSequence, header::Version, tag::Other},
    },
};
use nv::{Case, CaseWriter, Obs, Outcome, Rng, guarded, hex, unhex};

// -------------------------------------------------------------------------------------------
// The harness' own representation of a record (independent of noodles types).

#[derive(Clone, Debug, PartialEq)]
enum Val {
    /// A c C s S i I f : type char, value (floats as bit pattern)
    Num(char, i64),
    /// Z H
    Str(char, Vec<u8>),
    /// B : subtype char, values (floats as bit patterns)
    Arr(char, Vec<i64>),
}

#[derive(Clone, Debug, PartialEq, Default)]
struct Spec {
    name: Option<Vec<u8>>,
    flags: u16,
    rid: Option<usize>,
    pos: usize, // 0 = missing
    mapq: u8,   // 255 = missing
    cigar: Vec<(u8, usize)>,
    mrid: Option<usize>,
    mpos: usize,
    tlen: i32,
    seq: Vec<u8>,
    qual: Vec<u8>,
    data: Vec<([u8; 2], Val)>,
}

fn kind_of(k: u8) -> Kind {
    match k {
        0 => Kind::Match,
        1 => Kind::Insertion,
        2 => Kind::Deletion,
        3 => Kind::Skip,
        4 => Kind::SoftClip,
        5 => Kind::HardClip,
        6 => Kind::Pad,
        7 => Kind::SequenceMatch,
        _ => Kind::SequenceMismatch,
    }
}
fn code_of(k: Kind) -> u8 {
    match k {
        Kind::Match => 0,
        Kind::Insertion => 1,
        Kind::Deletion => 2,
        Kind::Skip => 3,
        Kind::SoftClip => 4,
        Kind::HardClip => 5,
        Kind::Pad => 6,
        Kind::SequenceMatch => 7,
        Kind::SequenceMismatch => 8,
    }
}

fn val_to_noodles(v: &Val) -> Value {
    match v {
        Val::Num('A', n) => Value::Character(*n as u8),
        Val::Num('c', n) => Value::Int8(*n as i8),
        Val::Num('C', n) => Value::UInt8(*n as u8),
        Val::Num('s', n) => Value::Int16(*n as i16),
        Val::Num('S', n) => Value::UInt16(*n as u16),
        Val::Num('i', n) => Value::Int32(*n as i32),
        Val::Num('I', n) => Value::UInt32(*n as u32),
        Val::Num(_, n) => Value::Float(f32::from_bits(*n as u32)),
        Val::Str('Z', s) => Value::String(s.clone().into()),
        Val::Str(_, s) => Value::Hex(s.clone().into()),
        Val::Arr('c', xs) => Value::Array(Array::Int8(xs.iter().map(|x| *x as i8).collect())),
        Val::Arr('C', xs) => Value::Array(Array::UInt8(xs.iter().map(|x| *x as u8).collect())),
        Val::Arr('s', xs) => Value::Array(Array::Int16(xs.iter().map(|x| *x as i16).collect())),
        Val::Arr('S', xs) => Value::Array(Array::UInt16(xs.iter().map(|x| *x as u16).collect())),
        Val::Arr('i', xs) => Value::Array(Array::Int32(xs.iter().map(|x| *x as i32).collect())),
        Val::Arr('I', xs) => Value::Array(Array::UInt32(xs.iter().map(|x| *x as u32).collect())),
        Val::Arr(_, xs) => Value::Array(Array::Float(xs.iter().map(|x| f32::from_bits(*x as u32)).collect())),
    }
}

fn val_from_noodles(v: &Value) -> Val {
    match v {
        Value::Character(n) => Val::Num('A', *n as i64),
        Value::Int8(n) => Val::Num('c', *n as i64),
        Value::UInt8(n) => Val::Num('C', *n as i64),
        Value::Int16(n) => Val::Num('s', *n as i64),
        Value::UInt16(n) => Val::Num('S', *n as i64),
        Value::Int32(n) => Val::Num('i', *n as i64),
        Value::UInt32(n) => Val::Num('I', *n as i64),
        Value::Float(n) => Val::Num('f', n.to_bits() as i64),
        Value::String(s) => Val::Str('Z', s.to_vec()),
        Value::Hex(s) => Val::Str('H', s.to_vec()),
        Value::Array(a) => match a {
            Array::Int8(xs) => Val::Arr('c', xs.iter().map(|x| *x as i64).collect()),
            Array::UInt8(xs) => Val::Arr('C', xs.iter().map(|x| *x as i64).collect()),
            Array::Int16(xs) => Val::Arr('s', xs.iter().map(|x| *x as i64).collect()),
            Array::UInt16(xs) => Val::Arr('S', xs.iter().map(|x| *x as i64).collect()),
            Array::Int32(xs) => Val::Arr('i', xs.iter().map(|x| *x as i64).collect()),
            Array::UInt32(xs) => Val::Arr('I', xs.iter().map(|x| *x as i64).collect()),
            Array::Float(xs) => Val::Arr('f', xs.iter().map(|x| x.to_bits() as i64).collect()),
        },
    }
}

fn to_record_buf(s: &Spec) -> RecordBuf {
    let mut r = RecordBuf::default();
    *r.name_mut() = s.name.clone().map(|n| n.into());
    *r.flags_mut() = Flags::from(s.flags);
    *r.reference_sequence_id_mut() = s.rid;
    *r.alignment_start_mut() = Position::new(s.pos);
    *r.mapping_quality_mut() = MappingQuality::new(s.mapq);
    *r.cigar_mut() = s.cigar.iter().map(|(k, l)| Op::new(kind_of(*k), *l)).collect::<Cigar>();
    *r.mate_reference_sequence_id_mut() = s.mrid;
    *r.mate_alignment_start_mut() = Position::new(s.mpos);
    *r.template_length_mut() = s.tlen;
    *r.sequence_mut() = Sequence::from(s.seq.clone());
    *r.quality_scores_mut() = QualityScores::from(s.qual.clone());
    let mut d = Data::default();
    for (t, v) in &s.data {
        d.insert(Tag::new(t[0], t[1]), val_to_noodles(v));
    }
    *r.data_mut() = d;
    r
}

fn from_record_buf(r: &RecordBuf) -> Spec {
    Spec {
        name: r.name().map(|n| n.to_vec()),
        flags: u16::from(r.flags()),
        rid: r.reference_sequence_id(),
        pos: r.alignment_start().map(usize::from).unwrap_or(0),
        mapq: r.mapping_quality().map(|m| m.get()).unwrap_or(255),
        cigar: r.cigar().as_ref().iter().map(|op| (code_of(op.kind()), op.len())).collect(),
        mrid: r.mate_reference_sequence_id(),
        mpos: r.mate_alignment_start().map(usize::from).unwrap_or(0),
        tlen: r.template_length(),
        seq: r.sequence().as_ref().to_vec(),
        qual: r.quality_scores().as_ref().to_vec(),
        data: r
            .data()
            .iter()
            .map(|(t, v)| {
                let b: &[u8; 2] = t.as_ref();
                (*b, val_from_noodles(v))
            })
            .collect(),
    }
}

// -------------------------------------------------------------------------------------------
// Text encoding of a Spec (case arguments and canonical dumps; the OCaml driver mirrors it).

fn opt_u(o: &Option<usize>) -> String {
    o.map(|x| x.to_string()).unwrap_or_else(|| "-".into())
}

fn enc_val(v: &Val) -> String {
    match v {
        Val::Num(t, n) => format!("{t}:{n}"),
        Val::Str(t, s) => format!("{t}:{}", hex(s)),
        Val::Arr(t, xs) => {
            let mut s = format!("B:{t}");
            for x in xs {
                s.push(',');
                s.push_str(&x.to_string());
            }
            s
        }
    }
}

fn enc_spec(s: &Spec) -> Vec<String> {
    vec![
        s.name.as_ref().map(|n| hex(n)).unwrap_or_else(|| "-".into()),
        s.flags.to_string(),
        opt_u(&s.rid),
        s.pos.to_string(),
        s.mapq.to_string(),
        if s.cigar.is_empty() {
            "_".into()
        } else {
            s.cigar.iter().map(|(k, l)| format!("{l}:{k}")).collect::<Vec<_>>().join(",")
        },
        opt_u(&s.mrid),
        s.mpos.to_string(),
        s.tlen.to_string(),
        hex(&s.seq),
        hex(&s.qual),
        if s.data.is_empty() {
            "_".into()
        } else {
            s.data.iter().map(|(t, v)| format!("{}:{}", hex(t), enc_val(v))).collect::<Vec<_>>().join(";")
        },
    ]
}

fn dec_opt_u(s: &str) -> Option<usize> {
    if s == "-" { None } else { Some(s.parse().unwrap()) }
}

fn dec_val(s: &str) -> Val {
    let (t, p) = s.split_once(':').unwrap();
    let t = t.chars().next().unwrap();
    match t {
        'Z' | 'H' => Val::Str(t, unhex(p)),
        'B' => {
            let mut it = p.split(',');
            let st = it.next().unwrap().chars().next().unwrap();
            Val::Arr(st, it.map(|x| x.parse().unwrap()).collect())
        }
        _ => Val::Num(t, p.parse().unwrap()),
    }
}

fn dec_spec(a: &[String]) -> Spec {
    Spec {
        name: if a[0] == "-" { None } else { Some(unhex(&a[0])) },
        flags: a[1].parse().unwrap(),
        rid: dec_opt_u(&a[2]),
        pos: a[3].parse().unwrap(),
        mapq: a[4].parse().unwrap(),
        cigar: if a[5] == "_" {
            vec![]
        } else {
            a[5].split(',')
                .map(|p| {
                    let (l, k) = p.split_once(':').unwrap();
                    (k.parse().unwrap(), l.parse().unwrap())
                })
                .collect()
        },
        mrid: dec_opt_u(&a[6]),
        mpos: a[7].parse().unwrap(),
        tlen: a[8].parse().unwrap(),
        seq: unhex(&a[9]),
        qual: unhex(&a[10]),
        data: if a[11] == "_" {
            vec![]
        } else {
            a[11]
                .split(';')
                .map(|f| {
                    let (t, v) = f.split_once(':').unwrap();
                    let t = unhex(t);
                    ([t[0], t[1]], dec_val(v))
                })
                .collect()
        },
    }
}

fn dump_spec(s: &Spec) -> String {
    enc_spec(s).join(" ")
}

fn enc_refs(refs: &[Vec<u8>]) -> String {
    if refs.is_empty() { "_".into() } else { refs.iter().map(|r| hex(r)).collect::<Vec<_>>().join(",") }
}
fn dec_refs(s: &str) -> Vec<Vec<u8>> {
    if s == "_" { vec![] } else { s.split(',').map(unhex).collect() }
}

/// header whose dictionary is exactly `refs` (inserted directly, unvalidated)
fn header_of_refs(refs: &[Vec<u8>]) -> sam::Header {
    let mut h = sam::Header::default();
    for r in refs {
        h.reference_sequences_mut()
            .insert(BString::from(r.clone()), Map::<ReferenceSequence>::new(NonZero::new(1000).unwrap()));
    }
    h
}

include!("../shared/c06_part2.rs");
