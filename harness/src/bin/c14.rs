//! C14: writers never hide a sink failure and tolerate short writes.
//!
//! Modelled kinds (obs compared with the extracted Coq model NV.Sinks.Sink):
//!   wa    script buf                   std write_all over FaultySink
//!   lw    script ops                   a `?`-chain of write_all/flush calls over FaultySink
//!   lwfmt fmt seed script ops          a real unbuffered noodles writer (fasta, fastq, sam, vcf,
//!                                      gff, gtf, bed, bai, gzi, fai) under the script; `ops` is the
//!                                      list of buffers it hands to the sink in a fault-free run
//!   bg    maxbuf script ops seed frames  bgzf::io::Writer under the script; `frames` are the
//!                                      frames of the fault-free run (opaque to the model)
//!   mt    pool script ops seed frames lifo  bgzf::io::MultithreadedWriter (ops W<n>/F, then
//!                                      finish()) on a pool of `pool` threads under the script; the
//!                                      model (NV.Sinks.Mt = the ticket pipeline NV.Io.Sched over
//!                                      this property's sink) runs a FIFO or a LIFO schedule, the
//!                                      implementation whatever schedule the OS produces
//!   fob   fmt ending seed script ops frames  a format writer over bgzf::io::Writer under the script;
//!                                      `ops` = the write_all/flush calls each explicit operation
//!                                      makes on the BGZF writer (recorded by a logging `Write`
//!                                      between the two layers for bam/bcf/samgz/vcfgz; the payload
//!                                      length for csi/tbi, whose BGZF layer is private), ending
//!                                      with T (try_finish) or X (finish)
//!   cram  seed script ops              cram::io::Writer under the script; `ops` = lengths of the
//!                                      buffers of each explicit operation; obs carries the number
//!                                      of bytes accepted instead of the bytes
//!   obs = per-op results | number of inner calls | sink bytes
//!   ixf (wave 10): see harness/src/shared/c14_deep10.rs
//!   ixb / crc (wave 7): see harness/src/shared/c14_deep7.rs; mta / ixc / awa / afq / awfmt / abz: c14_deep4.rs
//! Implementation-only oracles (obs "-"):
//!   sweep fmt ending seed kind         Fail(kind) at every inner call k < N (sampled if N > 200)
//!   short fmt ending seed pattern      short-write / Interrupted patterns
//!   mix   fmt ending seed pseed        short writes + one failure
//!   drop  seed pattern                 bgzf::io::Writer dropped without finish
//!   fsfull fmt seed                    <index>::fs::write("/dev/full", &index) must return Err
//!
//! endings: X = consuming finish (`finish(self)` / `into_inner().finish()`), T = `try_finish()`
//! then drop, D = drop only, R = `alignment::io::Write::finish` then drop, M = MT `finish()`,
//! C = `cram try_finish(&header)`, U = `noodles_util::alignment::io::Writer::finish`,
//! V = `noodles_util::variant::io::Writer::finish` (uvbcf/uvbcfraw/uvvcf/uvvcfgz), B = the writers
//! made by sam / vcf `io::writer::Builder::build_from_writer` (Writer<Box<dyn Write>>; bsam, bsamgz,
//! bvcf, bvcfgz) ended with the only call they offer (alignment trait finish, resp.
//! get_mut().flush()), - = nothing (unbuffered writers).
//! ubam/ubamraw/usam/usamgz = the noodles-util alignment writer (BGZF BAM, BufWriter BAM,
//! BufWriter SAM, BGZF SAM).

use std::{
    io::{self, BufRead, Read, Write},
    panic::AssertUnwindSafe,
    sync::{
        Arc, Mutex, OnceLock,
        atomic::{AtomicBool, Ordering},
        mpsc,
    },
    time::Duration,
};

use noodles_bam as bam;
use noodles_bcf as bcf;
use noodles_bed as bed;
use noodles_bgzf as bgzf;
use noodles_core::Position;
use noodles_cram as cram;
use noodles_csi::{
    self as csi,
    binning_index::{
        self, Indexer,
        index::{
            Header,
            reference_sequence::{bin::Chunk, index::BinnedIndex, index::LinearIndex},
        },
    },
};
use noodles_fasta as fasta;
use noodles_fastq as fastq;
use noodles_gff as gff;
use noodles_gtf as gtf;
use noodles_sam as sam;
use noodles_tabix as tabix;
use noodles_util::alignment as ualn;
use noodles_vcf as vcf;
use nv::{
    Case, CaseWriter, Obs, Outcome, Rng,
    adversary::{Fault, FaultySink},
    guarded, hex,
};

type VP = bgzf::VirtualPosition;

const BGZF_EOF: [u8; 28] = [
    0x1f, 0x8b, 0x08, 0x04, 0, 0, 0, 0, 0, 0xff, 0x06, 0, 0x42, 0x43, 0x02, 0, 0x1b, 0, 0x03, 0, 0, 0, 0, 0, 0, 0,
    0, 0,
];
const MAX_BUF_SIZE: usize = 65495;

// ---------------------------------------------------------------------------------------------
// error kinds and scripts

const KINDS: &[(io::ErrorKind, u32)] = &[
    (io::ErrorKind::Interrupted, 0),
    (io::ErrorKind::WriteZero, 1),
    (io::ErrorKind::Other, 2),
    (io::ErrorKind::BrokenPipe, 3),
    (io::ErrorKind::PermissionDenied, 4),
    (io::ErrorKind::StorageFull, 5),
    (io::ErrorKind::OutOfMemory, 6),
    (io::ErrorKind::UnexpectedEof, 7),
    (io::ErrorKind::WouldBlock, 8),
    (io::ErrorKind::TimedOut, 9),
    (io::ErrorKind::InvalidInput, 10),
    (io::ErrorKind::InvalidData, 11),
    (io::ErrorKind::QuotaExceeded, 12),
    (io::ErrorKind::FileTooLarge, 13),
];
/// the kinds injected by the failure sweeps (never Interrupted: write_all retries it by contract)
const INJECT: &[u32] = &[2, 3, 4, 5, 6, 1, 7, 8, 12, 13];

fn kind_code(k: io::ErrorKind) -> u32 {
    KINDS.iter().find(|(x, _)| *x == k).map(|(_, c)| *c).unwrap_or(99)
}
fn code_kind(c: u32) -> io::ErrorKind {
    KINDS.iter().find(|(_, x)| *x == c).map(|(k, _)| *k).expect("kind code")
}

fn fmt_script(sc: &[Fault]) -> String {
    if sc.is_empty() {
        return "_".into();
    }
    sc.iter()
        .map(|f| match f {
            Fault::Full => "F".to_string(),
            Fault::Short(k) => format!("S{k}"),
            Fault::Interrupted => "I".to_string(),
            Fault::Fail(k) => format!("E{}", kind_code(*k)),
        })
        .collect::<Vec<_>>()
        .join(",")
}

fn parse_script(s: &str) -> Vec<Fault> {
    if s == "_" {
        return vec![];
    }
    s.split(',')
        .map(|t| match t.as_bytes()[0] {
            b'F' => Fault::Full,
            b'I' => Fault::Interrupted,
            b'S' => Fault::Short(t[1..].parse().unwrap()),
            b'E' => Fault::Fail(code_kind(t[1..].parse().unwrap())),
            _ => panic!("script {t}"),
        })
        .collect()
}

const MASK: u64 = (1 << 62) - 1;
fn mix(h: u64, v: u64) -> u64 {
    h.wrapping_mul(1_000_003).wrapping_add(v).wrapping_add(1) & MASK
}
fn fmt_bytes(bs: &[u8]) -> String {
    if bs.len() <= 300 {
        hex(bs)
    } else {
        format!("{}:{}", bs.len(), bs.iter().fold(0u64, |h, b| mix(h, *b as u64)))
    }
}

// ---------------------------------------------------------------------------------------------
// the sink handed to the writers: FaultySink plus an optional log of the buffers it is given

#[derive(Clone)]
struct TSink {
    inner: FaultySink,
    log: Option<Arc<Mutex<Vec<Option<Vec<u8>>>>>>,
}

impl TSink {
    fn new(script: Vec<Fault>, log: bool) -> Self {
        TSink {
            inner: FaultySink::new(script),
            log: log.then(|| Arc::new(Mutex::new(Vec::new()))),
        }
    }
}

impl Write for TSink {
    fn write(&mut self, buf: &[u8]) -> io::Result<usize> {
        if let Some(l) = &self.log {
            l.lock().unwrap().push(Some(buf.to_vec()));
        }
        self.inner.write(buf)
    }
    fn flush(&mut self) -> io::Result<()> {
        if let Some(l) = &self.log {
            l.lock().unwrap().push(None);
        }
        self.inner.flush()
    }
}

/// the kinds found along an error's source chain (the error itself first)
fn kind_chain(e: &io::Error) -> Vec<io::ErrorKind> {
    let mut v = vec![e.kind()];
    let mut cur: Option<&(dyn std::error::Error + 'static)> = e.get_ref().map(|x| x as _);
    let mut depth = 0;
    while let Some(x) = cur {
        if let Some(ioe) = x.downcast_ref::<io::Error>() {
            v.push(ioe.kind());
        }
        cur = x.source();
        depth += 1;
        if depth > 8 {
            break;
        }
    }
    v
}

/// Results of the explicit operations of one writer life (stops at the first Err).
struct Tr {
    sink: TSink,
    results: Vec<Result<(), Vec<io::ErrorKind>>>,
    /// inner calls consumed after each explicit operation
    marks: Vec<usize>,
}

impl Tr {
    fn op(&mut self, f: impl FnOnce() -> io::Result<()>) -> bool {
        let r = f();
        self.marks.push(self.sink.inner.calls());
        match r {
            Ok(()) => {
                self.results.push(Ok(()));
                true
            }
            Err(e) => {
                self.results.push(Err(kind_chain(&e)));
                false
            }
        }
    }
}

macro_rules! op {
    ($tr:expr, $e:expr) => {
        if !$tr.op(|| $e) {
            return;
        }
    };
}

#[path = "../shared/c14_deep4.rs"]
mod c14_deep4;
#[path = "../shared/c14_deep7.rs"]
mod c14_deep7;
#[path = "../shared/c14_deep10.rs"]
mod c14_deep10;

// ---------------------------------------------------------------------------------------------
// fixtures

const BASES: &[u8] = b"ACGTN";
fn bases(rng: &mut Rng, n: usize) -> String {
    (0..n).map(|_| *rng.pick(BASES) as char).collect()
}
fn word(rng: &mut Rng, lo: u64, hi: u64) -> String {
    let n = rng.range(lo, hi);
    (0..n).map(|_| (b'a' + rng.below(26) as u8) as char).collect()
}

fn sam_text(rng: &mut Rng, unmapped_only: bool, nrec: u64, big: bool) -> String {
    let mut s = String::from("@HD\tVN:1.6\tSO:unsorted\n");
    let nref = if unmapped_only { 0 } else { rng.range(1, 3) };
    for i in 0..nref {
        s.push_str(&format!("@SQ\tSN:sq{i}\tLN:{}\n", 1000 * (i + 1)));
    }
    if rng.chance(1, 2) {
        s.push_str("@RG\tID:rg0\tSM:s\n");
    }
    if rng.chance(1, 2) {
        s.push_str(&format!("@CO\tc {}\n", word(rng, 0, 30)));
    }
    let big_at = if big { rng.below(nrec.max(1)) } else { u64::MAX };
    for i in 0..nrec {
        // a "big" fixture has one read long enough to fill a 64 KiB BGZF block by itself
        let l = if i == big_at { 70000 } else { rng.range(1, 30) as usize };
        let seq = bases(rng, l);
        let qual: String = (0..l).map(|_| (b'!' + rng.below(40) as u8) as char).collect();
        let tags = match rng.below(4) {
            0 => "".to_string(),
            1 => "\tNH:i:1".to_string(),
            2 => format!("\tNH:i:{}\tZZ:Z:{}", rng.below(70000), word(rng, 1, 12)),
            _ => "\tXB:B:c,1,-2,3".to_string(),
        };
        if unmapped_only || rng.chance(1, 4) {
            s.push_str(&format!("r{i}\t4\t*\t0\t255\t*\t*\t0\t0\t{seq}\t{qual}{tags}\n"));
        } else {
            let r = rng.below(nref);
            let pos = rng.range(1, 900);
            s.push_str(&format!(
                "r{i}\t{}\tsq{r}\t{pos}\t{}\t{l}M\t*\t0\t0\t{seq}\t{qual}{tags}\n",
                if rng.chance(1, 3) { 16 } else { 0 },
                rng.below(61)
            ));
        }
    }
    s
}

fn vcf_text(rng: &mut Rng, nrec: u64, big: bool) -> String {
    let mut s = String::from("##fileformat=VCFv4.3\n");
    let nref = rng.range(1, 2);
    for i in 0..nref {
        s.push_str(&format!("##contig=<ID=sq{i},length={}>\n", 1000 * (i + 1)));
    }
    s.push_str(&format!(
        "##INFO=<ID=DP,Number=1,Type=Integer,Description=\"depth {}\">\n",
        word(rng, 0, 20)
    ));
    s.push_str("##INFO=<ID=AF,Number=A,Type=Float,Description=\"af\">\n");
    s.push_str("##FILTER=<ID=q10,Description=\"q\">\n");
    s.push_str("##FORMAT=<ID=GT,Number=1,Type=String,Description=\"gt\">\n");
    s.push_str("##FORMAT=<ID=GQ,Number=1,Type=Integer,Description=\"gq\">\n");
    let nsamp = rng.range(0, 2);
    s.push_str("#CHROM\tPOS\tID\tREF\tALT\tQUAL\tFILTER\tINFO");
    if nsamp > 0 {
        s.push_str("\tFORMAT");
        for i in 0..nsamp {
            s.push_str(&format!("\ts{i}"));
        }
    }
    s.push('\n');
    let mut pos = 1;
    let big_at = if big { rng.below(nrec.max(1)) } else { u64::MAX };
    for i in 0..nrec {
        pos += rng.range(1, 100);
        let r = rng.below(nref);
        let rbl = if i == big_at { 70000 } else { rng.range(1, 4) as usize };
        let rb = bases(rng, rbl).replace('N', "A");
        let alt = *rng.pick(&["C", "G,T", "."]);
        let info = match (rng.below(3), alt) {
            (0, _) => ".".to_string(),
            (1, _) => format!("DP={}", rng.below(100000)),
            (_, "C") => format!("DP={};AF=0.5", rng.below(300)),
            _ => format!("DP={}", rng.below(300)),
        };
        s.push_str(&format!(
            "sq{r}\t{pos}\t{}\t{rb}\t{alt}\t{}\t{}\t{info}",
            if rng.chance(1, 2) { ".".to_string() } else { format!("id{i}") },
            if rng.chance(1, 2) { ".".to_string() } else { format!("{}", rng.below(100)) },
            *rng.pick(&[".", "PASS", "q10"])
        ));
        if nsamp > 0 {
            s.push_str("\tGT:GQ");
            for _ in 0..nsamp {
                s.push_str(&format!("\t{}:{}", *rng.pick(&["0/1", "1|1", "./."]), rng.below(99)));
            }
        }
        s.push('\n');
    }
    s
}

fn pos(n: u64) -> Position {
    Position::try_from(n as usize).unwrap()
}

fn build_index<I>(rng: &mut Rng, ms: u8, d: u8, nref: usize, hdr: Option<Header>) -> binning_index::Index<I>
where
    I: binning_index::index::reference_sequence::Index + Default,
{
    let maxp = (1u64 << (ms as u64 + 3 * d as u64)) - 1;
    let mut ix = Indexer::<I>::new(ms, d);
    if let Some(h) = hdr {
        ix = ix.set_header(h);
    }
    let mut off = rng.below(1 << 20);
    for r in 0..nref {
        if rng.chance(1, 5) {
            continue;
        }
        let mut s = rng.range(1, 1000.min(maxp));
        for _ in 0..rng.range(1, 6) {
            s = (s + rng.below(1 + maxp / 8)).min(maxp);
            let sh = rng.below(20);
            let e = (s + rng.below(1 + (maxp >> sh))).min(maxp);
            let a = off;
            off += rng.range(1, 70000);
            ix.add_record(Some((r, pos(s), pos(e), rng.chance(9, 10))), Chunk::new(VP::from(a), VP::from(off)))
                .unwrap();
        }
    }
    for _ in 0..rng.below(3) {
        ix.add_record(None, Chunk::new(VP::from(off), VP::from(off + 1))).unwrap();
    }
    ix.build(nref)
}

/// compressible payload (so that BGZF frames stay small even for 64 KiB blocks)
fn pattern(seed: u64, n: usize) -> Vec<u8> {
    let p = 5 + (seed % 11) as usize;
    (0..n).map(|i| b'a' + ((i % p) as u8 + (seed % 7) as u8) % 26).collect()
}

enum Fx {
    /// chunks written with write_all; flag = flush() afterwards
    Chunks(Vec<(Vec<u8>, bool)>),
    Sam(sam::Header, Vec<sam::alignment::RecordBuf>),
    Vcf(vcf::Header, Vec<vcf::variant::RecordBuf>),
    Fasta(Vec<fasta::Record>),
    Fastq(Vec<fastq::Record>),
    Gff(Vec<gff::LineBuf>),
    Gtf(Vec<gtf::LineBuf>),
    Bed(Vec<bed::Record<3>>),
    Bai(bam::bai::Index),
    Csi(csi::Index),
    Tbi(tabix::Index),
    Gzi(bgzf::gzi::Index),
    Fai(fasta::fai::Index),
    Crai(Vec<cram::crai::Record>),
}

impl Fx {
    /// number of records / items the fault-free output must decode to
    fn count(&self) -> usize {
        match self {
            Fx::Chunks(c) => c.iter().map(|(b, _)| b.len()).sum(),
            Fx::Sam(_, r) => r.len(),
            Fx::Vcf(_, r) => r.len(),
            Fx::Fasta(r) => r.len(),
            Fx::Fastq(r) => r.len(),
            Fx::Gff(r) => r.len(),
            Fx::Gtf(r) => r.len(),
            Fx::Bed(r) => r.len(),
            Fx::Crai(r) => r.len(),
            _ => 1,
        }
    }
}

fn fixture(fmt: &str, seed: u64) -> Fx {
    let mut rng = Rng::new(seed ^ 0xC14);
    let rng = &mut rng;
    match fmt {
        "bgzf" | "mt" => {
            let big = seed % 7 == 0;
            let n = rng.range(if big { 1 } else { 0 }, 4);
            let mut v = Vec::new();
            for i in 0..n {
                let len = if big && i == 0 {
                    *rng.pick(&[MAX_BUF_SIZE - 1, MAX_BUF_SIZE, MAX_BUF_SIZE + 1, 70000, 2 * MAX_BUF_SIZE])
                } else {
                    rng.range(0, 40) as usize
                };
                v.push((pattern(seed + i, len), rng.chance(1, 3)));
            }
            Fx::Chunks(v)
        }
        "sam" | "samgz" | "bam" | "bamraw" | "cram" | "ubam" | "ubamraw" | "usam" | "usamgz" | "bsam" | "bsamgz" => {
            let big = seed % 7 == 0 && fmt != "cram";
            let nrec = rng.range(if big { 1 } else { 0 }, 5);
            let text = sam_text(rng, fmt == "cram", nrec, big);
            let mut r = sam::io::Reader::new(text.as_bytes());
            let h = r.read_header().expect("generated SAM header");
            let recs = r.record_bufs(&h).collect::<Result<Vec<_>, _>>().expect("generated SAM records");
            Fx::Sam(h, recs)
        }
        "vcf" | "vcfgz" | "bcf" | "bcfraw" | "uvbcf" | "uvbcfraw" | "uvvcf" | "uvvcfgz" | "bvcf" | "bvcfgz" => {
            let big = seed % 7 == 0;
            let nrec = rng.range(if big { 1 } else { 0 }, 5);
            let text = vcf_text(rng, nrec, big);
            let mut r = vcf::io::Reader::new(text.as_bytes());
            let h = r.read_header().expect("generated VCF header");
            let recs = r.record_bufs(&h).collect::<Result<Vec<_>, _>>().expect("generated VCF records");
            Fx::Vcf(h, recs)
        }
        "fasta" => {
            let mut s = String::new();
            for i in 0..rng.range(1, 4) {
                s.push_str(&format!(">sq{i}"));
                if rng.chance(1, 2) {
                    s.push_str(&format!(" desc {}", word(rng, 0, 9)));
                }
                s.push('\n');
                let len = rng.range(1, 200) as usize;
                s.push_str(&bases(rng, len));
                s.push('\n');
            }
            let recs = fasta::io::Reader::new(s.as_bytes()).records().collect::<Result<Vec<_>, _>>().expect("fasta");
            Fx::Fasta(recs)
        }
        "fastq" => {
            let mut s = String::new();
            for i in 0..rng.range(0, 5) {
                let l = rng.range(1, 40) as usize;
                let seq = bases(rng, l);
                let qual: String = (0..l).map(|_| (b'!' + rng.below(60) as u8) as char).collect();
                let desc = if rng.chance(1, 2) { format!(" d{}", rng.below(1000)) } else { String::new() };
                s.push_str(&format!("@r{i}{desc}\n{seq}\n+\n{qual}\n"));
            }
            let recs = fastq::io::Reader::new(s.as_bytes()).records().collect::<Result<Vec<_>, _>>().expect("fastq");
            Fx::Fastq(recs)
        }
        "gff" => {
            let mut s = String::from("##gff-version 3\n");
            for i in 0..rng.range(0, 5) {
                match rng.below(6) {
                    0 => s.push_str(&format!("#comment {}\n", word(rng, 0, 19))),
                    1 => s.push_str("##sequence-region sq0 1 1000\n"),
                    _ => {
                        let st = rng.range(1, 500);
                        s.push_str(&format!(
                            "sq{}\tsrc\tgene\t{st}\t{}\t{}\t{}\t{}\tID=g{i};Name=n{}\n",
                            rng.below(2),
                            st + rng.below(400),
                            *rng.pick(&[".", "1.5", "30"]),
                            *rng.pick(&["+", "-", ".", "?"]),
                            *rng.pick(&[".", "0", "2"]),
                            word(rng, 0, 9)
                        ));
                    }
                }
            }
            let lines = gff::io::Reader::new(s.as_bytes()).line_bufs().collect::<Result<Vec<_>, _>>().expect("gff");
            Fx::Gff(lines)
        }
        "gtf" => {
            let mut s = String::new();
            for i in 0..rng.range(0, 5) {
                match rng.below(5) {
                    0 => s.push_str(&format!("#comment {}\n", word(rng, 0, 19))),
                    _ => {
                        let st = rng.range(1, 500);
                        s.push_str(&format!(
                            "sq{}\tsrc\texon\t{st}\t{}\t{}\t{}\t{}\tgene_id \"g{i}\"; transcript_id \"t{}\";\n",
                            rng.below(2),
                            st + rng.below(400),
                            *rng.pick(&[".", "1.5"]),
                            *rng.pick(&["+", "-", "."]),
                            *rng.pick(&[".", "0", "2"]),
                            word(rng, 0, 9)
                        ));
                    }
                }
            }
            let lines = gtf::io::Reader::new(s.as_bytes()).line_bufs().collect::<Result<Vec<_>, _>>().expect("gtf");
            Fx::Gtf(lines)
        }
        "bed" => {
            let mut s = String::new();
            for i in 0..rng.range(0, 6) {
                let st = rng.below(500);
                s.push_str(&format!("sq{}\t{st}\t{}", rng.below(2), st + rng.below(400)));
                if rng.chance(1, 2) {
                    s.push_str(&format!("\tn{i}\t{}\t+", rng.below(1000)));
                }
                s.push('\n');
            }
            let mut r = bed::io::Reader::<3, _>::new(s.as_bytes());
            let mut recs = Vec::new();
            let mut rec = bed::Record::<3>::default();
            while r.read_record(&mut rec).expect("bed") != 0 {
                recs.push(rec.clone());
            }
            Fx::Bed(recs)
        }
        "bai" => {
            let nref = rng.range(0, 3) as usize;
            Fx::Bai(build_index::<LinearIndex>(rng, 14, 5, nref, None))
        }
        "csi" => {
            let nref = rng.range(0, 3) as usize;
            let (ms, d) = *rng.pick(&[(14u8, 5u8), (12, 4), (14, 6)]);
            let hdr = rng.chance(1, 2).then(|| csi::binning_index::index::header::Builder::vcf().build());
            Fx::Csi(build_index::<BinnedIndex>(rng, ms, d, nref, hdr))
        }
        "tbi" => {
            let nref = rng.range(0, 3) as usize;
            let names: csi::binning_index::index::header::ReferenceSequenceNames =
                (0..nref).map(|i| bstr::BString::from(format!("chr{i}_{}", word(rng, 0, 5)))).collect();
            let hdr = csi::binning_index::index::header::Builder::vcf().set_reference_sequence_names(names).build();
            Fx::Tbi(build_index::<LinearIndex>(rng, 14, 5, nref, Some(hdr)))
        }
        "gzi" => {
            let n = rng.range(0, 8);
            let (mut c, mut u) = (0u64, 0u64);
            let v: Vec<(u64, u64)> = (0..n)
                .map(|_| {
                    c += rng.range(28, 65536);
                    u += rng.range(1, 65280);
                    (c, u)
                })
                .collect();
            Fx::Gzi(bgzf::gzi::Index::from(v))
        }
        "fai" => {
            let n = rng.range(0, 5);
            let mut off = 0u64;
            let recs: Vec<fasta::fai::Record> = (0..n)
                .map(|i| {
                    let lb = rng.range(1, 80);
                    let len = rng.range(1, 100000);
                    off += rng.range(4, 40);
                    let r = fasta::fai::Record::new(
                        format!("sq{i}"),
                        len,
                        off,
                        std::num::NonZero::new(lb).unwrap(),
                        std::num::NonZero::new(lb + 1).unwrap(),
                    );
                    off += len + len / lb;
                    r
                })
                .collect();
            Fx::Fai(fasta::fai::Index::from(recs))
        }
        "crai" => {
            let n = rng.range(0, 6);
            let mut off = 26u64;
            let recs: Vec<cram::crai::Record> = (0..n)
                .map(|_| {
                    let r = cram::crai::Record::new(
                        Some(rng.below(3) as usize),
                        Position::new(rng.range(1, 100000) as usize),
                        rng.below(100000) as usize,
                        off,
                        rng.below(500),
                        rng.below(100000),
                    );
                    off += rng.range(100, 100000);
                    r
                })
                .collect();
            Fx::Crai(recs)
        }
        f => panic!("fixture {f}"),
    }
}

// ---------------------------------------------------------------------------------------------
// one life of a writer over the sink: explicit operations until the first Err, then drop

fn drive(fmt: &str, ending: &str, fx: &Fx, sink: TSink, tr: &mut Tr) {
    use sam::alignment::io::Write as _;
    use vcf::variant::io::Write as _;
    match (fmt, fx) {
        ("bgzf", Fx::Chunks(chunks)) => {
            let mut w = bgzf::io::Writer::new(sink);
            for (c, fl) in chunks {
                op!(tr, w.write_all(c));
                if *fl {
                    op!(tr, w.flush());
                }
            }
            match ending {
                "X" => op!(tr, w.finish().map(|_| ())),
                "T" => op!(tr, w.try_finish()),
                _ => {}
            }
        }
        ("mt", Fx::Chunks(chunks)) => {
            let mut w = bgzf::io::MultithreadedWriter::new(sink);
            for (c, fl) in chunks {
                op!(tr, w.write_all(c));
                if *fl {
                    op!(tr, w.flush());
                }
            }
            if ending == "M" {
                op!(tr, w.finish().map(|_| ()));
            }
        }
        ("bam", Fx::Sam(h, recs)) => {
            let mut w = bam::io::Writer::new(sink);
            op!(tr, w.write_header(h));
            for r in recs {
                op!(tr, w.write_alignment_record(h, r));
            }
            match ending {
                "X" => op!(tr, w.into_inner().finish().map(|_| ())),
                "T" => op!(tr, w.try_finish()),
                "R" => op!(tr, sam::alignment::io::Write::finish(&mut w, h)),
                _ => {}
            }
        }
        ("bamraw", Fx::Sam(h, recs)) => {
            // uncompressed BAM straight to the sink: every encoder write reaches the faulty sink
            let mut w = bam::io::Writer::from(sink);
            op!(tr, w.write_header(h));
            for r in recs {
                op!(tr, w.write_alignment_record(h, r));
            }
        }
        ("bcfraw", Fx::Vcf(h, recs)) => {
            let mut w = bcf::io::Writer::from(sink);
            op!(tr, w.write_header(h));
            for r in recs {
                op!(tr, w.write_variant_record(h, r));
            }
        }
        ("ubam" | "ubamraw" | "usam" | "usamgz", Fx::Sam(h, recs)) => {
            use ualn::io::{CompressionMethod, Format};
            let b = ualn::io::writer::Builder::default();
            let b = match fmt {
                "ubam" => b.set_format(Format::Bam),
                "ubamraw" => b.set_format(Format::Bam).set_compression_method(None),
                "usam" => b.set_format(Format::Sam),
                _ => b.set_format(Format::Sam).set_compression_method(Some(CompressionMethod::Bgzf)),
            };
            let mut w = b.build_from_writer(sink).expect("noodles-util writer");
            op!(tr, w.write_header(h));
            for r in recs {
                op!(tr, w.write_record(h, r));
            }
            op!(tr, w.finish(h));
        }
        ("uvbcf" | "uvbcfraw" | "uvvcf" | "uvvcfgz", Fx::Vcf(h, recs)) => {
            // noodles_util::variant::io::Writer, finished with its finish() (added by bc303e1; before
            // it the life could only end with Drop: util-variant-writer-cannot-finish)
            use noodles_util::variant::io::{CompressionMethod, Format};
            let b = noodles_util::variant::io::writer::Builder::default();
            let b = match fmt {
                "uvbcf" => b.set_format(Format::Bcf).set_compression_method(Some(CompressionMethod::Bgzf)),
                "uvbcfraw" => b.set_format(Format::Bcf).set_compression_method(None),
                "uvvcf" => b.set_format(Format::Vcf).set_compression_method(None),
                _ => b.set_format(Format::Vcf).set_compression_method(Some(CompressionMethod::Bgzf)),
            };
            let mut w = b.build_from_writer(sink);
            op!(tr, w.write_header(h));
            for r in recs {
                op!(tr, w.write_record(h, r));
            }
            op!(tr, w.finish());
        }
        ("bsam" | "bsamgz", Fx::Sam(h, recs)) => {
            // sam::io::writer::Builder: Writer<Box<dyn Write>>; the only finishing call a caller
            // has is the alignment trait's finish (= flush of the boxed writer)
            let cm = if fmt == "bsamgz" { sam::io::CompressionMethod::Bgzf } else { sam::io::CompressionMethod::None };
            let mut w = sam::io::writer::Builder::default().set_compression_method(cm).build_from_writer(sink);
            op!(tr, w.write_header(h));
            for r in recs {
                op!(tr, w.write_alignment_record(h, r));
            }
            op!(tr, sam::alignment::io::Write::finish(&mut w, h));
        }
        ("bvcf" | "bvcfgz", Fx::Vcf(h, recs)) => {
            // vcf::io::writer::Builder: Writer<Box<dyn Write>>; there is no finish at all, the
            // most a caller can do is get_mut().flush()
            let cm = if fmt == "bvcfgz" { vcf::io::CompressionMethod::Bgzf } else { vcf::io::CompressionMethod::None };
            let mut w = vcf::io::writer::Builder::default().set_compression_method(cm).build_from_writer(sink);
            op!(tr, w.write_header(h));
            for r in recs {
                op!(tr, w.write_variant_record(h, r));
            }
            op!(tr, w.get_mut().flush());
        }
        ("cram", Fx::Sam(h, recs)) => {
            let mut w = cram::io::writer::Builder::default().verif_set_records_per_slice(2).build_from_writer(sink);
            op!(tr, w.write_header(h));
            for r in recs {
                op!(tr, w.write_alignment_record(h, r));
            }
            op!(tr, w.try_finish(h));
        }
        ("sam", Fx::Sam(h, recs)) => {
            let mut w = sam::io::Writer::new(sink);
            op!(tr, w.write_header(h));
            for r in recs {
                op!(tr, w.write_alignment_record(h, r));
            }
        }
        ("samgz", Fx::Sam(h, recs)) => {
            let mut w = sam::io::Writer::new(bgzf::io::Writer::new(sink));
            op!(tr, w.write_header(h));
            for r in recs {
                op!(tr, w.write_alignment_record(h, r));
            }
            match ending {
                "X" => op!(tr, w.into_inner().finish().map(|_| ())),
                "T" => op!(tr, w.get_mut().try_finish()),
                _ => {}
            }
        }
        ("bcf", Fx::Vcf(h, recs)) => {
            let mut w = bcf::io::Writer::new(sink);
            op!(tr, w.write_header(h));
            for r in recs {
                op!(tr, w.write_variant_record(h, r));
            }
            match ending {
                "X" => op!(tr, w.into_inner().finish().map(|_| ())),
                "T" => op!(tr, w.try_finish()),
                _ => {}
            }
        }
        ("vcf", Fx::Vcf(h, recs)) => {
            let mut w = vcf::io::Writer::new(sink);
            op!(tr, w.write_header(h));
            for r in recs {
                op!(tr, w.write_variant_record(h, r));
            }
        }
        ("vcfgz", Fx::Vcf(h, recs)) => {
            let mut w = vcf::io::Writer::new(bgzf::io::Writer::new(sink));
            op!(tr, w.write_header(h));
            for r in recs {
                op!(tr, w.write_variant_record(h, r));
            }
            match ending {
                "X" => op!(tr, w.into_inner().finish().map(|_| ())),
                "T" => op!(tr, w.get_mut().try_finish()),
                _ => {}
            }
        }
        ("fasta", Fx::Fasta(recs)) => {
            let mut w = fasta::io::Writer::new(sink);
            for r in recs {
                op!(tr, w.write_record(r));
            }
        }
        ("fastq", Fx::Fastq(recs)) => {
            let mut w = fastq::io::Writer::new(sink);
            for r in recs {
                op!(tr, w.write_record(r));
            }
        }
        ("gff", Fx::Gff(lines)) => {
            let mut w = gff::io::Writer::new(sink);
            for l in lines {
                op!(tr, w.write_line(l));
            }
        }
        ("gtf", Fx::Gtf(lines)) => {
            let mut w = gtf::io::Writer::new(sink);
            for l in lines {
                op!(tr, w.write_line(l));
            }
        }
        ("bed", Fx::Bed(recs)) => {
            let mut w = bed::io::Writer::<3, _>::new(sink);
            for r in recs {
                op!(tr, w.write_record(r));
            }
        }
        ("bai", Fx::Bai(ix)) => {
            let mut w = bam::bai::io::Writer::new(sink);
            op!(tr, w.write_index(ix));
        }
        ("gzi", Fx::Gzi(ix)) => {
            let mut w = bgzf::gzi::io::Writer::new(sink);
            op!(tr, w.write_index(ix));
        }
        ("fai", Fx::Fai(ix)) => {
            let mut w = fasta::fai::io::Writer::new(sink);
            op!(tr, w.write_index(ix));
        }
        ("csi", Fx::Csi(ix)) => {
            let mut w = csi::io::Writer::new(sink);
            op!(tr, w.write_index(ix));
            match ending {
                "X" => op!(tr, w.into_inner().finish().map(|_| ())),
                "T" => op!(tr, w.get_mut().try_finish()),
                _ => {}
            }
        }
        ("tbi", Fx::Tbi(ix)) => {
            let mut w = tabix::io::Writer::new(sink);
            op!(tr, w.write_index(ix));
            match ending {
                "X" => op!(tr, w.into_inner().finish().map(|_| ())),
                "T" => op!(tr, w.try_finish()),
                _ => {}
            }
        }
        ("crai", Fx::Crai(recs)) => {
            let mut w = cram::crai::io::Writer::new(sink);
            op!(tr, w.write_index(recs));
            if ending == "X" {
                op!(tr, w.finish().map(|_| ()));
            }
        }
        _ => panic!("drive {fmt}"),
    }
}

/// (format, endings) of the quantifier
const FORMATS: &[(&str, &[&str])] = &[
    ("bgzf", &["X", "T", "D"]),
    ("mt", &["M"]),
    ("bam", &["T", "X", "R"]),
    ("bamraw", &["-"]),
    ("bcf", &["T", "X"]),
    ("bcfraw", &["-"]),
    ("cram", &["C"]),
    ("ubam", &["U"]),
    ("ubamraw", &["U"]),
    ("usam", &["U"]),
    ("usamgz", &["U"]),
    ("uvbcf", &["V"]),
    ("uvbcfraw", &["V"]),
    ("uvvcf", &["V"]),
    ("uvvcfgz", &["V"]),
    ("bsam", &["B"]),
    ("bsamgz", &["B"]),
    ("bvcf", &["B"]),
    ("bvcfgz", &["B"]),
    ("sam", &["-"]),
    ("samgz", &["T", "X"]),
    ("vcf", &["-"]),
    ("vcfgz", &["T", "X"]),
    ("fasta", &["-"]),
    ("fastq", &["-"]),
    ("gff", &["-"]),
    ("gtf", &["-"]),
    ("bed", &["-"]),
    ("bai", &["-"]),
    ("csi", &["T", "X"]),
    ("tbi", &["T", "X"]),
    ("gzi", &["-"]),
    ("fai", &["-"]),
    ("crai", &["X"]),
];
/// writers that hand every buffer straight to the sink with write_all (modelled as `lwfmt`)
const UNBUFFERED: &[&str] = &["sam", "vcf", "bamraw", "bcfraw", "fasta", "fastq", "gff", "gtf", "bed", "bai", "gzi", "fai"];
/// formats with a "big" fixture class (seed % 7 == 0): more than one BGZF block of payload, so that
/// the block flush inside write()/write_record is reached and can fail there
const HAS_BIG: &[&str] = &[
    "bgzf", "mt", "bam", "bamraw", "bcf", "bcfraw", "sam", "samgz", "vcf", "vcfgz", "ubam", "ubamraw", "usam", "usamgz",
    "uvbcf", "uvbcfraw", "uvvcf", "uvvcfgz", "bsam", "bsamgz", "bvcf", "bvcfgz",
];

/// the file format a writer produces (selects the decoder)
fn file_format(fmt: &str) -> &str {
    match fmt {
        "ubam" => "bam",
        "ubamraw" => "bamraw",
        "usam" => "sam",
        "usamgz" => "samgz",
        "uvbcf" => "bcf",
        "uvbcfraw" => "bcfraw",
        "uvvcf" => "vcf",
        "uvvcfgz" => "vcfgz",
        "bsam" => "sam",
        "bsamgz" => "samgz",
        "bvcf" => "vcf",
        "bvcfgz" => "vcfgz",
        f => f,
    }
}

struct RunOut {
    results: Vec<Result<(), Vec<io::ErrorKind>>>,
    marks: Vec<usize>,
    bytes: Vec<u8>,
    calls: usize,
    failures: usize,
    panicked: Option<String>,
    log: Vec<Option<Vec<u8>>>,
}

impl RunOut {
    fn first_err(&self) -> Option<&Vec<io::ErrorKind>> {
        self.results.iter().find_map(|r| r.as_ref().err())
    }
    fn calls_before_drop(&self) -> usize {
        self.marks.last().copied().unwrap_or(0)
    }
    fn fmt_results(&self) -> String {
        if self.results.is_empty() {
            return "_".into();
        }
        self.results
            .iter()
            .map(|r| match r {
                Ok(()) => "Ok".to_string(),
                // the innermost io::Error of the chain: some writers (VCF records) wrap the sink's
                // error in an InvalidInput error of their own
                Err(ch) => format!("E{}", kind_code(*ch.last().unwrap())),
            })
            .collect::<Vec<_>>()
            .join(",")
    }
}

fn run_plain(fmt: &str, ending: &str, fx: &Fx, script: Vec<Fault>, log: bool) -> RunOut {
    let sink = TSink::new(script, log);
    let mut tr = Tr {
        sink: sink.clone(),
        results: vec![],
        marks: vec![],
    };
    let s2 = sink.clone();
    let out = guarded(AssertUnwindSafe(|| drive(fmt, ending, fx, s2, &mut tr)));
    let st = sink.inner.0.lock().unwrap();
    RunOut {
        results: tr.results,
        marks: tr.marks,
        bytes: st.bytes.clone(),
        calls: st.write_calls + st.flush_calls,
        failures: st.failures_injected,
        panicked: match out {
            Outcome::Done(()) => None,
            Outcome::Panicked(m) => Some(m),
        },
        log: sink.log.as_ref().map(|l| l.lock().unwrap().clone()).unwrap_or_default(),
    }
}

// The multithreaded writer compresses on rayon's *current* pool.  The harness itself runs cases on
// the global pool, so an MT writer life runs on a private pool (one life at a time) under a
// watchdog; a hang poisons all later MT cases instead of stalling the run.
static MT_POOL: OnceLock<rayon::ThreadPool> = OnceLock::new();
static MT_LOCK: Mutex<()> = Mutex::new(());
static MT_HUNG: AtomicBool = AtomicBool::new(false);

fn run_mt(ending: &str, fx: Arc<Fx>, script: Vec<Fault>) -> Option<RunOut> {
    if MT_HUNG.load(Ordering::SeqCst) {
        return None;
    }
    let _g = MT_LOCK.lock().unwrap_or_else(|e| e.into_inner());
    let pool = MT_POOL.get_or_init(|| rayon::ThreadPoolBuilder::new().num_threads(3).build().unwrap());
    let (tx, rx) = mpsc::channel();
    let ending = ending.to_string();
    pool.spawn(move || {
        let out = run_plain("mt", &ending, &fx, script, false);
        let _ = tx.send(out);
    });
    match rx.recv_timeout(Duration::from_secs(20)) {
        Ok(o) => Some(o),
        Err(_) => {
            MT_HUNG.store(true, Ordering::SeqCst);
            None
        }
    }
}

fn run_life(fmt: &str, ending: &str, fx: &Arc<Fx>, script: Vec<Fault>, log: bool) -> Option<RunOut> {
    if fmt == "mt" {
        run_mt(ending, fx.clone(), script)
    } else {
        Some(run_plain(fmt, ending, fx, script, log))
    }
}

// ---------------------------------------------------------------------------------------------
// decoding a finished file with the matching noodles reader -> canonical text

fn ends_with_eof(bs: &[u8]) -> bool {
    bs.len() >= 28 && bs[bs.len() - 28..] == BGZF_EOF
}

fn decode(fmt: &str, bs: &[u8]) -> Result<String, String> {
    let fmt = file_format(fmt).to_string();
    let bs = bs.to_vec();
    match guarded(move || decode_inner(&fmt, &bs)) {
        Outcome::Done(r) => r.map_err(|e| format!("{:?}", e.kind())),
        Outcome::Panicked(m) => Err(format!("panic {m}")),
    }
}

/// headers hold hash maps (Debug order varies between instances): print them as text instead
fn sam_header_text(h: &sam::Header) -> String {
    let mut w = sam::io::Writer::new(Vec::new());
    w.write_header(h).expect("header to Vec");
    hex(&w.into_inner())
}
fn vcf_header_text(h: &vcf::Header) -> String {
    let mut w = vcf::io::Writer::new(Vec::new());
    w.write_header(h).expect("header to Vec");
    hex(&w.into_inner())
}

fn decode_inner(fmt: &str, bs: &[u8]) -> io::Result<String> {
    let mut out = String::new();
    let gz = matches!(fmt, "bgzf" | "mt" | "bam" | "bcf" | "samgz" | "vcfgz" | "csi" | "tbi");
    if gz {
        out.push_str(&format!("eof={} ", ends_with_eof(bs) as u8));
        // every byte of the file must belong to a well-formed BGZF block
        let mut r = bgzf::io::Reader::new(bs);
        let mut sinkhole = Vec::new();
        r.read_to_end(&mut sinkhole)?;
    }
    match fmt {
        "bgzf" | "mt" => {
            let mut r = bgzf::io::Reader::new(bs);
            let mut data = Vec::new();
            r.read_to_end(&mut data)?;
            out.push_str(&format!("n={} {}", data.len(), fmt_bytes(&data)));
        }
        "bamraw" => {
            let mut r = bam::io::Reader::from(bs);
            let h = r.read_header()?;
            out.push_str(&format!("H {}\n", sam_header_text(&h)));
            let mut n = 0;
            for rec in r.records() {
                out.push_str(&format!("R {:?}\n", rec?));
                n += 1;
            }
            out.push_str(&format!("n={n}"));
        }
        "bcfraw" => {
            let mut r = bcf::io::Reader::from(bs);
            let h = r.read_header()?;
            out.push_str(&format!("H {}\n", vcf_header_text(&h)));
            let mut n = 0;
            for rec in r.record_bufs(&h) {
                out.push_str(&format!("R {:?}\n", rec?));
                n += 1;
            }
            out.push_str(&format!("n={n}"));
        }
        "bam" => {
            let mut r = bam::io::Reader::new(bs);
            let h = r.read_header()?;
            out.push_str(&format!("H {}\n", sam_header_text(&h)));
            let mut n = 0;
            for rec in r.records() {
                out.push_str(&format!("R {:?}\n", rec?));
                n += 1;
            }
            out.push_str(&format!("n={n}"));
        }
        "cram" => {
            let mut r = cram::io::Reader::new(bs);
            let h = r.read_header()?;
            out.push_str(&format!("H {}\n", sam_header_text(&h)));
            let mut n = 0;
            for rec in r.records(&h) {
                out.push_str(&format!("R {:?}\n", rec?));
                n += 1;
            }
            // the file must end with the CRAM EOF container
            let mut r2 = cram::io::Reader::new(bs);
            r2.read_header()?;
            let mut c = cram::io::reader::Container::default();
            // read_container returns 0 only at the EOF container; a truncated stream is an error
            while r2.read_container(&mut c)? != 0 {}
            out.push_str(&format!("eofc=1 n={n}"));
        }
        "sam" | "samgz" => {
            let src: Box<dyn BufRead> = if gz { Box::new(bgzf::io::Reader::new(bs)) } else { Box::new(bs) };
            let mut r = sam::io::Reader::new(src);
            let h = r.read_header()?;
            out.push_str(&format!("H {}\n", sam_header_text(&h)));
            let mut n = 0;
            for rec in r.record_bufs(&h) {
                out.push_str(&format!("R {:?}\n", rec?));
                n += 1;
            }
            out.push_str(&format!("n={n}"));
        }
        "bcf" => {
            let mut r = bcf::io::Reader::new(bs);
            let h = r.read_header()?;
            out.push_str(&format!("H {}\n", vcf_header_text(&h)));
            let mut n = 0;
            for rec in r.record_bufs(&h) {
                out.push_str(&format!("R {:?}\n", rec?));
                n += 1;
            }
            out.push_str(&format!("n={n}"));
        }
        "vcf" | "vcfgz" => {
            let src: Box<dyn BufRead> = if gz { Box::new(bgzf::io::Reader::new(bs)) } else { Box::new(bs) };
            let mut r = vcf::io::Reader::new(src);
            let h = r.read_header()?;
            out.push_str(&format!("H {}\n", vcf_header_text(&h)));
            let mut n = 0;
            for rec in r.record_bufs(&h) {
                out.push_str(&format!("R {:?}\n", rec?));
                n += 1;
            }
            out.push_str(&format!("n={n}"));
        }
        "fasta" => {
            let mut n = 0;
            for rec in fasta::io::Reader::new(bs).records() {
                out.push_str(&format!("R {:?}\n", rec?));
                n += 1;
            }
            out.push_str(&format!("n={n}"));
        }
        "fastq" => {
            let mut n = 0;
            for rec in fastq::io::Reader::new(bs).records() {
                out.push_str(&format!("R {:?}\n", rec?));
                n += 1;
            }
            out.push_str(&format!("n={n}"));
        }
        "gff" => {
            let mut n = 0;
            for l in gff::io::Reader::new(bs).line_bufs() {
                out.push_str(&format!("L {:?}\n", l?));
                n += 1;
            }
            out.push_str(&format!("n={n}"));
        }
        "gtf" => {
            let mut n = 0;
            for l in gtf::io::Reader::new(bs).line_bufs() {
                out.push_str(&format!("L {:?}\n", l?));
                n += 1;
            }
            out.push_str(&format!("n={n}"));
        }
        "bed" => {
            let mut r = bed::io::Reader::<3, _>::new(bs);
            let mut rec = bed::Record::<3>::default();
            let mut n = 0;
            while r.read_record(&mut rec)? != 0 {
                out.push_str(&format!("R {rec:?}\n"));
                n += 1;
            }
            out.push_str(&format!("n={n}"));
        }
        "bai" => out.push_str(&format!("{:?} n=1", bam::bai::io::Reader::new(bs).read_index()?)),
        "csi" => out.push_str(&format!("{:?} n=1", csi::io::Reader::new(bs).read_index()?)),
        "tbi" => out.push_str(&format!("{:?} n=1", tabix::io::Reader::new(bs).read_index()?)),
        "gzi" => out.push_str(&format!("{:?} n=1", bgzf::gzi::io::Reader::new(bs).read_index()?)),
        "fai" => out.push_str(&format!("{:?} n=1", fasta::fai::io::Reader::new(bs).read_index()?)),
        "crai" => {
            let ix = cram::crai::io::Reader::new(bs).read_index()?;
            out.push_str(&format!("{:?} n={}", ix, ix.len()));
        }
        f => panic!("decode {f}"),
    }
    Ok(out)
}

// ---------------------------------------------------------------------------------------------
// the fault-free reference life

struct Reference {
    bytes: Vec<u8>,
    n_calls: usize,
    decoded: String,
    log: Vec<Option<Vec<u8>>>,
    marks: Vec<usize>,
    /// two fault-free lives produced the same bytes (the CRAM writer iterates hash maps when it
    /// lays out its compression header, so its output is only reproducible up to decoding)
    deterministic: bool,
}

fn reference(fmt: &str, ending: &str, fx: &Arc<Fx>, log: bool) -> Result<Reference, (String, String)> {
    let Some(out) = run_life(fmt, ending, fx, vec![], log) else {
        return Err(("mt-finish-hang".into(), "fault-free run".into()));
    };
    if let Some(p) = &out.panicked {
        return Err((format!("{fmt}-panic-fault-free"), p.clone()));
    }
    if let Some(e) = out.first_err() {
        return Err((format!("{fmt}-error-fault-free"), format!("{e:?}")));
    }
    let decoded = match decode(fmt, &out.bytes) {
        Ok(d) => d,
        Err(e) => return Err((format!("{fmt}-reference-undecodable"), format!("ending={ending} {e}"))),
    };
    // "decodes to exactly what was written": the payload itself for BGZF, the item count otherwise
    // (field-level round trips are the business of the codec properties)
    let want = match &**fx {
        Fx::Chunks(c) => {
            let all: Vec<u8> = c.iter().flat_map(|(b, _)| b.iter().copied()).collect();
            format!("n={} {}", all.len(), fmt_bytes(&all))
        }
        _ => format!("n={}", fx.count()),
    };
    if !decoded.ends_with(&want) {
        return Err((
            format!("{fmt}-reference-content-differs"),
            format!("ending={ending} want suffix {want}"),
        ));
    }
    if decoded.starts_with("eof=0") {
        let tag = if fmt == "bgzf" && ending == "D" { "bgzf-drop-missing-eof".to_string() } else { format!("{fmt}-missing-eof") };
        return Err((tag, format!("ending={ending} fault-free output does not end with the EOF block")));
    }
    let deterministic = match run_life(fmt, ending, fx, vec![], false) {
        Some(o2) => o2.bytes == out.bytes,
        None => return Err(("mt-finish-hang".into(), "fault-free run".into())),
    };
    Ok(Reference {
        deterministic,
        bytes: out.bytes,
        n_calls: out.calls,
        decoded,
        log: out.log,
        marks: out.marks,
    })
}

/// Drop after a successful try_finish() writes a second EOF block: is the sink exactly the complete
/// file followed by a (possibly empty) proper prefix of that second block?
fn is_partial_second_eof(reference: &[u8], got: &[u8]) -> bool {
    if reference.len() < 56 || !ends_with_eof(reference) || !ends_with_eof(&reference[..reference.len() - 28]) {
        return false;
    }
    let complete = &reference[..reference.len() - 28];
    got.len() < reference.len() && got.starts_with(complete) && BGZF_EOF.starts_with(&got[complete.len()..])
}

/// oracle (a): one failure was injected (consumed by inner call number `fail_at`); some call must
/// report it, or the file must be complete
fn check_failure(
    fmt: &str,
    ending: &str,
    rf: &Reference,
    what: &str,
    kind: io::ErrorKind,
    fail_at: usize,
    had_interrupted: bool,
    out: &RunOut,
) -> Result<(), (String, String)> {
    if let Some(p) = &out.panicked {
        return Err((format!("{fmt}-panic-on-sink-error"), format!("ending={ending} {what} {p}")));
    }
    if out.failures == 0 {
        return Ok(()); // the failing call was never reached (cannot happen for k < N)
    }
    match out.first_err() {
        Some(chain) => {
            if chain.contains(&kind) {
                Ok(())
            } else if chain[0] == io::ErrorKind::Interrupted && had_interrupted {
                Err((
                    format!("{fmt}-interrupted-not-retried"),
                    format!("ending={ending} {what} reported={chain:?}"),
                ))
            } else {
                Err((
                    format!("{fmt}-sink-error-kind-changed"),
                    format!("ending={ending} {what} injected={kind:?} reported={chain:?}"),
                ))
            }
        }
        None => {
            // every explicit call returned Ok although the sink failed once
            let in_drop = fail_at >= out.calls_before_drop();
            if in_drop && ending == "D" {
                // this protocol has no finish call: the failure happened in Drop, where no Result
                // can be observed (recorded in checks/C14.json)
                return Ok(());
            }
            match decode(fmt, &out.bytes) {
                Ok(d) if d == rf.decoded => Ok(()),
                other => {
                    let tag = if fmt == "bam"
                        && ending == "R"
                        && in_drop
                        && ends_with_eof(&rf.bytes)
                        && out.bytes.len() < rf.bytes.len()
                        && out.bytes.starts_with(&rf.bytes[..rf.bytes.len() - 28])
                        && BGZF_EOF.starts_with(&out.bytes[rf.bytes.len() - 28..])
                    {
                        // everything but the EOF marker is there: the generic trait impl flushed
                        // the data, the marker itself is still written by Drop
                        "bam-trait-finish-eof-in-drop".to_string()
                    } else if ending == "V" && in_drop {
                        // the generic variant writer's finish() did not finish the stream
                        "util-variant-writer-cannot-finish".to_string()
                    } else if ending == "B"
                        && in_drop
                        && ends_with_eof(&rf.bytes)
                        && out.bytes.len() < rf.bytes.len()
                        && out.bytes.starts_with(&rf.bytes[..rf.bytes.len() - 28])
                        && BGZF_EOF.starts_with(&out.bytes[rf.bytes.len() - 28..])
                    {
                        // Writer<Box<dyn Write>>: flush wrote the data blocks, the EOF marker is
                        // left to Drop
                        "builder-bgzf-eof-in-drop".to_string()
                    } else if (fmt == "bam" && ending == "R" || ending == "U") && in_drop {
                        // the alignment writers' finish does not finish (or flush) the stream
                        "bam-trait-finish-noop".to_string()
                    } else if in_drop && ending == "T" && is_partial_second_eof(&rf.bytes, &out.bytes) {
                        "bgzf-second-eof-in-drop".to_string()
                    } else {
                        format!("{fmt}-sink-error-swallowed")
                    };
                    Err((
                        tag,
                        format!(
                            "fmt={fmt} ending={ending} {what} kind={kind:?} in_drop={in_drop} all {} calls returned Ok, sink has {} of {} bytes, decode={}",
                            out.results.len(),
                            out.bytes.len(),
                            rf.bytes.len(),
                            match other {
                                Ok(_) => "differs".to_string(),
                                Err(e) => format!("Err({e})"),
                            }
                        ),
                    ))
                }
            }
        }
    }
}

/// oracle (b): no failure was injected; the output must be byte-identical and every call Ok
fn check_benign(fmt: &str, ending: &str, rf: &Reference, what: &str, out: &RunOut) -> Result<(), (String, String)> {
    if let Some(p) = &out.panicked {
        return Err((format!("{fmt}-panic-on-short-write"), format!("ending={ending} {what} {p}")));
    }
    if let Some(chain) = out.first_err() {
        let tag = if chain[0] == io::ErrorKind::Interrupted {
            format!("{fmt}-interrupted-not-retried")
        } else {
            format!("{fmt}-short-write-error")
        };
        return Err((tag, format!("ending={ending} {what} reported={chain:?}")));
    }
    if !rf.deterministic {
        // byte identity is not defined for this writer: same length and same decoded content
        return match decode(fmt, &out.bytes) {
            Ok(d) if d == rf.decoded && out.bytes.len() == rf.bytes.len() => Ok(()),
            other => Err((
                format!("{fmt}-short-write-corrupts"),
                format!("ending={ending} {what} (non-deterministic writer) {} vs {} bytes, decode {}", out.bytes.len(), rf.bytes.len(),
                    match other { Ok(_) => "differs".to_string(), Err(e) => format!("Err({e})") }),
            )),
        };
    }
    if out.bytes != rf.bytes {
        let d = out.bytes.iter().zip(&rf.bytes).position(|(a, b)| a != b).unwrap_or(out.bytes.len().min(rf.bytes.len()));
        let tag = if what.contains('I') && !what.contains('S') {
            format!("{fmt}-interrupted-not-retried")
        } else {
            format!("{fmt}-short-write-corrupts")
        };
        return Err((
            tag,
            format!("ending={ending} {what} got {} bytes, want {}, first difference at {d}", out.bytes.len(), rf.bytes.len()),
        ));
    }
    Ok(())
}

/// benign scripts: pattern id -> (name, script)
fn benign_script(pattern: u64, rng: &mut Rng, total_bytes: usize, n_calls: usize) -> (String, Vec<Fault>) {
    let len = total_bytes + 2 * n_calls + 16;
    match pattern {
        0 => ("S1-everywhere".into(), vec![Fault::Short(1); len]),
        1 => ("S-random".into(), (0..len).map(|_| Fault::Short(rng.range(1, 9) as usize)).collect()),
        2 => (
            "I-before-every-call".into(),
            (0..2 * n_calls + 4).map(|i| if i % 2 == 0 { Fault::Interrupted } else { Fault::Full }).collect(),
        ),
        3 => (
            "I+S-mix".into(),
            (0..len)
                .map(|_| match rng.below(4) {
                    0 => Fault::Interrupted,
                    1 => Fault::Full,
                    2 => Fault::Short(1),
                    _ => Fault::Short(rng.range(2, 40) as usize),
                })
                .collect(),
        ),
        4 => {
            let mut v = vec![Fault::Interrupted; 3];
            v.extend((0..len).map(|i| if i % 3 == 0 { Fault::Interrupted } else { Fault::Short(2) }));
            ("III+S2".into(), v)
        }
        _ => (
            "S-large".into(),
            (0..len).map(|_| Fault::Short(*rng.pick(&[1usize, 17, 18, 25, 26, 27, 28, 4096, 65535]))).collect(),
        ),
    }
}

// ---------------------------------------------------------------------------------------------
// generation

fn gen_script(rng: &mut Rng, n: usize, with_fail: bool) -> Vec<Fault> {
    let mut v: Vec<Fault> = (0..n)
        .map(|_| match rng.below(6) {
            0 => Fault::Interrupted,
            1 => Fault::Short(1),
            2 => Fault::Short(rng.range(0, 9) as usize),
            _ => Fault::Full,
        })
        .collect();
    if with_fail && n > 0 {
        let k = rng.below(n as u64) as usize;
        let code = if rng.chance(1, 12) { 0 } else { *rng.pick(INJECT) };
        v[k] = Fault::Fail(code_kind(code));
        if rng.chance(1, 4) {
            // a second failure (only reached if the first one was an Interrupted kind)
            let k2 = rng.below(n as u64) as usize;
            v[k2] = Fault::Fail(code_kind(*rng.pick(INJECT)));
        }
    }
    v
}

fn fmt_ops(log: &[Option<Vec<u8>>], marks: &[usize]) -> String {
    // split the logged inner calls at the marks (one group per explicit operation)
    if marks.is_empty() {
        return "_".into();
    }
    let mut out = Vec::new();
    let mut at = 0;
    for &m in marks {
        let calls: Vec<String> = log[at..m]
            .iter()
            .map(|c| match c {
                Some(b) => hex(b),
                None => "FL".to_string(),
            })
            .collect();
        out.push(if calls.is_empty() { "-".to_string() } else { calls.join(",") });
        at = m;
    }
    out.join(";")
}

/// split a BGZF stream into its data frames (EOF blocks removed)
fn data_frames(bs: &[u8]) -> Vec<Vec<u8>> {
    let mut v = Vec::new();
    let mut at = 0;
    while at + 18 <= bs.len() {
        let bsize = u16::from_le_bytes([bs[at + 16], bs[at + 17]]) as usize + 1;
        let f = bs[at..at + bsize].to_vec();
        if f != BGZF_EOF {
            v.push(f);
        }
        at += bsize;
    }
    v
}

#[derive(Clone, Debug)]
enum BOp {
    W(usize),
    F,
    T,
    X,
}

fn fmt_bops(ops: &[BOp]) -> String {
    if ops.is_empty() {
        return "_".into();
    }
    ops.iter()
        .map(|o| match o {
            BOp::W(n) => format!("W{n}"),
            BOp::F => "F".into(),
            BOp::T => "T".into(),
            BOp::X => "X".into(),
        })
        .collect::<Vec<_>>()
        .join(",")
}
fn parse_bops(s: &str) -> Vec<BOp> {
    if s == "_" {
        return vec![];
    }
    s.split(',')
        .map(|t| match t.as_bytes()[0] {
            b'W' => BOp::W(t[1..].parse().unwrap()),
            b'F' => BOp::F,
            b'T' => BOp::T,
            _ => BOp::X,
        })
        .collect()
}

/// one life of a bgzf::io::Writer driven by explicit ops
fn run_bops(ops: &[BOp], seed: u64, script: Vec<Fault>) -> RunOut {
    let total: usize = ops.iter().map(|o| if let BOp::W(n) = o { *n } else { 0 }).sum();
    let data = pattern(seed, total);
    let sink = TSink::new(script, false);
    let mut tr = Tr {
        sink: sink.clone(),
        results: vec![],
        marks: vec![],
    };
    let s2 = sink.clone();
    let out = guarded(AssertUnwindSafe(|| {
        let tr = &mut tr;
        let mut w = bgzf::io::Writer::new(s2);
        let mut at = 0;
        for o in ops {
            match o {
                BOp::W(n) => {
                    let buf = &data[at..at + n];
                    at += n;
                    op!(tr, w.write_all(buf));
                }
                BOp::F => op!(tr, w.flush()),
                BOp::T => op!(tr, w.try_finish()),
                BOp::X => {
                    op!(tr, w.finish().map(|_| ()));
                    return;
                }
            }
        }
    }));
    let st = sink.inner.0.lock().unwrap();
    RunOut {
        results: tr.results,
        marks: tr.marks,
        bytes: st.bytes.clone(),
        calls: st.write_calls + st.flush_calls,
        failures: st.failures_injected,
        panicked: match out {
            Outcome::Done(()) => None,
            Outcome::Panicked(m) => Some(m),
        },
        log: vec![],
    }
}

// ---------------------------------------------------------------------------------------------
// L2: the multithreaded writer, format writers over BGZF, CRAM

/// one life of a bgzf::io::MultithreadedWriter driven by explicit ops, then finish(); runs on the
/// private 3-thread pool under the watchdog
fn run_mt_bops(ops: Vec<BOp>, seed: u64, script: Vec<Fault>) -> Option<RunOut> {
    if MT_HUNG.load(Ordering::SeqCst) {
        return None;
    }
    let _g = MT_LOCK.lock().unwrap_or_else(|e| e.into_inner());
    let pool = MT_POOL.get_or_init(|| rayon::ThreadPoolBuilder::new().num_threads(3).build().unwrap());
    let (tx, rx) = mpsc::channel();
    pool.spawn(move || {
        let total: usize = ops.iter().map(|o| if let BOp::W(n) = o { *n } else { 0 }).sum();
        let data = pattern(seed, total);
        let sink = TSink::new(script, false);
        let mut tr = Tr {
            sink: sink.clone(),
            results: vec![],
            marks: vec![],
        };
        let s2 = sink.clone();
        let out = guarded(AssertUnwindSafe(|| {
            let tr = &mut tr;
            let mut w = bgzf::io::MultithreadedWriter::new(s2);
            let mut at = 0;
            for o in &ops {
                match o {
                    BOp::W(n) => {
                        let buf = &data[at..at + n];
                        at += n;
                        op!(tr, w.write_all(buf));
                    }
                    _ => op!(tr, w.flush()),
                }
            }
            op!(tr, w.finish().map(|_| ()));
        }));
        let st = sink.inner.0.lock().unwrap();
        let _ = tx.send(RunOut {
            results: tr.results,
            marks: tr.marks,
            bytes: st.bytes.clone(),
            calls: st.write_calls + st.flush_calls,
            failures: st.failures_injected,
            panicked: match out {
                Outcome::Done(()) => None,
                Outcome::Panicked(m) => Some(m),
            },
            log: vec![],
        });
    });
    match rx.recv_timeout(Duration::from_secs(20)) {
        Ok(o) => Some(o),
        Err(_) => {
            MT_HUNG.store(true, Ordering::SeqCst);
            None
        }
    }
}

/// a call made by a format layer on the BGZF writer below it
#[derive(Clone, Copy, Debug, PartialEq)]
enum LCall {
    WA(usize),
    W(usize),
    FL,
}

/// `Write` placed between a format writer and the BGZF writer: records the calls, forwards them
struct LogW<W: Write> {
    inner: W,
    log: Arc<Mutex<Vec<LCall>>>,
}

impl<W: Write> Write for LogW<W> {
    fn write(&mut self, buf: &[u8]) -> io::Result<usize> {
        self.log.lock().unwrap().push(LCall::W(buf.len()));
        self.inner.write(buf)
    }
    fn write_all(&mut self, buf: &[u8]) -> io::Result<()> {
        self.log.lock().unwrap().push(LCall::WA(buf.len()));
        self.inner.write_all(buf)
    }
    fn flush(&mut self) -> io::Result<()> {
        self.log.lock().unwrap().push(LCall::FL);
        self.inner.flush()
    }
}

const FOB_FORMATS: &[&str] = &["bam", "bcf", "samgz", "vcfgz", "csi", "tbi"];

/// one life of a format writer over bgzf::io::Writer over the sink; `cm` receives the length of
/// the call log after each explicit operation
fn drive_fob(fmt: &str, ending: &str, fx: &Fx, sink: TSink, tr: &mut Tr, log: &Arc<Mutex<Vec<LCall>>>, cm: &mut Vec<usize>) {
    macro_rules! fop {
        ($e:expr) => {{
            let ok = tr.op(|| $e);
            cm.push(log.lock().unwrap().len());
            if !ok {
                return;
            }
        }};
    }
    let lw = |sink: TSink| LogW {
        inner: bgzf::io::Writer::new(sink),
        log: log.clone(),
    };
    match (fmt, fx) {
        ("bam", Fx::Sam(h, recs)) => {
            use sam::alignment::io::Write as _;
            let mut w = bam::io::Writer::from(lw(sink));
            fop!(w.write_header(h));
            for r in recs {
                fop!(w.write_alignment_record(h, r));
            }
            match ending {
                "X" => fop!(w.into_inner().inner.finish().map(|_| ())),
                _ => fop!(w.get_mut().inner.try_finish()),
            }
        }
        ("samgz", Fx::Sam(h, recs)) => {
            use sam::alignment::io::Write as _;
            let mut w = sam::io::Writer::new(lw(sink));
            fop!(w.write_header(h));
            for r in recs {
                fop!(w.write_alignment_record(h, r));
            }
            match ending {
                "X" => fop!(w.into_inner().inner.finish().map(|_| ())),
                _ => fop!(w.get_mut().inner.try_finish()),
            }
        }
        ("bcf", Fx::Vcf(h, recs)) => {
            use vcf::variant::io::Write as _;
            let mut w = bcf::io::Writer::from(lw(sink));
            fop!(w.write_header(h));
            for r in recs {
                fop!(w.write_variant_record(h, r));
            }
            match ending {
                "X" => fop!(w.into_inner().inner.finish().map(|_| ())),
                _ => fop!(w.get_mut().inner.try_finish()),
            }
        }
        ("vcfgz", Fx::Vcf(h, recs)) => {
            use vcf::variant::io::Write as _;
            let mut w = vcf::io::Writer::new(lw(sink));
            fop!(w.write_header(h));
            for r in recs {
                fop!(w.write_variant_record(h, r));
            }
            match ending {
                "X" => fop!(w.into_inner().inner.finish().map(|_| ())),
                _ => fop!(w.get_mut().inner.try_finish()),
            }
        }
        ("csi", Fx::Csi(ix)) => {
            let mut w = csi::io::Writer::new(sink);
            fop!(w.write_index(ix));
            match ending {
                "X" => fop!(w.into_inner().finish().map(|_| ())),
                _ => fop!(w.get_mut().try_finish()),
            }
        }
        ("tbi", Fx::Tbi(ix)) => {
            let mut w = tabix::io::Writer::new(sink);
            fop!(w.write_index(ix));
            match ending {
                "X" => fop!(w.into_inner().finish().map(|_| ())),
                _ => fop!(w.try_finish()),
            }
        }
        _ => panic!("drive_fob {fmt}"),
    }
}

/// (life, calls of each explicit operation on the BGZF writer)
fn run_fob_life(fmt: &str, ending: &str, fx: &Fx, script: Vec<Fault>) -> (RunOut, Vec<Vec<LCall>>) {
    let sink = TSink::new(script, false);
    let mut tr = Tr {
        sink: sink.clone(),
        results: vec![],
        marks: vec![],
    };
    let log = Arc::new(Mutex::new(Vec::new()));
    let mut cm = Vec::new();
    let s2 = sink.clone();
    let out = guarded(AssertUnwindSafe(|| drive_fob(fmt, ending, fx, s2, &mut tr, &log, &mut cm)));
    let st = sink.inner.0.lock().unwrap();
    let log = log.lock().unwrap().clone();
    let mut per_op = Vec::new();
    let mut at = 0;
    for m in cm {
        per_op.push(log[at..m].to_vec());
        at = m;
    }
    (
        RunOut {
            results: tr.results,
            marks: tr.marks,
            bytes: st.bytes.clone(),
            calls: st.write_calls + st.flush_calls,
            failures: st.failures_injected,
            panicked: match out {
                Outcome::Done(()) => None,
                Outcome::Panicked(m) => Some(m),
            },
            log: vec![],
        },
        per_op,
    )
}

/// the `ops` argument of a fob case from a fault-free life; None if the format layer made a call
/// the model has no operation for (a bare `write`)
fn fob_ops(fmt: &str, ending: &str, rf: &RunOut, per_op: &[Vec<LCall>]) -> Option<String> {
    let mut ops: Vec<String> = Vec::new();
    let n = per_op.len();
    for (i, calls) in per_op.iter().enumerate() {
        if i + 1 == n {
            ops.push(ending.to_string());
            break;
        }
        if matches!(fmt, "csi" | "tbi") {
            // the BGZF layer is private: the operation is represented by one write_all of the
            // whole payload (c14_bgzf_stream_of_concatenation: only the sum matters)
            let mut data = Vec::new();
            bgzf::io::Reader::new(&rf.bytes[..]).read_to_end(&mut data).ok()?;
            ops.push(format!("W{}", data.len()));
            continue;
        }
        let mut v = Vec::new();
        for c in calls {
            match c {
                LCall::WA(k) => v.push(format!("W{k}")),
                LCall::FL => v.push("F".to_string()),
                LCall::W(_) => return None,
            }
        }
        ops.push(if v.is_empty() { "-".to_string() } else { v.join(",") });
    }
    Some(ops.join(";"))
}

fn fmt_frames(frames: &[Vec<u8>]) -> String {
    if frames.is_empty() { "_".to_string() } else { frames.iter().map(|f| hex(f)).collect::<Vec<_>>().join(",") }
}

/// one life of the CRAM writer with the buffers it hands to the sink, per explicit operation
fn cram_ops(rf: &Reference) -> String {
    let mut out = Vec::new();
    let mut at = 0;
    for &m in &rf.marks {
        let v: Vec<String> = rf.log[at..m]
            .iter()
            .map(|c| match c {
                Some(b) => b.len().to_string(),
                None => "FL".to_string(),
            })
            .collect();
        out.push(if v.is_empty() { "-".to_string() } else { v.join(",") });
        at = m;
    }
    out.join(";")
}

fn gen_deepen(rng: &mut Rng, thorough: bool, w: &mut CaseWriter) {
    let scale = if thorough { 10 } else { 1 };
    // --- L2: the multithreaded writer
    for i in 0..60 * scale {
        let nops = rng.range(0, 5);
        let mut ops = Vec::new();
        let big = i % 6 == 0;
        for j in 0..nops {
            ops.push(if rng.chance(1, 5) {
                BOp::F
            } else if big && j == 0 {
                BOp::W(*rng.pick(&[MAX_BUF_SIZE - 1, MAX_BUF_SIZE, MAX_BUF_SIZE + 1, 2 * MAX_BUF_SIZE, 3 * MAX_BUF_SIZE + 7]))
            } else {
                BOp::W(rng.below(60) as usize)
            });
        }
        let seed = rng.next() >> 8;
        let Some(rf) = run_mt_bops(ops.clone(), seed, vec![]) else {
            w.push("sweep", vec!["mt".into(), "M".into(), seed.to_string(), "2".into()]);
            continue;
        };
        let frames = data_frames(&rf.bytes);
        let n = rf.calls + 2;
        let sc = match i % 8 {
            0 => vec![],
            1 => {
                // a failure at a uniformly chosen call of the fault-free life
                let mut v = vec![Fault::Full; rng.below(rf.calls as u64) as usize];
                v.push(Fault::Fail(code_kind(*rng.pick(INJECT))));
                v
            }
            _ => {
                let sl = rng.below(n as u64 + 1) as usize;
                gen_script(rng, sl, i % 2 == 0)
            }
        };
        w.push(
            "mt",
            vec![
                "3".into(),
                fmt_script(&sc),
                fmt_bops(&ops),
                seed.to_string(),
                fmt_frames(&frames),
                (i % 2).to_string(),
            ],
        );
    }
    // --- L2: format writers over the BGZF writer
    for round in 0..(2 * scale) {
        for fmt in FOB_FORMATS {
            for ending in ["T", "X"] {
                let mut seed = rng.next() >> 8;
                let big = round == 0 && ending == "T" && HAS_BIG.contains(fmt);
                seed -= seed % 7;
                if !big {
                    seed += 1 + rng.below(6);
                }
                let fx = fixture(fmt, seed);
                let (rf, per_op) = run_fob_life(fmt, ending, &fx, vec![]);
                if rf.panicked.is_some() || rf.first_err().is_some() {
                    w.push("sweep", vec![fmt.to_string(), ending.to_string(), seed.to_string(), "2".into()]);
                    continue;
                }
                let Some(ops) = fob_ops(fmt, ending, &rf, &per_op) else {
                    continue;
                };
                let frames = fmt_frames(&data_frames(&rf.bytes));
                // (the model counts in unary: an operation sequence of 10^5 one-byte writes costs
                // 10^5 x MAX_BUF_SIZE steps, so the big class is only used where the format layer
                // hands the BGZF writer whole records)
                if ops.len() > 12_000 || ops.len() + frames.len() > 400_000 {
                    continue;
                }
                let n = rf.calls;
                let staged_only = rf.marks.len() >= 2 && rf.marks[rf.marks.len() - 2] == 0;
                let mut scripts: Vec<Vec<Fault>> = Vec::new();
                if (staged_only || n <= 45) && frames.len() < 4000 && round < 2 {
                    // everything fits the staging buffer: the sink is only touched by the finishing
                    // call; a failure at EVERY call made during try_finish / finish
                    let kind = code_kind(INJECT[(round + n) % INJECT.len()]);
                    for k in 0..n {
                        let mut v = vec![Fault::Full; k];
                        v.push(Fault::Fail(kind));
                        scripts.push(v);
                    }
                } else {
                    for _ in 0..3 {
                        let mut v = vec![Fault::Full; rng.below(n as u64) as usize];
                        v.push(Fault::Fail(code_kind(*rng.pick(INJECT))));
                        scripts.push(v);
                    }
                }
                scripts.push(vec![]);
                for j in 0..(if frames.len() < 4000 { 3 } else { 1 }) {
                    let sl = rng.below(n as u64 + 3) as usize;
                    scripts.push(gen_script(rng, sl, j != 0));
                }
                for sc in scripts {
                    w.push(
                        "fob",
                        vec![fmt.to_string(), ending.to_string(), seed.to_string(), fmt_script(&sc), ops.clone(), frames.clone()],
                    );
                }
            }
        }
    }
    // --- L3: the fs::write convenience functions of the index writers on a full device
    for fmt in ["csi", "tbi", "bai", "gzi", "fai", "crai", "crai0"] {
        for _ in 0..(if thorough { 5 } else { 1 }) {
            w.push("fsfull", vec![fmt.to_string(), (rng.next() >> 8).to_string()]);
        }
    }
    // --- L2: the CRAM writer's use of its sink
    for _ in 0..(4 * scale) {
        let seed = (rng.next() >> 8) | 1;
        let seed = if seed % 7 == 0 { seed + 2 } else { seed };
        let fx = Arc::new(fixture("cram", seed));
        let Ok(rf) = reference("cram", "C", &fx, true) else {
            w.push("sweep", vec!["cram".into(), "C".into(), seed.to_string(), "2".into()]);
            continue;
        };
        let ops = cram_ops(&rf);
        if ops.contains("FL") || ops.len() > 20000 {
            continue;
        }
        let n = rf.n_calls;
        for j in 0..6 {
            let sc = match j {
                0 => vec![],
                1 | 2 => {
                    let mut v = vec![Fault::Full; rng.below(n as u64) as usize];
                    v.push(Fault::Fail(code_kind(*rng.pick(INJECT))));
                    v
                }
                _ => {
                    // no Short events: the buffer lengths (not only the bytes) differ from one
                    // fault-free run to the next, and with them the number of calls a short-writing
                    // sink sees; Full / Interrupted / Fail scripts are insensitive to lengths
                    let sl = rng.below(n as u64 + 3) as usize;
                    gen_script(rng, sl, j % 2 == 0)
                        .into_iter()
                        .map(|f| if let Fault::Short(_) = f { Fault::Full } else { f })
                        .collect()
                }
            };
            w.push("cram", vec![seed.to_string(), fmt_script(&sc), ops.clone()]);
        }
    }
}

/// `<index>::fs::write(path, &index)` on a destination that is full (/dev/full: every write fails
/// with ENOSPC): the one call there is must return the error
fn run_fsfull(c: &Case) -> Obs {
    let (fmt, seed) = (c.args[0].as_str(), c.u(1));
    let dst = "/dev/full";
    if std::fs::OpenOptions::new().write(true).open(dst).and_then(|mut f| f.write_all(b"x")).is_ok() {
        // no /dev/full on this system
        return Obs {
            obs: "-".into(),
            verdict: "skip".into(),
            nontrivial: false,
        };
    }
    // crai0 = an index without records: the gzip encoder makes no write at all before Drop (with
    // records its first write emits the gzip header, which fails at once on a full device)
    let fx = if fmt == "crai0" { Fx::Crai(vec![]) } else { fixture(fmt, seed) };
    // an FAI index without records is the empty file: nothing has to be written, Ok(()) is right
    // (every other format writes at least a magic number / a count / a compressed-stream header)
    if let Fx::Fai(ix) = &fx {
        let recs: &[fasta::fai::Record] = ix.as_ref();
        if recs.is_empty() {
            return Obs::ok("-", false);
        }
    }
    let r = guarded(AssertUnwindSafe(|| match (fmt, &fx) {
        ("csi", Fx::Csi(ix)) => csi::fs::write(dst, ix),
        ("tbi", Fx::Tbi(ix)) => tabix::fs::write(dst, ix),
        ("bai", Fx::Bai(ix)) => bam::bai::fs::write(dst, ix),
        ("gzi", Fx::Gzi(ix)) => bgzf::gzi::fs::write(dst, ix),
        ("fai", Fx::Fai(ix)) => fasta::fai::fs::write(dst, ix),
        ("crai" | "crai0", Fx::Crai(recs)) => cram::crai::fs::write(dst, recs),
        _ => panic!("fsfull {fmt}"),
    }));
    match r {
        Outcome::Panicked(p) => Obs::fail("-", &format!("{fmt}-panic-on-sink-error"), p),
        Outcome::Done(Err(_)) => Obs::ok("-", true),
        Outcome::Done(Ok(())) => Obs::fail(
            "-",
            // (crai::fs::write was not part of the repair 932fe81 of the other five)
            if fmt.starts_with("crai") { "crai-fs-write-error-lost-in-drop" } else { "fs-write-error-lost-in-drop" },
            format!("fmt={fmt} seed={seed} {fmt}::fs::write(\"/dev/full\", ..) returned Ok(()) although no byte could be written"),
        ),
    }
}

fn run_mtl(c: &Case) -> Obs {
    let script = parse_script(&c.args[1]);
    let ops = parse_bops(&c.args[2]);
    let seed = c.u(3);
    let Some(out) = run_mt_bops(ops.clone(), seed, script.clone()) else {
        return Obs::fail("-", "mt-finish-hang", format!("ops={} script={}", c.args[2], c.args[1]));
    };
    if let Some(p) = &out.panicked {
        return Obs::fail("Panic", "mt-panic-on-sink-error", p);
    }
    let Some(rf) = run_mt_bops(ops.clone(), seed, vec![]) else {
        return Obs::fail("-", "mt-finish-hang", "fault-free run");
    };
    // which call reports the error depends on the schedule; that one does, and which error, not
    let res = match out.first_err() {
        None => "Ok".to_string(),
        Some(ch) => format!("E{}", kind_code(*ch.last().unwrap())),
    };
    let obs = format!("{res}|calls={}|{}", out.calls, fmt_bytes(&out.bytes));
    let v = verdict_scripted(&script, &out, &rf.bytes, "M").map_err(|(t, d)| (format!("mt-{t}"), d));
    Obs::ok(obs, !script.is_empty() && !ops.is_empty()).with_verdict(v)
}

fn run_fob(c: &Case) -> Obs {
    let (fmt, ending, seed) = (c.args[0].as_str(), c.args[1].as_str(), c.u(2));
    let script = parse_script(&c.args[3]);
    let fx = fixture(fmt, seed);
    let (out, _) = run_fob_life(fmt, ending, &fx, script.clone());
    if let Some(p) = &out.panicked {
        return Obs::fail("Panic", &format!("{fmt}-panic-on-sink-error"), p);
    }
    let (rf, _) = run_fob_life(fmt, ending, &fx, vec![]);
    let mut v = verdict_scripted(&script, &out, &rf.bytes, ending).map_err(|(t, d)| (format!("{fmt}-{t}"), d));
    // the staging-buffer case: a consumed failure must be returned by the finishing call itself
    // (c14_small_file_error_at_finish)
    let staged_only = rf.marks.len() >= 2 && rf.marks[rf.marks.len() - 2] == 0;
    if v.is_ok() && out.failures > 0 && staged_only {
        let real = script.iter().any(|f| matches!(f, Fault::Fail(k) if *k != io::ErrorKind::Interrupted));
        let n_ops = rf.results.len();
        if real && !(out.results.len() == n_ops && out.results[n_ops - 1].is_err()) {
            v = Err((
                format!("{fmt}-finish-error-not-reported-by-finish"),
                format!("ending={ending} results={}", out.fmt_results()),
            ));
        }
    }
    Obs::ok(obs_of(&out), !script.is_empty()).with_verdict(v)
}

fn run_cram(c: &Case) -> Obs {
    let seed = c.u(0);
    let script = parse_script(&c.args[1]);
    let fx = fixture("cram", seed);
    let out = run_plain("cram", "C", &fx, script.clone(), false);
    if let Some(p) = &out.panicked {
        return Obs::fail("Panic", "cram-panic-on-sink-error", p);
    }
    let want_len: usize = c.args[2]
        .split(';')
        .flat_map(|op| op.split(','))
        .filter_map(|t| t.parse::<usize>().ok())
        .sum();
    let real = script.iter().any(|f| matches!(f, Fault::Fail(k) if *k != io::ErrorKind::Interrupted));
    let _ = want_len; // lengths are not reproducible between runs (see checks/C14.json)
    let v = if !real && out.first_err().is_some() {
        Err(("cram-short-write-error".to_string(), format!("results={} bytes={}", out.fmt_results(), out.bytes.len())))
    } else if out.failures > 0 && out.first_err().is_none() && real {
        Err(("cram-sink-error-swallowed".to_string(), format!("results={}", out.fmt_results())))
    } else {
        Ok(())
    };
    let obs = format!("{}|calls={}", out.fmt_results(), out.calls);
    Obs::ok(obs, !script.is_empty()).with_verdict(v)
}

fn generate(rng: &mut Rng, tier: &str, w: &mut CaseWriter) {
    let thorough = tier == "thorough";
    let scale = if thorough { 12 } else { 1 };

    // --- L2: write_all over the faulty sink
    for i in 0..200 * scale {
        let len = match i % 5 {
            0 => rng.below(3),
            1 => rng.range(1, 8),
            _ => rng.range(1, 40),
        } as usize;
        let buf = rng.bytes(len);
        let n = rng.below(len as u64 + 4) as usize;
        let sc = gen_script(rng, n, i % 2 == 0);
        w.push("wa", vec![fmt_script(&sc), hex(&buf)]);
    }
    // --- L2: `?`-chains of write_all / flush
    for i in 0..150 * scale {
        let nops = rng.range(0, 4);
        let mut ops = Vec::new();
        let mut ncalls = 0;
        for _ in 0..nops {
            let nc = rng.range(0, 4);
            let calls: Vec<String> = (0..nc)
                .map(|_| {
                    ncalls += 1;
                    if rng.chance(1, 5) {
                        "FL".to_string()
                    } else {
                        let bl = rng.below(9) as usize;
                        hex(&rng.bytes(bl))
                    }
                })
                .collect();
            ops.push(if calls.is_empty() { "-".to_string() } else { calls.join(",") });
        }
        let n = rng.below(ncalls as u64 * 2 + 3) as usize;
        let sc = gen_script(rng, n, i % 2 == 0);
        w.push("lw", vec![fmt_script(&sc), if ops.is_empty() { "_".into() } else { ops.join(";") }]);
    }
    // --- L2: real unbuffered writers as `?`-chains
    for round in 0..(3 * scale) {
        for fmt in UNBUFFERED {
            let mut seed = rng.next() >> 8;
            if seed % 7 == 0 {
                seed += 1; // the big class is too long for a case line
            }
            let _ = round;
            let fx = Arc::new(fixture(fmt, seed));
            let Ok(rf) = reference(fmt, "-", &fx, true) else {
                w.push("sweep", vec![fmt.to_string(), "-".into(), seed.to_string(), "2".into()]);
                continue;
            };
            let ops = fmt_ops(&rf.log, &rf.marks);
            if ops.len() > 6000 {
                continue;
            }
            for j in 0..4 {
                let n = rf.n_calls + 2;
                let sc = if j == 0 && round == 0 { vec![] } else { gen_script(rng, n, j % 2 == 1) };
                w.push("lwfmt", vec![fmt.to_string(), seed.to_string(), fmt_script(&sc), ops.clone()]);
            }
        }
    }
    // --- L2: the BGZF writer state machine
    for i in 0..160 * scale {
        let nops = rng.range(0, 5);
        let mut ops = Vec::new();
        let big = i % 10 == 0;
        for j in 0..nops {
            ops.push(match rng.below(7) {
                0 => BOp::F,
                1 if rng.chance(1, 2) => BOp::T,
                _ => {
                    if big && j == 0 {
                        BOp::W(*rng.pick(&[MAX_BUF_SIZE - 1, MAX_BUF_SIZE, MAX_BUF_SIZE + 1, 2 * MAX_BUF_SIZE, 2 * MAX_BUF_SIZE + 1]))
                    } else if big && rng.chance(1, 2) {
                        BOp::W(*rng.pick(&[0usize, 1, 2]))
                    } else {
                        BOp::W(rng.below(50) as usize)
                    }
                }
            });
        }
        match rng.below(3) {
            0 => ops.push(BOp::X),
            1 => ops.push(BOp::T),
            _ => {}
        }
        let seed = rng.next() >> 8;
        let rf = run_bops(&ops, seed, vec![]);
        let frames = data_frames(&rf.bytes);
        let n = rf.calls + 2;
        let sl = rng.below(n as u64 + 1) as usize;
        let sc = if i % 8 == 0 { vec![] } else { gen_script(rng, sl, i % 2 == 0) };
        let frames_s = if frames.is_empty() { "_".to_string() } else { frames.iter().map(|f| hex(f)).collect::<Vec<_>>().join(",") };
        w.push(
            "bg",
            vec![MAX_BUF_SIZE.to_string(), fmt_script(&sc), fmt_bops(&ops), seed.to_string(), frames_s],
        );
    }

    gen_deepen(rng, thorough, w);
    c14_deep4::gen_mta(rng, thorough, w);
    c14_deep4::gen_ixc(rng, thorough, w);
    c14_deep4::gen_async(rng, thorough, w);
    c14_deep4::gen_awfmt(rng, thorough, w);
    c14_deep7::gen_ixb(rng, thorough, w);
    c14_deep7::gen_fol(rng, thorough, w);
    c14_deep7::gen_crc(rng, thorough, w);
    c14_deep4::gen_abz(rng, thorough, w);
    c14_deep10::gen_ixf(rng, thorough, w);

    // --- L3: failure at every inner call, for every writer of the quantifier
    let rounds = if thorough { 10 } else { 2 };
    for round in 0..rounds {
        for (fmt, endings) in FORMATS {
            for ending in *endings {
                let mut seed = rng.next() >> 8;
                if HAS_BIG.contains(fmt) {
                    // round 0 (and every 4th) uses the big fixture class, the others never do
                    seed -= seed % 7;
                    if round % 4 != 0 {
                        seed += 1 + round as u64 % 6;
                    }
                }
                let nk = if thorough { INJECT.len() } else { 3 };
                for j in 0..nk {
                    let kind = INJECT[(round * 3 + j) % INJECT.len()];
                    w.push("sweep", vec![fmt.to_string(), ending.to_string(), seed.to_string(), kind.to_string()]);
                }
                for pattern in 0..6u64 {
                    w.push(
                        "short",
                        vec![fmt.to_string(), ending.to_string(), seed.to_string(), pattern.to_string(), rng.next().to_string()],
                    );
                }
                w.push("mix", vec![fmt.to_string(), ending.to_string(), seed.to_string(), rng.next().to_string()]);
            }
        }
    }
    // --- L3: dropping a BGZF writer without finish
    for _ in 0..(if thorough { 300 } else { 40 }) {
        w.push("drop", vec![(rng.next() >> 8).to_string(), rng.below(7).to_string(), rng.next().to_string()]);
    }
}

// ---------------------------------------------------------------------------------------------
// running

fn obs_of(out: &RunOut) -> String {
    format!("{}|calls={}|{}", out.fmt_results(), out.calls, fmt_bytes(&out.bytes))
}

/// the generic property evaluated on one scripted life (used for the modelled kinds too);
/// `finishing` = the last explicit op finishes the file (otherwise Drop does, unobservably)
fn verdict_scripted(script: &[Fault], out: &RunOut, want: &[u8], ending: &str) -> Result<(), (String, String)> {
    let fail_at = script.iter().position(|f| matches!(f, Fault::Fail(k) if *k != io::ErrorKind::Interrupted));
    match fail_at {
        None => {
            if out.first_err().is_some() || out.bytes != want {
                return Err(("short-write-corrupts".into(), format!("results={} bytes={}", out.fmt_results(), out.bytes.len())));
            }
        }
        Some(k) => {
            if out.failures > 0 && out.first_err().is_none() && out.bytes != want {
                let in_drop = k >= out.calls_before_drop();
                if in_drop && ending == "T" && is_partial_second_eof(want, &out.bytes) {
                    if out.bytes.len() + 28 == want.len() {
                        return Ok(()); // the second EOF block is missing entirely: the file is complete
                    }
                    return Err(("second-eof-in-drop".into(), format!("fmt=bgzf ending=T results={} k={k}", out.fmt_results())));
                }
                if !(in_drop && ending == "D") {
                    return Err(("sink-error-swallowed".into(), format!("results={} k={k}", out.fmt_results())));
                }
            }
        }
    }
    Ok(())
}

fn run_wa(c: &Case) -> Obs {
    let script = parse_script(&c.args[0]);
    let buf = c.b(1);
    let mut s = FaultySink::new(script.clone());
    let r = s.write_all(&buf);
    let res = match &r {
        Ok(()) => "Ok".to_string(),
        Err(e) => format!("E{}", kind_code(e.kind())),
    };
    let obs = format!("{res}|calls={}|{}", s.calls(), fmt_bytes(&s.bytes()));
    let real_fail = script.iter().any(|f| matches!(f, Fault::Fail(k) if *k != io::ErrorKind::Interrupted));
    let v = if !real_fail && (r.is_err() || s.bytes() != buf) {
        Err(("std-write-all-short-write".to_string(), obs.clone()))
    } else if r.is_ok() && s.bytes() != buf {
        Err(("std-write-all-swallowed".to_string(), obs.clone()))
    } else {
        Ok(())
    };
    Obs::ok(obs, !script.is_empty() && !buf.is_empty()).with_verdict(v)
}

fn run_lw(c: &Case) -> Obs {
    let script = parse_script(&c.args[0]);
    let mut s = FaultySink::new(script.clone());
    let mut results = Vec::new();
    let mut want = Vec::new();
    if c.args[1] != "_" {
        for op in c.args[1].split(';') {
            let calls: Vec<&str> = if op == "-" { vec![] } else { op.split(',').collect() };
            for call in &calls {
                if *call != "FL" {
                    want.extend(nv::unhex(call));
                }
            }
        }
        for op in c.args[1].split(';') {
            let calls: Vec<&str> = if op == "-" { vec![] } else { op.split(',').collect() };
            let r: io::Result<()> = (|| {
                for call in &calls {
                    if *call == "FL" {
                        s.flush()?;
                    } else {
                        s.write_all(&nv::unhex(call))?;
                    }
                }
                Ok(())
            })();
            match r {
                Ok(()) => results.push("Ok".to_string()),
                Err(e) => {
                    results.push(format!("E{}", kind_code(e.kind())));
                    break;
                }
            }
        }
    }
    let rs = if results.is_empty() { "_".to_string() } else { results.join(",") };
    let obs = format!("{rs}|calls={}|{}", s.calls(), fmt_bytes(&s.bytes()));
    let all_ok = results.iter().all(|r| r == "Ok");
    let v = if all_ok && s.failures() == 0 && s.bytes() != want {
        Err(("std-chain-corrupts".to_string(), obs.clone()))
    } else {
        Ok(())
    };
    Obs::ok(obs, !script.is_empty()).with_verdict(v)
}

fn run_lwfmt(c: &Case) -> Obs {
    let fmt = c.args[0].as_str();
    let seed = c.u(1);
    let script = parse_script(&c.args[2]);
    let fx = fixture(fmt, seed);
    let out = run_plain(fmt, "-", &fx, script.clone(), false);
    if let Some(p) = &out.panicked {
        return Obs::fail("Panic", &format!("{fmt}-panic-on-sink-error"), p);
    }
    // what a fault-free run writes (from the case's own record of it)
    let want: Vec<u8> = c.args[3]
        .split(';')
        .flat_map(|op| op.split(','))
        .filter(|t| !matches!(*t, "FL" | "-" | "_"))
        .flat_map(nv::unhex)
        .collect();
    let v = verdict_scripted(&script, &out, &want, "-").map_err(|(t, d)| (format!("{fmt}-{t}"), d));
    Obs::ok(obs_of(&out), !script.is_empty()).with_verdict(v)
}

fn run_bg(c: &Case) -> Obs {
    let script = parse_script(&c.args[1]);
    let ops = parse_bops(&c.args[2]);
    let seed = c.u(3);
    let out = run_bops(&ops, seed, script.clone());
    if let Some(p) = &out.panicked {
        return Obs::fail("Panic", "bgzf-panic-on-sink-error", p);
    }
    let rf = run_bops(&ops, seed, vec![]);
    let ending = match ops.last() {
        Some(BOp::X) => "X",
        Some(BOp::T) => "T",
        _ => "D",
    };
    let v = verdict_scripted(&script, &out, &rf.bytes, ending).map_err(|(t, d)| (format!("bgzf-{t}"), d));
    Obs::ok(obs_of(&out), !script.is_empty() && !ops.is_empty()).with_verdict(v)
}

fn run_sweep(c: &Case) -> Obs {
    let (fmt, ending, seed) = (c.args[0].as_str(), c.args[1].as_str(), c.u(2));
    let kind = code_kind(c.u(3) as u32);
    let fx = Arc::new(fixture(fmt, seed));
    let rf = match reference(fmt, ending, &fx, false) {
        Ok(r) => r,
        Err((t, d)) => return Obs::fail("-", &t, format!("seed={seed} {d}")),
    };
    let n = rf.n_calls;
    if std::env::var("NV_C14_DEBUG").is_ok() {
        eprintln!("sweep {fmt} {ending} seed={seed} N={n} bytes={} marks={:?}", rf.bytes.len(), rf.marks);
    }
    let ks: Vec<usize> = if n <= 200 {
        (0..n).collect()
    } else {
        // every call of the first and last 40, and an even sample in between
        let mut v: Vec<usize> = (0..40).chain(n - 40..n).collect();
        v.extend((0..120).map(|i| 40 + i * (n - 80) / 120));
        v.sort_unstable();
        v.dedup();
        v
    };
    for k in ks {
        let mut script = vec![Fault::Full; k];
        script.push(Fault::Fail(kind));
        let Some(out) = run_life(fmt, ending, &fx, script, false) else {
            return Obs::fail("-", "mt-finish-hang", format!("seed={seed} k={k} kind={kind:?}"));
        };
        if let Err((t, d)) = check_failure(fmt, ending, &rf, &format!("seed={seed} k={k}/{n}"), kind, k, false, &out) {
            return Obs::fail("-", &t, d);
        }
    }
    Obs::ok("-", n >= 2)
}

fn run_short(c: &Case) -> Obs {
    let (fmt, ending, seed, pattern) = (c.args[0].as_str(), c.args[1].as_str(), c.u(2), c.u(3));
    let mut rng = Rng::new(c.u(4));
    let fx = Arc::new(fixture(fmt, seed));
    let rf = match reference(fmt, ending, &fx, false) {
        Ok(r) => r,
        Err((t, d)) => return Obs::fail("-", &t, format!("seed={seed} {d}")),
    };
    let (name, script) = benign_script(pattern, &mut rng, rf.bytes.len(), rf.n_calls);
    let Some(out) = run_life(fmt, ending, &fx, script, false) else {
        return Obs::fail("-", "mt-finish-hang", format!("seed={seed} pattern={name}"));
    };
    let v = check_benign(fmt, ending, &rf, &format!("seed={seed} pattern={name}"), &out);
    Obs::ok("-", !rf.bytes.is_empty()).with_verdict(v)
}

fn run_mix(c: &Case) -> Obs {
    let (fmt, ending, seed) = (c.args[0].as_str(), c.args[1].as_str(), c.u(2));
    let mut rng = Rng::new(c.u(3));
    let fx = Arc::new(fixture(fmt, seed));
    let rf = match reference(fmt, ending, &fx, false) {
        Ok(r) => r,
        Err((t, d)) => return Obs::fail("-", &t, format!("seed={seed} {d}")),
    };
    // short writes everywhere and one failure at a random later call, 40 times
    for _ in 0..40 {
        let s1 = rng.chance(1, 2);
        let len = if s1 { rf.bytes.len() + rf.n_calls } else { 2 * rf.n_calls };
        let k = rng.below(len as u64 + 1) as usize;
        let kind = code_kind(*rng.pick(INJECT));
        let mut script: Vec<Fault> = (0..k)
            .map(|_| if s1 { Fault::Short(1) } else { *rng.pick(&[Fault::Full, Fault::Short(3), Fault::Interrupted, Fault::Short(20)]) })
            .collect();
        script.push(Fault::Fail(kind));
        let Some(out) = run_life(fmt, ending, &fx, script, false) else {
            return Obs::fail("-", "mt-finish-hang", format!("seed={seed} mix k={k}"));
        };
        let what = format!("seed={seed} mix(short1={s1}) k={k}");
        if let Err((t, d)) = check_failure(fmt, ending, &rf, &what, kind, k, !s1, &out) {
            return Obs::fail("-", &t, d);
        }
    }
    Obs::ok("-", rf.n_calls >= 2)
}

fn run_drop(c: &Case) -> Obs {
    let seed = c.u(0);
    let pattern = c.u(1);
    let mut rng = Rng::new(c.u(2));
    let fx = Arc::new(fixture("bgzf", seed));
    let Fx::Chunks(chunks) = &*fx else { unreachable!() };
    let payload: Vec<u8> = chunks.iter().flat_map(|(b, _)| b.iter().copied()).collect();
    let total = payload.len();
    let script = if pattern == 6 { vec![] } else { benign_script(pattern, &mut rng, total + 200, 64).1 };
    let out = run_plain("bgzf", "D", &fx, script, false);
    if let Some(p) = &out.panicked {
        return Obs::fail("-", "bgzf-panic-on-drop", p);
    }
    if out.first_err().is_some() {
        return Obs::fail("-", "bgzf-short-write-error", format!("seed={seed} {}", out.fmt_results()));
    }
    if !ends_with_eof(&out.bytes) {
        return Obs::fail("-", "bgzf-drop-missing-eof", format!("seed={seed} pattern={pattern} {} bytes", out.bytes.len()));
    }
    let mut data = Vec::new();
    if let Err(e) = bgzf::io::Reader::new(&out.bytes[..]).read_to_end(&mut data) {
        return Obs::fail("-", "bgzf-drop-undecodable", format!("seed={seed} {e}"));
    }
    if data != payload {
        return Obs::fail(
            "-",
            "bgzf-drop-loses-staged-data",
            format!("seed={seed} pattern={pattern} decoded {} of {} bytes", data.len(), total),
        );
    }
    Obs::ok("-", total > 0)
}

fn run(c: &Case) -> Obs {
    match c.kind.as_str() {
        "wa" => run_wa(c),
        "lw" => run_lw(c),
        "lwfmt" => run_lwfmt(c),
        "bg" => run_bg(c),
        "mt" => run_mtl(c),
        "mta" => c14_deep4::run_mta(c),
        "ixc" => c14_deep4::run_ixc(c),
        "awa" | "afq" => c14_deep4::run_async(c),
        "awfmt" => c14_deep4::run_awfmt(c),
        "ixb" => c14_deep7::run_ixb(c),
        "ixf" => c14_deep10::run_ixf(c),
        "crc" => c14_deep7::run_crc(c),
        "abz" => c14_deep4::run_abz(c),
        "fob" => run_fob(c),
        "cram" => run_cram(c),
        "fsfull" => run_fsfull(c),
        "sweep" => run_sweep(c),
        "short" => run_short(c),
        "mix" => run_mix(c),
        "drop" => run_drop(c),
        k => Obs::fail("-", "harness-unknown-kind", k),
    }
}

fn main() {
    nv::main_with(generate, run);
}
