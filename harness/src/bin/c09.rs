//! C09: VCF records and headers round-trip through text; lazy and eager views agree.
//!
//! Modelled kinds (obs compared with the extracted Coq model NV.Vcf.{Values,Span,Record}):
//!   inf  ver num ty val ftab          one INFO field X of header type (num,ty): written INFO column,
//!                                     eager (RecordBuf) and lazy (vcf::Record) parse of it
//!   smp  ver defs vals ftab           one sample column for FORMAT keys defs (GT | key/num/ty)
//!   ptxt i ver num ty hex             parse arbitrary ASCII INFO field text X=<...> both ways
//!   ptxt f ver defs hex               parse arbitrary ASCII sample column text both ways
//!   span ver pos reflen end sv lens   variant_end/variant_span: on the built RecordBuf, on the re-read
//!                                     RecordBuf and on the lazy record
//!   line ver infodefs fmtdefs ns rec ftab valid   a whole record: written line, eager and lazy re-read, spans
//!   ltxt ver infodefs fmtdefs ns hextext ftab     arbitrary line text through both readers (see c09_line.rs)
//!   multi ver infodefs fmtdefs ns rec^rec^.. ftab  records of one file read into reused buffers vs the single-line model
//!   eloop ver infodefs fmtdefs ns hextext ftab     arbitrary bytes through read_record_buf into ONE RecordBuf, going on after Err, vs NV.Vcf.EagerLoop
//!   lloop ver infodefs fmtdefs ns hextext ftab     arbitrary bytes through read_record into ONE lazy Record, going on after Err, vs NV.Vcf.LazyLoop
//!   lzb  ver infodefs fmtdefs ns hextext ftab      arbitrary bytes through read_record + every accessor vs NV.Vcf.LazyRec
//!   hw spec valid / hp hexlines                   headers against NV.Vcf.Header (see c09_hdr.rs)
//! Implementation-only oracles (obs "-"):
//!   rec  seed ver feat                generated header + record: write/read equality, lazy accessors
//!                                     vs eager, spans, text fixed point
//!   hdr  seed ver feat                generated header text: parse/write fixed point and equality
//!   ovl  ver hex                      INFO column over a pool of overlapping keys (END/MATEEND/CIEND/..,
//!                                     SVLEN/XSVLEN/.., AC/MLEAC/..): lazy Info::get for every pool key vs the
//!                                     eager map, variant_end / variant_span lazy vs eager
//!   bad  hex                          malformed record line: no panic, lazy/eager agree on failure
//! value specs: M | B | I<int> | F<bits> | C<codepoint> | S<hex> | AI.. AF.. AC.. AS.. (',' joined,
//! '.' = missing entry) | G(/|'|')(pos|.)...

use std::panic::AssertUnwindSafe;

use noodles_core::Position;
use noodles_vcf::{
    self as vcf,
    variant::{
        RecordBuf,
        io::Write as _,
        record::{Info as _, Samples as _, samples::Sample as _, samples::Series as _},
        record_buf::{Samples as BSamples, samples::Keys},
    },
};
use nv::{Case, CaseWriter, Obs, Outcome, Rng, guarded, hex, unhex};

#[path = "../shared/c09_val.rs"]
mod val;
use val::*;
#[path = "../shared/c09_rec.rs"]
mod rec;
#[path = "../shared/c09_line.rs"]
mod line;
#[path = "../shared/c09_hdr.rs"]
mod hdr;
#[path = "../shared/c09_file.rs"]
mod file;

// -------------------------------------------------------------------------------------------
// plumbing around the real reader / writer

pub enum R<T> {
    Ok(T),
    Err,
    Panic,
}

pub fn g<T>(f: impl FnOnce() -> Result<T, ()>) -> R<T> {
    match guarded(AssertUnwindSafe(f)) {
        Outcome::Done(Ok(v)) => R::Ok(v),
        Outcome::Done(Err(())) => R::Err,
        Outcome::Panicked(_) => R::Panic,
    }
}

/// one record line (without the trailing LF) from vcf::io::Writer
pub fn write_line(header: &vcf::Header, record: &RecordBuf) -> R<String> {
    g(|| {
        let mut w = vcf::io::Writer::new(Vec::new());
        w.write_variant_record(header, record).map_err(|_| ())?;
        let mut s = String::from_utf8(w.into_inner()).map_err(|_| ())?;
        if s.ends_with('\n') {
            s.pop();
        }
        Ok(s)
    })
}

pub fn read_eager(header: &vcf::Header, line: &str) -> R<RecordBuf> {
    g(|| {
        let data = format!("{line}\n");
        let mut r = vcf::io::Reader::new(data.as_bytes());
        let mut rb = RecordBuf::default();
        match r.read_record_buf(header, &mut rb) {
            Ok(0) => Err(()),
            Ok(_) => Ok(rb),
            Err(e) => {
                if std::env::var("NV_C09_DEBUG").is_ok() {
                    eprintln!("read_record_buf: {e:?} :: {line}");
                }
                Err(())
            }
        }
    })
}

pub fn read_lazy(line: &str) -> R<vcf::Record> {
    g(|| {
        let data = format!("{line}\n");
        let mut r = vcf::io::Reader::new(data.as_bytes());
        let mut rec = vcf::Record::default();
        match r.read_record(&mut rec) {
            Ok(0) => Err(()),
            Ok(_) => Ok(rec),
            Err(_) => Err(()),
        }
    })
}

fn column(line: &str, i: usize) -> String {
    line.split('\t').nth(i).unwrap_or("").to_string()
}

fn base_record(info: vcf::variant::record_buf::Info, samples: BSamples) -> RecordBuf {
    RecordBuf::builder()
        .set_reference_sequence_name("sq0")
        .set_variant_start(Position::MIN)
        .set_reference_bases("A")
        .set_info(info)
        .set_samples(samples)
        .build()
}

fn rs<T>(r: &R<T>, f: impl Fn(&T) -> String) -> String {
    match r {
        R::Ok(v) => f(v),
        R::Err => "Err".into(),
        R::Panic => "Panic".into(),
    }
}

// ---- INFO field ---------------------------------------------------------------------------

fn eager_info(header: &vcf::Header, line: &str) -> R<OV> {
    match read_eager(header, line) {
        R::Ok(rb) => match rb.info().get("X") {
            Some(o) => R::Ok(o.map(from_binfo)),
            None => R::Err,
        },
        R::Err => R::Err,
        R::Panic => R::Panic,
    }
}

fn lazy_info(header: &vcf::Header, line: &str) -> R<OV> {
    match read_lazy(line) {
        R::Ok(rec) => g(|| match rec.info().get(header, "X") {
            Some(Ok(Some(v))) => from_linfo(v).map(Some),
            Some(Ok(None)) => Ok(None),
            Some(Err(_)) => Err(()),
            None => Err(()),
        }),
        R::Err => R::Err,
        R::Panic => R::Panic,
    }
}

fn i32_valid(n: i32) -> bool {
    n > i32::MIN + 7
}

/// is this a value the property quantifies over (must round-trip exactly)?
fn valid_value(v: &OV) -> bool {
    let fl = |b: u32| !f32::from_bits(b).is_nan() || b == 0x7fc0_0000;
    match v {
        None => true,
        Some(V::Int(n)) => i32_valid(*n),
        Some(V::Float(b)) => fl(*b),
        Some(V::Flag) => true,
        Some(V::Char(_)) => true,
        Some(V::Str(s)) => !s.is_empty(),
        Some(V::AI(l)) => !l.is_empty() && l.iter().flatten().all(|n| i32_valid(*n)),
        Some(V::AF(l)) => !l.is_empty() && l.iter().flatten().all(|b| fl(*b)),
        Some(V::AC(l)) => !l.is_empty(),
        Some(V::AS(l)) => !l.is_empty() && l.iter().flatten().all(|s| !s.is_empty()),
        Some(V::Gt(g)) => !g.is_empty(),
    }
}

fn write_must_fail(v: &OV) -> bool {
    match v {
        Some(V::Int(n)) => !i32_valid(*n),
        Some(V::AI(l)) => l.iter().flatten().any(|n| !i32_valid(*n)),
        _ => false,
    }
}

fn vkind(v: &OV) -> &'static str {
    match v {
        None => "missing",
        Some(V::Int(_)) => "int",
        Some(V::Float(_)) => "float",
        Some(V::Flag) => "flag",
        Some(V::Char(_)) => "char",
        Some(V::Str(_)) => "string",
        Some(V::AI(_)) => "intarr",
        Some(V::AF(_)) => "floatarr",
        Some(V::AC(_)) => "chararr",
        Some(V::AS(_)) => "strarr",
        Some(V::Gt(_)) => "gt",
    }
}

fn run_inf(c: &Case) -> Obs {
    let (ver, num, ty) = (&c.args[0], &c.args[1], &c.args[2]);
    let v = parse_spec(&c.args[3]);
    let header = mk_header(ver, &[("X".into(), num.clone(), ty.clone())], &[], &[]).expect("header");
    let info: vcf::variant::record_buf::Info = [("X".to_string(), v.as_ref().map(to_binfo))].into_iter().collect();
    let rb = base_record(info, BSamples::default());
    let modelled = !has_nonascii_char(&v);
    let line = match write_line(&header, &rb) {
        R::Ok(l) => l,
        R::Err => {
            let o = if modelled { "WErr" } else { "-" };
            return if write_must_fail(&v) {
                Obs::ok(o, true)
            } else {
                Obs::fail(o, &format!("info-{}-writer-rejects", vkind(&v)), &c.args[3])
            };
        }
        R::Panic => return Obs::fail("Panic", &format!("info-{}-writer-panic", vkind(&v)), &c.args[3]),
    };
    let col = column(&line, 7);
    let e = eager_info(&header, &line);
    let l = lazy_info(&header, &line);
    let obs = format!("{}|{}|{}", hex(col.as_bytes()), rs(&e, spec), rs(&l, spec));
    let obs = if modelled { obs } else { "-".into() };
    let verdict = judge_value("info", true, &v, &normalize_gt(true, &v), &e, &l, &col);
    Obs::ok(obs, true).with_verdict(verdict)
}

/// the round-trip claim for one value: eager == expected, lazy == expected
fn judge_value(what: &str, info: bool, orig: &OV, expect: &OV, e: &R<OV>, l: &R<OV>, text: &str) -> Result<(), (String, String)> {
    if matches!(e, R::Panic) || matches!(l, R::Panic) {
        return Err((format!("{what}-{}-reader-panic", vkind(orig)), text.into()));
    }
    if !valid_value(orig) {
        return Ok(());
    }
    let eok = matches!(e, R::Ok(x) if x == expect);
    let lok = matches!(l, R::Ok(x) if x == expect);
    if eok && lok {
        return Ok(());
    }
    let detail = format!("value={} text={text} eager={} lazy={}", spec(orig), rs(e, spec), rs(l, spec));
    let _ = info;
    let side = if !eok && !lok { "both" } else if !eok { "eager" } else { "lazy" };
    Err((format!("{what}-{}-roundtrip-{side}", vkind(orig)), detail))
}

// ---- sample column -------------------------------------------------------------------------

#[derive(Clone, Debug)]
pub struct FDef {
    pub key: String,
    pub num: String,
    pub ty: String,
}

fn parse_defs(s: &str) -> Vec<FDef> {
    s.split(',')
        .map(|d| {
            if d == "GT" {
                FDef { key: "GT".into(), num: "1".into(), ty: "S".into() }
            } else {
                let p: Vec<&str> = d.split('/').collect();
                FDef { key: p[0].into(), num: p[1].into(), ty: p[2].into() }
            }
        })
        .collect()
}

fn fmt_header(ver: &str, defs: &[FDef], nsamples: usize) -> vcf::Header {
    let formats: Vec<_> = defs.iter().map(|d| (d.key.clone(), d.num.clone(), d.ty.clone())).collect();
    let names: Vec<String> = (0..nsamples).map(|i| format!("s{i}")).collect();
    mk_header(ver, &[], &formats, &names).expect("header")
}

fn specs(vs: &[OV]) -> String {
    if vs.is_empty() {
        "_".into()
    } else {
        vs.iter().map(spec).collect::<Vec<_>>().join(";")
    }
}

fn eager_sample(header: &vcf::Header, line: &str) -> R<Vec<OV>> {
    match read_eager(header, line) {
        R::Ok(rb) => match rb.samples().get_index(0) {
            Some(s) => R::Ok(s.values().iter().map(|o| o.as_ref().map(from_bsmp)).collect()),
            None => R::Err,
        },
        R::Err => R::Err,
        R::Panic => R::Panic,
    }
}

fn lazy_sample(header: &vcf::Header, line: &str) -> R<Vec<OV>> {
    match read_lazy(line) {
        R::Ok(rec) => g(|| {
            let samples = rec.samples();
            let Some(s) = samples.iter().next() else { return Ok(vec![]) };
            let mut out = vec![];
            for r in s.iter(header) {
                match r {
                    Ok((_, Some(v))) => out.push(Some(from_lsmp(v)?)),
                    Ok((_, None)) => out.push(None),
                    Err(_) => return Err(()),
                }
            }
            Ok(out)
        }),
        R::Err => R::Err,
        R::Panic => R::Panic,
    }
}

/// before VCF 4.4 the first allele's phasing is not written: the reader derives it
pub fn normalize_gt(v44: bool, v: &OV) -> OV {
    // VCF text cannot tell a one-entry array whose entry is missing, or (before 4.4) a haploid
    // missing genotype, from a missing value: all are "."
    match v {
        Some(V::AI(l)) if l.len() == 1 && l[0].is_none() => return None,
        Some(V::AF(l)) if l.len() == 1 && l[0].is_none() => return None,
        Some(V::AC(l)) if l.len() == 1 && l[0].is_none() => return None,
        Some(V::AS(l)) if l.len() == 1 && l[0].is_none() => return None,
        Some(V::Gt(g)) if !v44 && g.len() == 1 && g[0].0.is_none() => return None,
        _ => {}
    }
    match v {
        Some(V::Gt(g)) if !v44 && !g.is_empty() => {
            let mut g = g.clone();
            g[0].1 = !g.iter().skip(1).any(|a| !a.1);
            Some(V::Gt(g))
        }
        _ => v.clone(),
    }
}

fn is_v44(ver: &str) -> bool {
    matches!(ver, "4.4" | "4.5")
}

fn run_smp(c: &Case) -> Obs {
    let ver = &c.args[0];
    let defs = parse_defs(&c.args[1]);
    let vals: Vec<OV> = if c.args[2] == "_" { vec![] } else { c.args[2].split(';').map(parse_spec).collect() };
    let header = fmt_header(ver, &defs, 1);
    let keys: Keys = defs.iter().map(|d| d.key.clone()).collect();
    let row: Vec<Option<_>> = vals.iter().map(|v| v.as_ref().map(to_bsmp)).collect();
    let rb = base_record(Default::default(), BSamples::new(keys, vec![row]));
    let modelled = !vals.iter().any(has_nonascii_char);
    let what = "sample";
    let line = match write_line(&header, &rb) {
        R::Ok(l) => l,
        R::Err => {
            let o = if modelled { "WErr" } else { "-" };
            return if vals.iter().any(write_must_fail) {
                Obs::ok(o, true)
            } else {
                Obs::fail(o, "sample-writer-rejects", &c.args[2])
            };
        }
        R::Panic => return Obs::fail("Panic", "sample-writer-panic", &c.args[2]),
    };
    let col = column(&line, 9);
    let e = eager_sample(&header, &line);
    let l = lazy_sample(&header, &line);
    let obs = format!("{}|{}|{}", hex(col.as_bytes()), rs(&e, |v| specs(v)), rs(&l, |v| specs(v)));
    let obs = if modelled { obs } else { "-".into() };
    // verdict
    let verdict = (|| {
        if matches!(e, R::Panic) || matches!(l, R::Panic) {
            return Err((format!("{what}-reader-panic"), col.clone()));
        }
        if !vals.iter().all(valid_value) {
            return Ok(());
        }
        let v44 = is_v44(ver);
        let mut expect: Vec<OV> = vals.iter().map(|v| normalize_gt(v44, v)).collect();
        if expect.len() == 1 && expect[0].is_none() {
            // (whatever the number of FORMAT keys)
            expect.clear(); // a sample that is "." as a whole reads back as no values
        }
        let detail = format!("vals={} text={col} eager={} lazy={}", c.args[2], rs(&e, |v| specs(v)), rs(&l, |v| specs(v)));
        let eok = matches!(&e, R::Ok(x) if *x == expect);
        let lok = matches!(&l, R::Ok(x) if *x == expect);
        if eok && lok {
            return Ok(());
        }
        // which value?
        let bad = vals.iter().find(|v| !matches!(v, None)).map(vkind).unwrap_or(if vals.is_empty() { "novalues" } else { "missing" });
        let side = if !eok && !lok { "both" } else if !eok { "eager" } else { "lazy" };
        Err((format!("sample-{bad}-roundtrip-{side}"), detail))
    })();
    Obs::ok(obs, true).with_verdict(verdict)
}

// ---- arbitrary text -------------------------------------------------------------------------

fn run_ptxt(c: &Case) -> Obs {
    let text = String::from_utf8(unhex(c.args.last().unwrap())).expect("ascii");
    if c.args[0] == "i" {
        let header = mk_header(&c.args[1], &[("X".into(), c.args[2].clone(), c.args[3].clone())], &[], &[]).expect("header");
        let line = format!("sq0\t1\t.\tA\t.\t.\t.\t{text}");
        let e = eager_info(&header, &line);
        let l = lazy_info(&header, &line);
        let obs = format!("{}|{}", rs(&e, spec), rs(&l, spec));
        if matches!(e, R::Panic) || matches!(l, R::Panic) {
            return Obs::fail(obs, "info-text-reader-panic", &text);
        }
        Obs::ok(obs, true)
    } else {
        let defs = parse_defs(&c.args[2]);
        let header = fmt_header(&c.args[1], &defs, 1);
        let fmt = defs.iter().map(|d| d.key.as_str()).collect::<Vec<_>>().join(":");
        let line = format!("sq0\t1\t.\tA\t.\t.\t.\t.\t{fmt}\t{text}");
        let e = eager_sample(&header, &line);
        let l = lazy_sample(&header, &line);
        let obs = format!("{}|{}", rs(&e, |v| specs(v)), rs(&l, |v| specs(v)));
        if matches!(e, R::Panic) || matches!(l, R::Panic) {
            return Obs::fail(obs, "sample-text-reader-panic", &text);
        }
        Obs::ok(obs, true)
    }
}

// ---- span -----------------------------------------------------------------------------------

fn span_of<T: vcf::variant::Record>(header: &vcf::Header, r: &T) -> String {
    let e = g(|| r.variant_end(header).map(usize::from).map_err(|_| ()));
    let s = g(|| r.variant_span(header).map_err(|_| ()));
    format!("{},{}", rs(&e, |n| format!("Ok:{n}")), rs(&s, |n| format!("Ok:{n}")))
}

pub fn svlen_number(ver: &str) -> &'static str {
    match ver {
        "4.4" | "4.5" => "A",
        _ => ".",
    }
}

fn run_span(c: &Case) -> Obs {
    let ver = &c.args[0];
    let pos: usize = c.args[1].parse().unwrap();
    let reflen: usize = c.args[2].parse().unwrap();
    let (end, sv, lens) = (&c.args[3], &c.args[4], &c.args[5]);
    let infos = vec![
        ("END".to_string(), "1".to_string(), "I".to_string()),
        ("SVLEN".to_string(), svlen_number(ver).to_string(), "I".to_string()),
    ];
    let lvals: Vec<OV> = if lens == "-" { vec![] } else { lens.split(';').map(parse_spec).collect() };
    let formats = if lens == "-" { vec![] } else { vec![("LEN".to_string(), "1".to_string(), "I".to_string())] };
    let names: Vec<String> = (0..lvals.len()).map(|i| format!("s{i}")).collect();
    let header = mk_header(ver, &infos, &formats, &names).expect("header");
    let mut info = vcf::variant::record_buf::Info::default();
    if end != "-" {
        info.insert("END".into(), parse_spec(end).as_ref().map(to_binfo));
    }
    if sv != "-" {
        info.insert("SVLEN".into(), parse_spec(sv).as_ref().map(to_binfo));
    }
    let samples = if lens == "-" {
        BSamples::default()
    } else {
        BSamples::new(
            ["LEN".to_string()].into_iter().collect(),
            lvals.iter().map(|v| vec![v.as_ref().map(to_bsmp)]).collect(),
        )
    };
    let mut b = RecordBuf::builder()
        .set_reference_sequence_name("sq0")
        .set_reference_bases("ACGT".repeat(reflen / 4 + 1)[..reflen].to_string())
        .set_alternate_bases(vec![String::from("<DEL>")].into())
        .set_info(info)
        .set_samples(samples);
    if pos > 0 {
        b = b.set_variant_start(Position::try_from(pos).unwrap());
    }
    let rb = b.build();
    let orig = span_of(&header, &rb);
    let line = match write_line(&header, &rb) {
        R::Ok(l) => l,
        R::Err => return Obs::ok("WErr", false),
        R::Panic => return Obs::fail("Panic", "span-writer-panic", c.line()),
    };
    let eager = match read_eager(&header, &line) {
        R::Ok(rb2) => span_of(&header, &rb2),
        R::Err => "RErr".into(),
        R::Panic => "RPanic".into(),
    };
    let lazy = match read_lazy(&line) {
        R::Ok(rec) => span_of(&header, &rec),
        R::Err => "RErr".into(),
        R::Panic => "RPanic".into(),
    };
    let obs = format!("{orig}|{eager}|{lazy}");
    // property: both views report the same span, equal to that of the written record; an END
    // before POS is an error (never a panic) in all three
    let verdict = if eager.starts_with('R') || lazy.starts_with('R') {
        Err(("span-record-unreadable".to_string(), format!("{line} -> {obs}")))
    } else if lazy != eager {
        Err((format!("span-lazy-ne-eager-v{ver}"), format!("{line} -> {obs}")))
    } else if eager != orig {
        Err((format!("span-changed-by-roundtrip-v{ver}"), format!("{line} -> {obs}")))
    } else if orig.contains("Panic") {
        Err(("span-panic".to_string(), format!("{line} -> {obs}")))
    } else {
        Ok(())
    };
    Obs::ok(obs, true).with_verdict(verdict)
}

// -------------------------------------------------------------------------------------------

fn run(c: &Case) -> Obs {
    match c.kind.as_str() {
        "inf" => run_inf(c),
        "smp" => run_smp(c),
        "ptxt" => run_ptxt(c),
        "span" => run_span(c),
        "hw" => hdr::run_hw(c),
        "hp" => hdr::run_hp(c),
        "line" => line::run_line(c),
        "ltxt" => line::run_ltxt(c),
        "multi" => line::run_multi(c),
        "lzb" => line::run_lzb(c),
        "eloop" => line::run_eloop(c),
        "lloop" => line::run_lloop(c),
        "file" => file::run_file(c),
        "ftxt" => file::run_ftxt(c),
        "rec" => rec::run_rec(c),
        "hdr" => rec::run_hdr(c),
        "bad" => rec::run_bad(c),
        "ovl" => rec::run_ovl(c),
        k => Obs::fail("-", "unknown-kind", k),
    }
}

fn generate(rng: &mut Rng, tier: &str, w: &mut CaseWriter) {
    rec::generate(rng, tier, w);
    // whole record lines against NV.Vcf.Line
    let thorough = tier == "thorough";
    let n = if thorough { 6000 } else { 500 };
    for i in 0..n {
        let mode = if i % 3 == 2 { 1 } else { 0 };
        line::gen_line(rng, rec::VERS[i % 4], mode, w);
    }
    line::gen_ltxt(rng, w, if thorough { 3000 } else { 250 });
    // the lazy Record's buffer and bounds against NV.Vcf.LazyRec (arbitrary bytes, whole files)
    line::gen_lzb(rng, w, if thorough { 6000 } else { 500 });
    // several records through one reused RecordBuf / the record_bufs() iterator / one reused lazy Record
    for i in 0..(if thorough { 3000 } else { 300 }) {
        line::gen_multi(rng, rec::VERS[i % 4], w);
    }
    // headers against NV.Vcf.Header
    for i in 0..(if thorough { 4000 } else { 300 }) {
        hdr::gen_hw(rng, w, i % 3 == 2);
    }
    hdr::gen_hp(rng, w, if thorough { 3000 } else { 250 });
    // whole files (header + records in one text) against NV.Vcf.File
    for _ in 0..(if thorough { 3000 } else { 250 }) {
        file::gen_file(rng, w);
    }
    file::gen_ftxt(rng, w, if thorough { 3000 } else { 250 });
    // the eager loop, every call kept, against NV.Vcf.EagerLoop (arbitrary bytes)
    line::gen_eloop(rng, w, if thorough { 4000 } else { 400 });
    // the lazy loop, every call kept, against NV.Vcf.LazyLoop (arbitrary bytes)
    line::gen_lloop(rng, w, if thorough { 4000 } else { 400 });
}

fn main() {
    nv::main_with(generate, run)
}
