//! C01: BGZF write/read is the identity and every emitted file is well-formed BGZF.
//!
//! Modelled kinds (obs compared with the extracted Coq model NV.Bgzf.{Frame,Writer,Reader}):
//!   wr  level ending table op op ...   run a script of write / write_all / flush calls on a real
//!        `bgzf::io::Writer` over a shared sink, end it (finish | tryfinish | drop | tfdrop), read the
//!        sink back with `bgzf::io::Reader::read_to_end`.
//!        op     = w<hex> (one `write` call) | a<hex> (`write_all`) | f (`flush`) | t (`try_finish`)
//!        table  = lvl:block:cdata,...  the DEFLATE oracle handed to the model (what zlib-rs produced
//!                 for each block; the model must rebuild the whole file around it)
//!        obs    = <r1>,<r2>,...|<end>|<position>|<sink hex>|<read_to_end>
//!   rd  table stream                   `bgzf::io::Reader::read_to_end` on an arbitrary (mostly
//!        damaged) stream: obs = Ok:<hex> | Err:<kind>:<hex read so far>
//!
//!   rdbig table stream                 the same stream pulled with `read` calls on >= 64 KiB buffers
//!        (the direct path read_block_into_buf), which must end with Ok(0) also when the stream
//!        has no trailing EOF marker; obs as for rd
//!
//!   st  payload                        zlib-rs (flate2, the parameters noodles uses) level-0 deflate of
//!        an input of any length, compared with the model's concrete `deflate_stored`: obs = stream hex
//!   inf cdata limit                    zlib-rs inflate (raw, window 15, Finish, the call of
//!        deflate.rs::decode) of arbitrary / damaged CDATA into a buffer of `limit` bytes, compared with the
//!        model's RFC 1951 inflater: obs = Ok:<out hex>:<unconsumed input bytes> | Err
//!
//!   fx  payload                        a frame whose CDATA are one fixed-Huffman block of literals (the
//!        model's second compressor `deflate_fixed_lit`, re-implemented here bit by bit) read by the real
//!        reader: obs = <cdata hex>|<read_to_end>
//!
//!   tk  tokens                         a frame whose CDATA are one fixed-Huffman block coding a sequence of
//!        LZ77 tokens (l<byte> | m<len>:<dist>; the model's `deflate_fixed_tokens`, re-implemented here) read by
//!        the real reader: obs = <cdata hex>|<read_to_end>; the reader must return the LZ77 expansion
//!
//!   dy  cll ll dl tokens               the same with one dynamic-Huffman block: code lengths of the code-length,
//!        literal/length and distance alphabets (complete codes generated at random around the symbols
//!        the tokens use) and the tokens; the encoder here assigns canonical codes with the next_code
//!        algorithm of RFC 1951 3.2.2 (the model builds trees): obs = <cdata hex>|<read_to_end>
//!
//!   ms  block block ...                a frame whose CDATA are a multi-block DEFLATE stream given block by block
//!        (s<hex> stored | f<tokens> fixed | d<nlen>;<ndist>;<clvals>;<items>;<tokens> dynamic with the full
//!        header: HCLEN + 4 = |clvals| code-length code lengths in the permuted order, the literal/length and
//!        distance code lengths run-length coded by items l<len> | c<n> (16) | z<n> (17) | y<n> (18)); BFINAL
//!        on the last block; matches may reach into earlier blocks.  The model's `deflate_blocks`
//!        (NV.Bgzf.InflateSpec), re-implemented here: obs = <cdata hex>|<read_to_end>
//!
//! The model's reader uses its own (Gallina, extracted) inflater for every frame of every wr / rd /
//! rdbig case; level-0 CDATA are produced by the model's own `deflate_stored`.  The table only
//! carries what zlib-rs produced at levels 1..9.
//!
//! The verdict column (L3) is independent of the model: the sink is parsed by the from-scratch
//! gzip walker of shared/c01_gz.rs (own inflater, own CRC-32), compared with the accepted bytes,
//! cross-checked with flate2, and read back through the real reader in four different ways.

#[path = "../shared/c01_gz.rs"]
mod gz;

use std::{
    io::{BufRead, Read, Write},
    panic::AssertUnwindSafe,
};

use noodles_bgzf as bgzf;
use nv::{Case, CaseWriter, Obs, Outcome, Rng, adversary::FaultySink, errkind, guarded, hex, unhex};

const MAX_BUF: usize = 65495;
const MAX_CDATA: usize = 65510;

#[derive(Clone, Debug)]
enum Op {
    Write(Vec<u8>),
    WriteAll(Vec<u8>),
    Flush,
    TryFinish,
}

fn op_str(op: &Op) -> String {
    match op {
        Op::Write(b) => format!("w{}", hex(b)),
        Op::WriteAll(b) => format!("a{}", hex(b)),
        Op::Flush => "f".into(),
        Op::TryFinish => "t".into(),
    }
}

fn parse_op(s: &str) -> Op {
    match s.as_bytes()[0] {
        b'w' => Op::Write(unhex(&s[1..])),
        b'a' => Op::WriteAll(unhex(&s[1..])),
        b'f' => Op::Flush,
        b't' => Op::TryFinish,
        _ => panic!("bad op {s}"),
    }
}

struct Exec {
    results: Vec<String>,
    end: String,
    pos: String,
    sink: Vec<u8>,
    accepted: Vec<u8>,
    /// first thing that went wrong while driving the writer (tag, detail)
    trouble: Option<(String, String)>,
}

type W = bgzf::io::Writer<FaultySink>;

fn vpos_str(w: &W) -> String {
    match guarded(AssertUnwindSafe(|| u64::from(w.virtual_position()))) {
        Outcome::Done(v) => v.to_string(),
        Outcome::Panicked(_) => "Panic".into(),
    }
}

fn exec(level: u8, ending: &str, ops: &[Op]) -> Exec {
    let sink = FaultySink::new(vec![]);
    let lvl = bgzf::io::writer::CompressionLevel::new(level).expect("level");
    let mut w: Option<W> = Some(
        bgzf::io::writer::Builder::default()
            .set_compression_level(lvl)
            .build_from_writer(sink.clone()),
    );
    let mut x = Exec {
        results: vec![],
        end: String::new(),
        pos: "-".into(),
        sink: vec![],
        accepted: vec![],
        trouble: None,
    };
    let mut panicked = false;
    for (i, op) in ops.iter().enumerate() {
        let wr = w.as_mut().unwrap();
        let r = guarded(AssertUnwindSafe(|| match op {
            Op::Write(b) => wr.write(b).map(Some),
            Op::WriteAll(b) => wr.write_all(b).map(|_| None),
            Op::Flush => wr.flush().map(|_| None),
            Op::TryFinish => wr.try_finish().map(|_| None),
        }));
        match r {
            Outcome::Panicked(m) => {
                x.results.push("Panic".into());
                x.trouble.get_or_insert(("write-panic".into(), format!("op {i}: {m}")));
                panicked = true;
                break;
            }
            Outcome::Done(Err(e)) => {
                x.results.push(format!("Err:{}@{}", errkind(&e), vpos_str(wr)));
                x.trouble.get_or_insert(("write-error".into(), format!("op {i}: {e}")));
            }
            Outcome::Done(Ok(Some(amt))) => {
                let Op::Write(b) = op else { unreachable!() };
                if amt > b.len() {
                    x.trouble
                        .get_or_insert(("write-amt".into(), format!("op {i}: write returned {amt} > {}", b.len())));
                } else {
                    x.accepted.extend_from_slice(&b[..amt]);
                    if amt == 0 && !b.is_empty() {
                        x.trouble.get_or_insert(("write-amt".into(), format!("op {i}: write accepted 0 of {}", b.len())));
                    }
                }
                x.results.push(format!("{amt}@{}", vpos_str(wr)));
            }
            Outcome::Done(Ok(None)) => {
                if let Op::WriteAll(b) = op {
                    x.accepted.extend_from_slice(b);
                }
                x.results.push(format!("ok@{}", vpos_str(wr)));
            }
        }
    }
    if panicked {
        // do not run Drop on a writer that panicked (a second panic would abort the process)
        std::mem::forget(w.take());
        x.end = "Panic".into();
        x.sink = sink.bytes();
        return x;
    }
    let fmt_end = |r: std::io::Result<()>| match r {
        Ok(()) => "Ok".to_string(),
        Err(e) => format!("Err:{}", errkind(&e)),
    };
    let mut writer = w.take().unwrap();
    let r = guarded(AssertUnwindSafe(move || -> (String, String) {
        match ending {
            "finish" => (fmt_end(writer.finish().map(|_| ())), "-".into()),
            "tryfinish" => {
                let r = fmt_end(writer.try_finish());
                let p = writer.position().to_string();
                let _ = writer.into_inner();
                (r, p)
            }
            "tfdrop" => {
                let r = fmt_end(writer.try_finish());
                let p = writer.position().to_string();
                drop(writer);
                (r, p)
            }
            "drop" => {
                drop(writer);
                ("Ok".into(), "-".into())
            }
            _ => panic!("ending"),
        }
    }));
    match r {
        Outcome::Done((e, p)) => {
            if e != "Ok" {
                x.trouble.get_or_insert(("finish-error".into(), e.clone()));
            }
            x.end = e;
            x.pos = p;
        }
        Outcome::Panicked(m) => {
            x.end = "Panic".into();
            x.trouble.get_or_insert(("finish-panic".into(), m));
        }
    }
    x.sink = sink.bytes();
    x
}

fn read_back(sink: &[u8]) -> (String, Result<Vec<u8>, String>) {
    let mut out = Vec::new();
    let r = guarded(AssertUnwindSafe(|| {
        let mut rd = bgzf::io::Reader::new(sink);
        rd.read_to_end(&mut out)
    }));
    match r {
        Outcome::Done(Ok(_)) => (format!("Ok:{}", hex(&out)), Ok(out)),
        Outcome::Done(Err(e)) => (format!("Err:{}:{}", errkind(&e), hex(&out)), Err(format!("{e}"))),
        Outcome::Panicked(m) => ("Panic".into(), Err(format!("panic: {m}"))),
    }
}

/// other ways of pulling the bytes out of the real reader: all must give the same stream
fn read_back_variants(sink: &[u8], seed: u64) -> Result<Vec<Vec<u8>>, String> {
    let r = guarded(AssertUnwindSafe(|| -> std::io::Result<Vec<Vec<u8>>> {
        let mut outs = Vec::new();
        // (1) small and odd-sized read() calls (fill_buf path)
        let mut rng = Rng::new(seed);
        let mut rd = bgzf::io::Reader::new(sink);
        let mut out = Vec::new();
        loop {
            let n = *rng.pick(&[1usize, 7, 4096, 65535, 65495, 30000]);
            let mut buf = vec![0xAAu8; n];
            let k = rd.read(&mut buf)?;
            if k == 0 {
                break;
            }
            out.extend_from_slice(&buf[..k]);
        }
        outs.push(out);
        // (2) read() with buffers >= 64 KiB (direct path read_block_into_buf)
        let mut rd = bgzf::io::Reader::new(sink);
        let mut out = Vec::new();
        loop {
            let n = *rng.pick(&[65536usize, 65537, 100_000]);
            let mut buf = vec![0x55u8; n];
            let k = rd.read(&mut buf)?;
            if k == 0 {
                break;
            }
            out.extend_from_slice(&buf[..k]);
        }
        outs.push(out);
        // (3) BufRead: fill_buf / consume
        let mut rd = bgzf::io::Reader::new(sink);
        let mut out = Vec::new();
        loop {
            let b = rd.fill_buf()?;
            if b.is_empty() {
                break;
            }
            let k = (rng.below(b.len() as u64) + 1) as usize;
            out.extend_from_slice(&b[..k]);
            rd.consume(k);
        }
        outs.push(out);
        Ok(outs)
    }));
    match r {
        Outcome::Done(Ok(v)) => Ok(v),
        Outcome::Done(Err(e)) => Err(format!("{e}")),
        Outcome::Panicked(m) => Err(format!("panic: {m}")),
    }
}

// -------------------------------------------------------------------------------------------
// DEFLATE oracle table

fn flate2_deflate(level: u8, data: &[u8]) -> Vec<u8> {
    let mut c = flate2::Compress::new(flate2::Compression::new(level as u32), false);
    let mut out = Vec::with_capacity(data.len() + data.len() / 8 + 1024);
    let st = c.compress_vec(data, &mut out, flate2::FlushCompress::Finish).expect("compress");
    assert!(matches!(st, flate2::Status::StreamEnd));
    out
}

fn flate2_inflate(cdata: &[u8]) -> Option<Vec<u8>> {
    let mut d = flate2::Decompress::new(false);
    let mut out = Vec::with_capacity(65536 + 64);
    match d.decompress_vec(cdata, &mut out, flate2::FlushDecompress::Finish) {
        Ok(flate2::Status::StreamEnd) => Some(out),
        _ => None,
    }
}

/// RFC 1951 stored blocks as zlib emits them at level 0 when the whole input is available:
/// 65535-byte blocks, BFINAL on the last (an empty input is one empty final block)
fn stored_stream(data: &[u8]) -> Vec<u8> {
    let mut out = Vec::with_capacity(data.len() + 5 * (data.len() / 65535 + 1));
    let mut rest = data;
    loop {
        let n = rest.len().min(65535);
        let last = n == rest.len();
        out.push(last as u8);
        out.extend((n as u16).to_le_bytes());
        out.extend((!(n as u16)).to_le_bytes());
        out.extend_from_slice(&rest[..n]);
        rest = &rest[n..];
        if last {
            return out;
        }
    }
}

/// zlib-rs inflate exactly as deflate.rs::decode calls it (raw stream, window 15, Finish, a
/// destination of `limit` bytes): Some((output, unconsumed input bytes)) iff StreamEnd
fn zlibrs_inflate_into(cdata: &[u8], limit: usize) -> Option<(Vec<u8>, usize)> {
    let mut d = flate2::Decompress::new(false);
    let mut out = vec![0u8; limit];
    match d.decompress(cdata, &mut out, flate2::FlushDecompress::Finish) {
        Ok(flate2::Status::StreamEnd) => {
            out.truncate(d.total_out() as usize);
            Some((out, cdata.len() - d.total_in() as usize))
        }
        _ => None,
    }
}

/// (level, block, cdata)
type Table = Vec<(u8, Vec<u8>, Vec<u8>)>;

/// Split a sink into frames on BSIZE alone (no validation beyond bounds).
fn raw_frames(sink: &[u8]) -> Option<Vec<&[u8]>> {
    let mut off = 0;
    let mut v = Vec::new();
    while off < sink.len() {
        if sink.len() - off < 18 {
            return None;
        }
        let total = (sink[off + 16] as usize | (sink[off + 17] as usize) << 8) + 1;
        if total < 26 || off + total > sink.len() {
            return None;
        }
        v.push(&sink[off..off + total]);
        off += total;
    }
    Some(v)
}

/// The DEFLATE oracle for the model (levels 1..9 only).  Block boundaries are taken from the sink
/// the implementation produced; the compressed bytes are NOT: they are recomputed with flate2
/// (zlib-rs back end, the same library and parameters noodles uses) at the requested level.  When
/// that attempt is longer than 65510 bytes the model has to take the fallback decision itself and
/// to produce the level-0 stream itself (NV.Bgzf.Inflate.deflate_stored), so a wrong decision of the
/// implementation, or a level-0 stream that is not one stored block, shows up as a different sink.
fn build_table(level: u8, sink: &[u8]) -> Table {
    let mut t: Table = Vec::new();
    let Some(frames) = raw_frames(sink) else { return t };
    for f in frames {
        let cdata = &f[18..f.len() - 8];
        let Ok((block, _)) = gz::inflate_raw(cdata, 1 << 17) else { continue };
        if block.is_empty() || t.iter().any(|(_, b, _)| *b == block) {
            continue;
        }
        if level == 0 {
            // level 0 is the model's own deflate_stored: nothing to hand over
            continue;
        }
        // (when the attempt is longer than 65510 bytes the model falls back to its own level 0)
        let attempt = flate2_deflate(level, &block);
        t.push((level, block, attempt));
    }
    t
}

fn table_str(t: &Table) -> String {
    if t.is_empty() {
        return "-".into();
    }
    t.iter()
        .map(|(l, b, c)| format!("{l}:{}:{}", hex(b), hex(c)))
        .collect::<Vec<_>>()
        .join(",")
}

fn parse_table(s: &str) -> Table {
    if s == "-" {
        return vec![];
    }
    s.split(',')
        .map(|e| {
            let mut it = e.split(':');
            let l: u8 = it.next().unwrap().parse().unwrap();
            (l, unhex(it.next().unwrap()), unhex(it.next().unwrap()))
        })
        .collect()
}

// -------------------------------------------------------------------------------------------
// generation

fn payload(rng: &mut Rng, class: u64, len: usize) -> Vec<u8> {
    match class {
        0 => vec![*rng.pick(&[0u8, b'A', 0xff]); len],
        1 => {
            const WORDS: &[&[u8]] = &[
                b"chr1\t", b"ACGT", b"GATTACA", b"\n", b"noodles", b"255\t", b"*\t", b"0\t", b"=", b"IIIIFFFF", b"NM:i:0\t",
                b"TTAGGG",
            ];
            let mut v = Vec::with_capacity(len + 16);
            while v.len() < len {
                let wd: &[u8] = *rng.pick::<&[u8]>(WORDS);
                v.extend_from_slice(wd);
            }
            v.truncate(len);
            v
        }
        2 => rng.bytes(len),
        3 => {
            // nearly incompressible: uniform over a slightly reduced alphabet, so that the deflate
            // output lands close to the input size (around the level-0 fallback threshold)
            let a = rng.range(180, 256);
            (0..len).map(|_| rng.below(a) as u8).collect()
        }
        _ => {
            let mut v = Vec::with_capacity(len);
            while v.len() < len {
                let seg = (rng.range(1, 20000) as usize).min(len - v.len());
                let c = rng.below(3);
                v.extend(payload(rng, c, seg));
            }
            v
        }
    }
}

const BOUNDARY_LENS: &[usize] = &[
    65279, 65280, 65281, 65494, 65495, 65496, 65535, 65536, 65537, 130989, 130990, 130991, 131072, 196484, 196485, 196486,
];
const ENDINGS: &[&str] = &["finish", "tryfinish", "drop", "tfdrop"];

fn split_ops(rng: &mut Rng, p: &[u8], style: u64, bytewise_max: usize) -> Vec<Op> {
    let mut ops = Vec::new();
    let mut off = 0usize;
    let take = |off: &mut usize, n: usize| -> Vec<u8> {
        let n = n.min(p.len() - *off);
        let v = p[*off..*off + n].to_vec();
        *off += n;
        v
    };
    match style {
        0 => ops.push(Op::WriteAll(p.to_vec())),
        1 => {
            // one huge write (accepts only what fits), then what a naive caller would do next
            ops.push(Op::Write(p.to_vec()));
            off = p.len().min(MAX_BUF);
            while off < p.len() {
                let rest = p[off..].to_vec();
                off += rest.len().min(MAX_BUF);
                ops.push(Op::Write(rest));
            }
        }
        2 => {
            let small = p.len() < 10000;
            while off < p.len() {
                let n = match rng.below(10) {
                    _ if small && rng.chance(2, 3) => rng.range(1, (p.len() / 3).max(1) as u64) as usize,
                    0 => 0,
                    1 => 1,
                    2 => rng.range(2, 10) as usize,
                    3 | 4 => rng.range(100, 5000) as usize,
                    5 => rng.range(65490, 65500) as usize,
                    6 => rng.range(65530, 70000) as usize,
                    7 => rng.range(20000, 40000) as usize,
                    _ => rng.range(1, 300) as usize,
                };
                let b = take(&mut off, n);
                if rng.chance(1, 2) {
                    ops.push(Op::WriteAll(b));
                } else {
                    // a single write may be short: rewind to what the real writer will accept is
                    // not known here, so simply offer the bytes (unaccepted ones are dropped)
                    ops.push(Op::Write(b));
                }
                if rng.chance(1, 6) {
                    ops.push(Op::Flush);
                }
                if rng.chance(1, 10) {
                    ops.push(Op::TryFinish);
                    if rng.chance(1, 3) {
                        ops.push(rng.pick(&[Op::TryFinish, Op::Flush]).clone());
                    }
                }
            }
        }
        3 => {
            let k = (rng.range(1, bytewise_max as u64) as usize).min(p.len());
            // put the byte-wise part across a block edge when the payload allows it
            let lead = if p.len() > MAX_BUF { MAX_BUF - k / 2 } else { 0 };
            if lead > 0 {
                ops.push(Op::WriteAll(take(&mut off, lead)));
            }
            for _ in 0..k {
                ops.push(Op::Write(take(&mut off, 1)));
            }
            ops.push(Op::WriteAll(take(&mut off, usize::MAX)));
        }
        4 => {
            // drive the staging buffer to within a byte of full, then poke it
            let t = rng.range(65492, 65498) as usize;
            ops.push(Op::WriteAll(take(&mut off, t)));
            let d = rng.below(4) as usize;
            ops.push(Op::Write(take(&mut off, d)));
            ops.push(Op::Flush);
            ops.push(Op::Flush);
            let d = rng.below(4) as usize;
            ops.push(Op::Write(take(&mut off, d)));
            ops.push(Op::WriteAll(take(&mut off, usize::MAX)));
            if rng.chance(1, 2) {
                ops.push(Op::Flush);
            }
        }
        6 => {
            // finished and re-opened: data, try_finish, data ... (each segment gets its own marker)
            let nseg = rng.range(2, 4) as usize;
            if rng.chance(1, 4) {
                ops.push(Op::TryFinish);
            }
            for i in 0..nseg {
                let n = if i + 1 == nseg { usize::MAX } else { rng.range(0, (p.len() as u64 * 2 / nseg as u64).max(1)) as usize };
                let b = take(&mut off, n);
                if rng.chance(1, 2) {
                    ops.push(Op::WriteAll(b));
                } else {
                    ops.push(Op::Write(b));
                }
                if rng.chance(1, 4) {
                    ops.push(Op::Flush);
                }
                if i + 1 < nseg || rng.chance(1, 3) {
                    ops.push(Op::TryFinish);
                    if rng.chance(1, 4) {
                        ops.push(Op::TryFinish);
                    }
                }
            }
        }
        _ => {
            let k = rng.range(1, 4);
            let mut i = 0;
            while off < p.len() {
                let n = if p.len() < 10000 { rng.range(1, (p.len() / 2).max(1) as u64) as usize } else { rng.range(1, 30000) as usize };
                ops.push(Op::WriteAll(take(&mut off, n)));
                i += 1;
                if i % k == 0 {
                    ops.push(Op::Flush);
                }
            }
        }
    }
    ops
}

fn push_wr(w: &mut CaseWriter, level: u8, ending: &str, ops: &[Op]) {
    // the DEFLATE oracle for the model comes from what the real writer emitted
    let x = exec(level, ending, ops);
    let table = build_table(level, &x.sink);
    let mut args = vec![level.to_string(), ending.to_string(), table_str(&table)];
    args.extend(ops.iter().map(op_str));
    w.push("wr", args);
}

fn make_frame(cdata: &[u8], block: &[u8]) -> Vec<u8> {
    let mut f = gz::EOF_BLOCK[..16].to_vec();
    f.extend(((18 + cdata.len() + 8 - 1) as u16).to_le_bytes());
    f.extend_from_slice(cdata);
    f.extend(gz::crc32(block).to_le_bytes());
    f.extend((block.len() as u32).to_le_bytes());
    f
}

fn eof_frame_with(f: impl Fn(&mut Vec<u8>)) -> Vec<u8> {
    let mut v = gz::EOF_BLOCK.to_vec();
    f(&mut v);
    v
}

fn gen_rd(rng: &mut Rng, w: &mut CaseWriter, n_random: usize) {
    // a small well-formed stream built WITHOUT noodles (so that generation does not depend on the
    // implementation under test): two data blocks, an EOF block in the middle, a third block, EOF
    let blocks: Vec<(u8, Vec<u8>)> = vec![(6, b"noodles-bgzf C01".to_vec()), (6, vec![7u8; 40]), (0, rng.bytes(33))];
    let mut base = Vec::new();
    let mut table: Table = Vec::new();
    for (i, (l, b)) in blocks.iter().enumerate() {
        let cd = flate2_deflate(*l, b);
        base.extend(make_frame(&cd, b));
        table.push((*l, b.clone(), cd));
        if i == 1 {
            base.extend(gz::EOF_BLOCK);
            base.extend(gz::EOF_BLOCK);
        }
    }
    base.extend(gz::EOF_BLOCK);
    table.push((0, vec![], vec![3, 0]));
    // (the model inflates with its own inflater: no oracle table)
    let _ = &table;
    let push = |w: &mut CaseWriter, s: &[u8]| w.push("rd", vec!["-".to_string(), hex(s)]);
    push(w, &base);
    push(w, &[]);
    push(w, &gz::EOF_BLOCK);
    // every truncation point
    for cut in 0..base.len() {
        push(w, &base[..cut]);
    }
    // every byte of the first frame's header and of its trailer, a few values each
    let f0 = raw_frames(&base).unwrap()[0].len();
    for i in (0..18).chain(f0 - 8..f0) {
        for v in [0u8, 1, 0xff, base[i] ^ 0x80, base[i].wrapping_add(1)] {
            if v != base[i] {
                let mut s = base.clone();
                s[i] = v;
                push(w, &s);
            }
        }
    }
    // BSIZE values around the minimum frame size on a lone frame
    for b in [0u16, 1, 16, 17, 24, 25, 26, 27, 28, 100] {
        push(
            w,
            &eof_frame_with(|v| {
                v[16] = b as u8;
                v[17] = (b >> 8) as u8;
            }),
        );
    }
    // ISIZE around the 65536 limit on the EOF frame
    for i in [1u32, 65535, 65536, 65537, 1 << 24, u32::MAX] {
        push(w, &eof_frame_with(|v| v[24..28].copy_from_slice(&i.to_le_bytes())));
    }
    // trailing garbage shorter / longer than a header
    for extra in [1usize, 17, 18, 19, 40] {
        let mut s = base.clone();
        s.extend(rng.bytes(extra));
        push(w, &s);
    }
    for _ in 0..n_random {
        let mut s = base.clone();
        for _ in 0..rng.range(1, 3) {
            let i = rng.below(s.len() as u64) as usize;
            s[i] = rng.next() as u8;
        }
        // cdata damage would need zlib-rs' exact failure behaviour in the oracle table: keep the
        // damage to headers/trailers (frames are located with the undamaged BSIZEs)
        let frames = raw_frames(&base).unwrap();
        let mut off = 0;
        let mut ok = true;
        for f in frames {
            if s[off + 18..off + f.len() - 8] != base[off + 18..off + f.len() - 8] {
                ok = false;
            }
            off += f.len();
        }
        if ok {
            push(w, &s);
        }
    }
}

/// damage applied to a raw DEFLATE stream
fn damage_cdata(rng: &mut Rng, cd: &[u8]) -> Vec<u8> {
    let mut c = cd.to_vec();
    match rng.below(9) {
        0 => {}
        1 | 2 => {
            // flip one bit (early bits = block headers / code descriptions more often)
            if !c.is_empty() {
                let i = if rng.chance(1, 2) { rng.below(c.len().min(24) as u64) } else { rng.below(c.len() as u64) } as usize;
                c[i] ^= 1 << rng.below(8);
            }
        }
        3 => {
            let k = rng.range(1, 6) as usize;
            c.truncate(c.len().saturating_sub(k));
        }
        4 => {
            let k = rng.range(1, 5) as usize;
            c.extend(rng.bytes(k));
        }
        5 => {
            if !c.is_empty() {
                let i = rng.below(c.len() as u64) as usize;
                c[i] = rng.next() as u8;
            }
        }
        6 => {
            // clear BFINAL of the first block: the stream runs on into whatever follows
            if !c.is_empty() {
                c[0] &= !1;
            }
            if rng.chance(1, 2) {
                c.extend([3, 0]);
            }
        }
        7 => {
            let k = rng.range(1, 40) as usize;
            c = rng.bytes(k);
        }
        _ => {
            // two streams back to back / an empty stored block in front
            if rng.chance(1, 2) {
                let mut d = vec![0, 0, 0, 0xff, 0xff];
                d.extend_from_slice(&c);
                c = d;
            } else {
                let d = c.clone();
                c.extend(d);
            }
        }
    }
    c
}

fn small_block(rng: &mut Rng) -> (u8, Vec<u8>) {
    let len = match rng.below(5) {
        0 => rng.below(4) as usize,
        1 => rng.range(4, 40) as usize,
        2 | 3 => rng.range(40, 600) as usize,
        _ => rng.range(600, 5000) as usize,
    };
    let class = rng.below(5);
    (rng.below(10) as u8, payload(rng, class, len))
}

/// frames whose CDATA are damaged: the reader model has to inflate (or reject) them with its own
/// inflater exactly as zlib-rs does inside the real reader
fn gen_rd_cdata(rng: &mut Rng, w: &mut CaseWriter, n: usize) {
    for _ in 0..n {
        let (l, b) = small_block(rng);
        let cd = damage_cdata(rng, &flate2_deflate(l, &b));
        if cd.len() > MAX_CDATA {
            continue;
        }
        // the trailer is made consistent with what an independent inflater gets out of the damaged
        // stream (so that a stream that is still valid is accepted), sometimes off by a little
        let (mut crc, mut isize) = match gz::inflate_raw(&cd, 65536) {
            Ok((d, _)) => (gz::crc32(&d), d.len() as u32),
            Err(_) => (gz::crc32(&b), b.len() as u32),
        };
        match rng.below(12) {
            0 => isize = isize.wrapping_add(1),
            1 => isize = isize.saturating_sub(1),
            2 => crc ^= 1 << rng.below(32),
            _ => {}
        }
        let mut s = gz::EOF_BLOCK[..16].to_vec();
        s.extend(((18 + cd.len() + 8 - 1) as u16).to_le_bytes());
        s.extend_from_slice(&cd);
        s.extend(crc.to_le_bytes());
        s.extend(isize.to_le_bytes());
        if rng.chance(2, 3) {
            s.extend(gz::EOF_BLOCK);
        }
        w.push("rd", vec!["-".to_string(), hex(&s)]);
    }
}

/// the inflater alone on valid and damaged streams, with limits around the real length
fn gen_inf(rng: &mut Rng, w: &mut CaseWriter, n: usize) {
    let push = |w: &mut CaseWriter, cd: &[u8], limit: usize| w.push("inf", vec![hex(cd), limit.to_string()]);
    push(w, &[3, 0], 0);
    push(w, &[3, 0], 5);
    push(w, &[], 0);
    push(w, &[1, 0, 0, 0xff, 0xff], 0);
    push(w, &[0, 0, 0, 0xff, 0xff, 3, 0], 0);
    push(w, &[1, 1, 0, 0xfe, 0xff, 65], 1);
    push(w, &[1, 1, 0, 0xfe, 0xff, 65], 0);
    push(w, &[1, 1, 0, 0xff, 0xff, 65], 1);
    push(w, &[7, 0], 4); // reserved block type
    for _ in 0..n {
        let (l, b) = small_block(rng);
        let cd = damage_cdata(rng, &flate2_deflate(l, &b));
        let limit = match rng.below(6) {
            0 => b.len().saturating_sub(1),
            1 => b.len() + 1,
            2 => 65536,
            3 => 2 * b.len() + 7,
            _ => b.len(),
        };
        push(w, &cd, limit);
    }
}

struct BitW {
    out: Vec<u8>,
    acc: u32,
    n: u32,
}

impl BitW {
    fn new() -> Self {
        BitW { out: Vec::new(), acc: 0, n: 0 }
    }
    fn put(&mut self, bit: u32) {
        self.acc |= bit << self.n;
        self.n += 1;
        if self.n == 8 {
            self.out.push(self.acc as u8);
            self.acc = 0;
            self.n = 0;
        }
    }
    /// Huffman codes are packed most significant bit first
    fn code(&mut self, value: u32, len: u32) {
        for i in (0..len).rev() {
            self.put((value >> i) & 1);
        }
    }
    /// other fields least significant bit first
    fn bits(&mut self, value: u32, len: u32) {
        for i in 0..len {
            self.put((value >> i) & 1);
        }
    }
    /// literal/length symbol with the fixed code of RFC 1951 3.2.6
    fn litlen(&mut self, sym: u32) {
        match sym {
            0..=143 => self.code(0x30 + sym, 8),
            144..=255 => self.code(0x190 + (sym - 144), 9),
            256..=279 => self.code(sym - 256, 7),
            _ => self.code(0xc0 + (sym - 280), 8),
        }
    }
    fn finish(mut self) -> Vec<u8> {
        if self.n > 0 {
            self.out.push(self.acc as u8);
        }
        self.out
    }
}

/// RFC 1951 3.2.6: one final fixed-Huffman block, every byte a literal, then end-of-block
fn fixed_literal_stream(data: &[u8]) -> Vec<u8> {
    let mut w = BitW::new();
    // BFINAL = 1, BTYPE = 01 (LSB first)
    w.bits(1, 1);
    w.bits(1, 2);
    for &b in data {
        w.litlen(b as u32);
    }
    w.litlen(256);
    w.finish()
}

#[derive(Clone, Copy)]
enum Tok {
    Lit(u8),
    Match(usize, usize),
}

const T_LENS: [usize; 29] = [3, 4, 5, 6, 7, 8, 9, 10, 11, 13, 15, 17, 19, 23, 27, 31, 35, 43, 51, 59, 67, 83, 99, 115, 131, 163, 195, 227, 258];
const T_LEXT: [u32; 29] = [0, 0, 0, 0, 0, 0, 0, 0, 1, 1, 1, 1, 2, 2, 2, 2, 3, 3, 3, 3, 4, 4, 4, 4, 5, 5, 5, 5, 0];
const T_DISTS: [usize; 30] = [
    1, 2, 3, 4, 5, 7, 9, 13, 17, 25, 33, 49, 65, 97, 129, 193, 257, 385, 513, 769, 1025, 1537, 2049, 3073, 4097, 6145, 8193,
    12289, 16385, 24577,
];
const T_DEXT: [u32; 30] = [0, 0, 0, 0, 1, 1, 2, 2, 3, 3, 4, 4, 5, 5, 6, 6, 7, 7, 8, 8, 9, 9, 10, 10, 11, 11, 12, 12, 13, 13];

/// one final fixed-Huffman block coding the tokens (3.2.5: last base <= value, extra bits LSB first)
fn fixed_token_stream(ts: &[Tok]) -> Vec<u8> {
    let mut w = BitW::new();
    w.bits(1, 1);
    w.bits(1, 2);
    for t in ts {
        match *t {
            Tok::Lit(b) => w.litlen(b as u32),
            Tok::Match(len, dist) => {
                let i = T_LENS.iter().rposition(|&b| b <= len).unwrap();
                w.litlen(257 + i as u32);
                w.bits((len - T_LENS[i]) as u32, T_LEXT[i]);
                let j = T_DISTS.iter().rposition(|&b| b <= dist).unwrap();
                w.code(j as u32, 5);
                w.bits((dist - T_DISTS[j]) as u32, T_DEXT[j]);
            }
        }
    }
    w.litlen(256);
    w.finish()
}

fn expand_tokens(ts: &[Tok]) -> Vec<u8> {
    let mut out = Vec::new();
    for t in ts {
        match *t {
            Tok::Lit(b) => out.push(b),
            Tok::Match(len, dist) => {
                for _ in 0..len {
                    out.push(out[out.len() - dist]);
                }
            }
        }
    }
    out
}

fn parse_tokens(s: &str) -> Vec<Tok> {
    if s == "-" {
        return vec![];
    }
    s.split(',')
        .map(|t| match t.as_bytes()[0] {
            b'l' => Tok::Lit(t[1..].parse().unwrap()),
            _ => {
                let (l, d) = t[1..].split_once(':').unwrap();
                Tok::Match(l.parse().unwrap(), d.parse().unwrap())
            }
        })
        .collect()
}

fn tokens_str(ts: &[Tok]) -> String {
    if ts.is_empty() {
        return "-".into();
    }
    ts.iter()
        .map(|t| match t {
            Tok::Lit(b) => format!("l{b}"),
            Tok::Match(l, d) => format!("m{l}:{d}"),
        })
        .collect::<Vec<_>>()
        .join(",")
}

/// random valid token sequences: every length 3..258 and distances over the whole table (up to 32768)
fn gen_tk(rng: &mut Rng, w: &mut CaseWriter, n: usize) {
    let push = |w: &mut CaseWriter, ts: &[Tok]| w.push("tk", vec![tokens_str(ts)]);
    push(w, &[]);
    push(w, &[Tok::Lit(97), Tok::Match(5, 1), Tok::Lit(98), Tok::Match(3, 7)]);
    push(w, &[Tok::Lit(0), Tok::Match(258, 1), Tok::Match(258, 259), Tok::Match(3, 517)]);
    // every length symbol boundary at distance 1, every distance symbol boundary after a long run
    let mut ts = vec![Tok::Lit(7)];
    for &l in T_LENS.iter() {
        ts.push(Tok::Match(l, 1));
        if l + 1 <= 258 {
            ts.push(Tok::Match(l + 1, 2));
        }
    }
    push(w, &ts);
    let mut ts = vec![Tok::Lit(1), Tok::Lit(2), Tok::Lit(3)];
    let mut have = 3usize;
    while have < 33000 {
        ts.push(Tok::Match(258, 3));
        have += 258;
    }
    for &d in T_DISTS.iter() {
        ts.push(Tok::Match(4, d));
        ts.push(Tok::Match(3, (d + 1).min(32768)));
    }
    ts.push(Tok::Match(10, 32768));
    push(w, &ts);
    for _ in 0..n {
        let ts = random_tokens(rng);
        push(w, &ts);
    }
}

fn random_tokens(rng: &mut Rng) -> Vec<Tok> {
    {
        let mut ts = Vec::new();
        let mut have = 0usize;
        let target = rng.range(1, 3000) as usize;
        while have < target {
            if have == 0 || rng.chance(1, 2) {
                ts.push(Tok::Lit(rng.next() as u8));
                have += 1;
            } else {
                let len = match rng.below(4) {
                    0 => rng.range(3, 10) as usize,
                    1 => *rng.pick(&T_LENS),
                    _ => rng.range(3, 258) as usize,
                };
                let dist = match rng.below(3) {
                    0 => rng.range(1, 4.min(have as u64)) as usize,
                    1 => have,
                    _ => rng.range(1, have.min(32768) as u64) as usize,
                };
                ts.push(Tok::Match(len, dist.min(32768)));
                have += len;
            }
        }
        ts
    }
}

/// lengths of a random complete prefix code over `symbols` (at most `maxbits` bits), 0 elsewhere;
/// a single symbol gets a 1-bit code
fn random_code_lengths(rng: &mut Rng, symbols: &[usize], maxbits: u32, alphabet: usize) -> Vec<usize> {
    fn assign(rng: &mut Rng, syms: &[usize], depth: u32, maxbits: u32, out: &mut Vec<usize>) {
        if syms.len() == 1 {
            out[syms[0]] = depth as usize;
            return;
        }
        let n = syms.len();
        let cap = 1usize << (maxbits - depth - 1);
        let lo = if n > cap { n - cap } else { 1 };
        let hi = (n - 1).min(cap);
        let k = rng.range(lo as u64, hi as u64) as usize;
        assign(rng, &syms[..k], depth + 1, maxbits, out);
        assign(rng, &syms[k..], depth + 1, maxbits, out);
    }
    let mut out = vec![0usize; alphabet];
    let mut syms = symbols.to_vec();
    // shuffle
    for i in (1..syms.len()).rev() {
        let j = rng.below(i as u64 + 1) as usize;
        syms.swap(i, j);
    }
    match syms.len() {
        0 => {}
        1 => out[syms[0]] = 1,
        _ => assign(rng, &syms, 0, maxbits, &mut out),
    }
    out
}

/// canonical codes (RFC 1951 3.2.2: bl_count / next_code)
fn canonical_codes(lengths: &[usize]) -> Vec<u32> {
    let mut bl_count = [0u32; 16];
    for &l in lengths {
        bl_count[l] += 1;
    }
    bl_count[0] = 0;
    let mut next_code = [0u32; 16];
    let mut code = 0u32;
    for bits in 1..16 {
        code = (code + bl_count[bits - 1]) << 1;
        next_code[bits] = code;
    }
    lengths
        .iter()
        .map(|&l| {
            if l == 0 {
                0
            } else {
                let c = next_code[l];
                next_code[l] += 1;
                c
            }
        })
        .collect()
}

fn tok_symbols(t: &Tok) -> (usize, Option<usize>) {
    match *t {
        Tok::Lit(b) => (b as usize, None),
        Tok::Match(len, dist) => (
            257 + T_LENS.iter().rposition(|&b| b <= len).unwrap(),
            Some(T_DISTS.iter().rposition(|&b| b <= dist).unwrap()),
        ),
    }
}

/// one final dynamic-Huffman block: HCLEN = 15, no repeat codes
fn dynamic_token_stream(cll: &[usize], ll: &[usize], dl: &[usize], ts: &[Tok]) -> Vec<u8> {
    const ORDER: [usize; 19] = [16, 17, 18, 0, 8, 7, 9, 6, 10, 5, 11, 4, 12, 3, 13, 2, 14, 1, 15];
    let (clc, lc, dc) = (canonical_codes(cll), canonical_codes(ll), canonical_codes(dl));
    let mut w = BitW::new();
    w.bits(1, 1);
    w.bits(2, 2);
    w.bits((ll.len() - 257) as u32, 5);
    w.bits((dl.len() - 1) as u32, 5);
    w.bits(15, 4);
    for &o in ORDER.iter() {
        w.bits(cll[o] as u32, 3);
    }
    for &l in ll.iter().chain(dl.iter()) {
        w.code(clc[l], cll[l] as u32);
    }
    for t in ts {
        match *t {
            Tok::Lit(b) => w.code(lc[b as usize], ll[b as usize] as u32),
            Tok::Match(len, dist) => {
                let (ls, ds) = tok_symbols(t);
                let ds = ds.unwrap();
                w.code(lc[ls], ll[ls] as u32);
                w.bits((len - T_LENS[ls - 257]) as u32, T_LEXT[ls - 257]);
                w.code(dc[ds], dl[ds] as u32);
                w.bits((dist - T_DISTS[ds]) as u32, T_DEXT[ds]);
            }
        }
    }
    w.code(lc[256], ll[256] as u32);
    w.finish()
}

fn nats_str(v: &[usize]) -> String {
    v.iter().map(|x| x.to_string()).collect::<Vec<_>>().join(",")
}

fn gen_dy(rng: &mut Rng, w: &mut CaseWriter, n: usize) {
    for i in 0..n {
        let ts = match i {
            0 => vec![],
            1 => vec![Tok::Lit(97), Tok::Lit(98), Tok::Match(3, 1)],
            _ => random_tokens(rng),
        };
        // literal/length alphabet: the symbols used, end-of-block, and a few unused ones
        let mut lsyms = vec![256usize];
        let mut dsyms: Vec<usize> = vec![];
        for t in &ts {
            let (l, d) = tok_symbols(t);
            lsyms.push(l);
            if let Some(d) = d {
                dsyms.push(d);
            }
        }
        for _ in 0..rng.below(40) {
            lsyms.push(rng.below(286) as usize);
        }
        for _ in 0..rng.below(6) {
            dsyms.push(rng.below(30) as usize);
        }
        lsyms.sort();
        lsyms.dedup();
        dsyms.sort();
        dsyms.dedup();
        let nlen = (lsyms.last().unwrap() + 1).max(257).max(rng.range(257, 286) as usize);
        let ndist = (dsyms.last().map(|d| d + 1).unwrap_or(1)).max(rng.range(1, 30) as usize);
        let ll = random_code_lengths(rng, &lsyms, 15, nlen);
        let dl = random_code_lengths(rng, &dsyms, 15, ndist);
        // code-length alphabet: a complete code over the length values that occur (>= 2 of them)
        let mut vals: Vec<usize> = ll.iter().chain(dl.iter()).copied().collect();
        vals.sort();
        vals.dedup();
        if vals.len() == 1 {
            vals.push((vals[0] + 1) % 16);
        }
        let cll = random_code_lengths(rng, &vals, 7, 19);
        w.push("dy", vec![nats_str(&cll), nats_str(&ll), nats_str(&dl), tokens_str(&ts)]);
    }
}

// -------------------------------------------------------------------------------------------
// kind ms: multi-block DEFLATE streams (the model's NV.Bgzf.InflateSpec.deflate_blocks, re-implemented)

/// one entry of the run-length coded code-length sequence of a dynamic header (RFC 1951 3.2.7)
#[derive(Clone, Copy, Debug)]
enum ClItem {
    /// symbol 0..15: one code length
    Len(usize),
    /// symbol 16: repeat the previous length 3..6 times (2 extra bits)
    Rep16(usize),
    /// symbol 17: 3..10 zeros (3 extra bits)
    Rep17(usize),
    /// symbol 18: 11..138 zeros (7 extra bits)
    Rep18(usize),
}

#[derive(Clone, Debug)]
struct DynHdr {
    /// HLIT + 257
    nlen: usize,
    /// HDIST + 1
    ndist: usize,
    /// HCLEN + 4 code lengths of the code-length alphabet, in the permuted order
    clvals: Vec<usize>,
    /// the nlen + ndist code lengths (literal/length then distance, one sequence)
    items: Vec<ClItem>,
}

#[derive(Clone)]
enum Block {
    Stored(Vec<u8>),
    Fixed(Vec<Tok>),
    Dynamic(DynHdr, Vec<Tok>),
}

const CL_ORDER: [usize; 19] = [16, 17, 18, 0, 8, 7, 9, 6, 10, 5, 11, 4, 12, 3, 13, 2, 14, 1, 15];

impl ClItem {
    fn symbol(&self) -> usize {
        match *self {
            ClItem::Len(l) => l,
            ClItem::Rep16(_) => 16,
            ClItem::Rep17(_) => 17,
            ClItem::Rep18(_) => 18,
        }
    }
}

/// the code lengths a list of items stands for (a repeat before any length repeats 0)
fn cl_expand(items: &[ClItem]) -> Vec<usize> {
    let mut acc: Vec<usize> = Vec::new();
    for it in items {
        match *it {
            ClItem::Len(l) => acc.push(l),
            ClItem::Rep16(n) => {
                let p = acc.last().copied().unwrap_or(0);
                acc.extend(std::iter::repeat(p).take(n));
            }
            ClItem::Rep17(n) | ClItem::Rep18(n) => acc.extend(std::iter::repeat(0).take(n)),
        }
    }
    acc
}

/// the canonical code of `sym` (nothing when the symbol has no code)
fn put_sym(w: &mut BitW, codes: &[u32], lens: &[usize], sym: usize) {
    if let Some(&l) = lens.get(sym) {
        w.code(codes[sym], l as u32);
    }
}

/// tokens, then end-of-block, under the canonical codes of the code lengths ll / dl
fn put_body(w: &mut BitW, ll: &[usize], dl: &[usize], ts: &[Tok]) {
    let (lc, dc) = (canonical_codes(ll), canonical_codes(dl));
    for t in ts {
        match *t {
            Tok::Lit(b) => put_sym(w, &lc, ll, b as usize),
            Tok::Match(len, dist) => {
                let (ls, ds) = tok_symbols(t);
                let ds = ds.unwrap();
                put_sym(w, &lc, ll, ls);
                w.bits((len - T_LENS[ls - 257]) as u32, T_LEXT[ls - 257]);
                put_sym(w, &dc, dl, ds);
                w.bits((dist - T_DISTS[ds]) as u32, T_DEXT[ds]);
            }
        }
    }
    put_sym(w, &lc, ll, 256);
}

/// RFC 1951: the blocks one after the other, BFINAL on the last one only; stored blocks start their
/// LEN at the next byte boundary (zero padding); a dynamic header is written exactly as described
/// (HLIT, HDIST, HCLEN, the 3-bit lengths, the run-length coded lengths)
fn deflate_blocks(bs: &[Block]) -> Vec<u8> {
    let mut w = BitW::new();
    for (i, b) in bs.iter().enumerate() {
        w.bits((i + 1 == bs.len()) as u32, 1);
        match b {
            Block::Stored(chunk) => {
                w.bits(0, 2);
                while w.n != 0 {
                    w.put(0);
                }
                let n = chunk.len() as u32;
                w.bits(n, 16);
                w.bits(65535 - n, 16);
                for &x in chunk {
                    w.bits(x as u32, 8);
                }
            }
            Block::Fixed(ts) => {
                w.bits(1, 2);
                for t in ts {
                    match *t {
                        Tok::Lit(b) => w.litlen(b as u32),
                        Tok::Match(len, dist) => {
                            let i = T_LENS.iter().rposition(|&b| b <= len).unwrap();
                            w.litlen(257 + i as u32);
                            w.bits((len - T_LENS[i]) as u32, T_LEXT[i]);
                            let j = T_DISTS.iter().rposition(|&b| b <= dist).unwrap();
                            w.code(j as u32, 5);
                            w.bits((dist - T_DISTS[j]) as u32, T_DEXT[j]);
                        }
                    }
                }
                w.litlen(256);
            }
            Block::Dynamic(h, ts) => {
                w.bits(2, 2);
                w.bits((h.nlen - 257) as u32, 5);
                w.bits((h.ndist - 1) as u32, 5);
                w.bits((h.clvals.len() - 4) as u32, 4);
                for &v in &h.clvals {
                    w.bits(v as u32, 3);
                }
                // the code-length code: the values put back in symbol order, missing ones 0
                let mut cll = [0usize; 19];
                for (k, &v) in h.clvals.iter().enumerate().take(19) {
                    cll[CL_ORDER[k]] = v;
                }
                let clc = canonical_codes(&cll);
                for it in &h.items {
                    put_sym(&mut w, &clc, &cll, it.symbol());
                    match *it {
                        ClItem::Len(_) => {}
                        ClItem::Rep16(n) => w.bits((n - 3) as u32, 2),
                        ClItem::Rep17(n) => w.bits((n - 3) as u32, 3),
                        ClItem::Rep18(n) => w.bits((n - 11) as u32, 7),
                    }
                }
                let lens = cl_expand(&h.items);
                let cut = h.nlen.min(lens.len());
                put_body(&mut w, &lens[..cut], &lens[cut..], ts);
            }
        }
    }
    w.finish()
}

fn expand_tokens_onto(out: &mut Vec<u8>, ts: &[Tok]) {
    for t in ts {
        match *t {
            Tok::Lit(b) => out.push(b),
            Tok::Match(len, dist) => {
                for _ in 0..len {
                    out.push(out[out.len() - dist]);
                }
            }
        }
    }
}

/// what the whole stream stands for
fn stream_out(bs: &[Block]) -> Vec<u8> {
    let mut out = Vec::new();
    for b in bs {
        match b {
            Block::Stored(chunk) => out.extend_from_slice(chunk),
            Block::Fixed(ts) | Block::Dynamic(_, ts) => expand_tokens_onto(&mut out, ts),
        }
    }
    out
}

fn items_str(items: &[ClItem]) -> String {
    if items.is_empty() {
        return "-".into();
    }
    items
        .iter()
        .map(|it| match it {
            ClItem::Len(l) => format!("l{l}"),
            ClItem::Rep16(n) => format!("c{n}"),
            ClItem::Rep17(n) => format!("z{n}"),
            ClItem::Rep18(n) => format!("y{n}"),
        })
        .collect::<Vec<_>>()
        .join(",")
}

fn block_str(b: &Block) -> String {
    match b {
        Block::Stored(chunk) => format!("s{}", hex(chunk)),
        Block::Fixed(ts) => format!("f{}", tokens_str(ts)),
        Block::Dynamic(h, ts) => {
            format!("d{};{};{};{};{}", h.nlen, h.ndist, nats_str(&h.clvals), items_str(&h.items), tokens_str(ts))
        }
    }
}

fn parse_block(s: &str) -> Block {
    let rest = &s[1..];
    match s.as_bytes()[0] {
        b's' => Block::Stored(unhex(rest)),
        b'f' => Block::Fixed(parse_tokens(rest)),
        b'd' => {
            let p: Vec<&str> = rest.split(';').collect();
            assert!(p.len() == 5, "bad dynamic block {s}");
            let nats = |s: &str| -> Vec<usize> { if s == "-" { vec![] } else { s.split(',').map(|x| x.parse().unwrap()).collect() } };
            let items = if p[3] == "-" {
                vec![]
            } else {
                p[3].split(',')
                    .map(|t| {
                        let n: usize = t[1..].parse().unwrap();
                        match t.as_bytes()[0] {
                            b'l' => ClItem::Len(n),
                            b'c' => ClItem::Rep16(n),
                            b'z' => ClItem::Rep17(n),
                            b'y' => ClItem::Rep18(n),
                            _ => panic!("bad item {t}"),
                        }
                    })
                    .collect()
            };
            Block::Dynamic(DynHdr { nlen: p[0].parse().unwrap(), ndist: p[1].parse().unwrap(), clvals: nats(p[2]), items }, parse_tokens(p[4]))
        }
        _ => panic!("bad block {s}"),
    }
}

fn push_ms(w: &mut CaseWriter, bs: &[Block]) {
    w.push("ms", bs.iter().map(block_str).collect());
}

/// random valid tokens appended to the output so far (`out` is extended by their expansion): matches
/// may reach back into what earlier blocks produced
fn random_tokens_onto(rng: &mut Rng, out: &mut Vec<u8>, target: usize) -> Vec<Tok> {
    let mut ts = Vec::new();
    let start = out.len();
    while out.len() - start < target {
        let have = out.len();
        if have == 0 || rng.chance(1, 2) {
            let b = if rng.chance(1, 3) { rng.next() as u8 } else { b'a' + rng.below(6) as u8 };
            ts.push(Tok::Lit(b));
            out.push(b);
        } else {
            let len = match rng.below(5) {
                0 => rng.range(3, 10) as usize,
                1 => *rng.pick(&T_LENS),
                2 | 3 => rng.range(3, 40) as usize,
                _ => rng.range(3, 258) as usize,
            };
            let dist = match rng.below(4) {
                0 => rng.range(1, 4.min(have as u64)) as usize,
                1 => have,
                // at least back to the first byte of this block, i.e. into the earlier blocks when there are any
                2 => rng.range((have - start).max(1) as u64, have as u64) as usize,
                _ => rng.range(1, have as u64) as usize,
            };
            let t = Tok::Match(len, dist.min(32768));
            expand_tokens_onto(out, &[t]);
            ts.push(t);
        }
    }
    ts
}

/// a run-length coding of `lens` with random choices between the repeat codes and plain lengths
fn rle_items(rng: &mut Rng, lens: &[usize]) -> Vec<ClItem> {
    let mut items = Vec::new();
    let mut i = 0usize;
    while i < lens.len() {
        let v = lens[i];
        let r = lens[i..].iter().take_while(|&&x| x == v).count();
        if v == 0 && r >= 3 {
            let c = rng.below(10);
            if r >= 11 && c < 6 {
                let n = if rng.chance(1, 2) { 138.min(r) } else { rng.range(11, 138.min(r) as u64) as usize };
                items.push(ClItem::Rep18(n));
                i += n;
                continue;
            }
            if c < 8 {
                let n = if rng.chance(1, 2) { 10.min(r) } else { rng.range(3, 10.min(r) as u64) as usize };
                items.push(ClItem::Rep17(n));
                i += n;
                continue;
            }
        }
        if i > 0 && lens[i - 1] == v && r >= 3 && rng.chance(3, 4) {
            let n = if rng.chance(1, 2) { 6.min(r) } else { rng.range(3, 6.min(r) as u64) as usize };
            items.push(ClItem::Rep16(n));
            i += n;
            continue;
        }
        items.push(ClItem::Len(v));
        i += 1;
    }
    items
}

/// how many of the 19 code-length code lengths a header sends
#[derive(Clone, Copy)]
enum Keep {
    /// up to the last non-zero one (at least 4)
    Min,
    /// sometimes a few more zeros
    Random,
    /// all 19
    All,
}

/// a header around the given items: a random complete code-length code over the code-length symbols
/// the items use (plus `extra` unused ones; at least 2 symbols)
fn make_hdr(rng: &mut Rng, nlen: usize, ndist: usize, items: Vec<ClItem>, extra: usize, keep: Keep) -> DynHdr {
    let mut syms: Vec<usize> = items.iter().map(|it| it.symbol()).collect();
    for _ in 0..extra {
        syms.push(rng.below(19) as usize);
    }
    syms.sort();
    syms.dedup();
    while syms.len() < 2 {
        let s = rng.below(19) as usize;
        if !syms.contains(&s) {
            syms.push(s);
        }
    }
    let cll = random_code_lengths(rng, &syms, 7, 19);
    let mut clvals: Vec<usize> = CL_ORDER.iter().map(|&o| cll[o]).collect();
    let min = clvals.iter().rposition(|&v| v != 0).map(|p| p + 1).unwrap_or(0).max(4);
    let n = match keep {
        Keep::Min => min,
        Keep::All => 19,
        Keep::Random => match rng.below(8) {
            0 => 19,
            1 | 2 => rng.range(min as u64, 19) as usize,
            _ => min,
        },
    };
    clvals.truncate(n);
    DynHdr { nlen, ndist, clvals, items }
}

/// a random dynamic header under which the tokens can be coded: complete literal/length and distance
/// codes around the symbols used (a single symbol gets a 1-bit code, no distance symbol = all zero)
fn random_dyn_hdr(rng: &mut Rng, ts: &[Tok]) -> DynHdr {
    let mut lsyms = vec![256usize];
    let mut dsyms: Vec<usize> = vec![];
    for t in ts {
        let (l, d) = tok_symbols(t);
        lsyms.push(l);
        if let Some(d) = d {
            dsyms.push(d);
        }
    }
    if rng.chance(3, 4) {
        for _ in 0..rng.below(40) {
            lsyms.push(rng.below(286) as usize);
        }
    }
    if rng.chance(1, 2) {
        for _ in 0..rng.below(6) {
            dsyms.push(rng.below(30) as usize);
        }
    }
    lsyms.sort();
    lsyms.dedup();
    dsyms.sort();
    dsyms.dedup();
    let lmin = (lsyms.last().unwrap() + 1).max(257);
    let dmin = dsyms.last().map(|d| d + 1).unwrap_or(1);
    let nlen = if rng.chance(1, 3) { lmin } else { lmin.max(rng.range(257, 286) as usize) };
    let ndist = if rng.chance(1, 3) { dmin } else { dmin.max(rng.range(1, 30) as usize) };
    let mut lens = random_code_lengths(rng, &lsyms, 15, nlen);
    lens.extend(random_code_lengths(rng, &dsyms, 15, ndist));
    let items = rle_items(rng, &lens);
    let extra = if rng.chance(1, 3) { rng.range(1, 4) as usize } else { 0 };
    make_hdr(rng, nlen, ndist, items, extra, Keep::Random)
}

fn gen_ms(rng: &mut Rng, w: &mut CaseWriter, n: usize) {
    use ClItem::{Len as L, Rep16 as C, Rep17 as Z, Rep18 as Y};
    let lits = |s: &[u8]| -> Vec<Tok> { s.iter().map(|&b| Tok::Lit(b)).collect() };
    // --- directed: the three block types alone and in sequence
    push_ms(w, &[Block::Stored(b"abc".to_vec())]);
    push_ms(w, &[Block::Stored(vec![])]);
    push_ms(w, &[Block::Fixed(vec![])]);
    push_ms(w, &[Block::Stored(b"ab".to_vec()), Block::Stored(b"cd".to_vec())]);
    push_ms(w, &[Block::Stored(vec![]), Block::Stored(vec![]), Block::Stored(b"x".to_vec())]);
    // the sync-flush pattern (an empty stored block in the middle), then a match into block 1
    push_ms(
        w,
        &[Block::Fixed(lits(b"a")), Block::Stored(vec![]), Block::Fixed(vec![Tok::Match(5, 1), Tok::Lit(b'b'), Tok::Match(4, 7), Tok::Match(3, 2)])],
    );
    // two dynamic blocks with different codes, the second one copying from the first
    {
        let t1 = vec![Tok::Lit(b'a'), Tok::Lit(b'b'), Tok::Lit(b'c'), Tok::Match(6, 3)];
        let t2 = vec![Tok::Lit(b'd'), Tok::Match(5, 4), Tok::Match(3, 1), Tok::Match(9, 15), Tok::Lit(0xff)];
        let (h1, h2) = (random_dyn_hdr(rng, &t1), random_dyn_hdr(rng, &t2));
        push_ms(w, &[Block::Dynamic(h1, t1), Block::Dynamic(h2, t2)]);
    }
    // a stored block, then a dynamic block copying from all over it
    {
        let chunk = payload(rng, 1, 300);
        let ts = vec![Tok::Match(10, 300), Tok::Match(258, 150), Tok::Lit(7), Tok::Match(3, 1), Tok::Match(20, 311), Tok::Match(4, 592), Tok::Match(3, 257)];
        let h = random_dyn_hdr(rng, &ts);
        push_ms(w, &[Block::Stored(chunk), Block::Dynamic(h, ts)]);
    }
    // --- directed dynamic headers (items written out by hand; codes complete or a single 1-bit code)
    // c6 in the literal/length lengths, c3 in the distance lengths
    // (literals 97..103: 3 bits, end-of-block and length symbol 257: 4 bits; four 2-bit distance codes)
    let h = make_hdr(rng, 258, 4, vec![Y(97), L(3), C(6), Y(138), Y(14), L(4), L(4), L(2), C(3)], 0, Keep::Min);
    push_ms(w, &[Block::Dynamic(h, vec![Tok::Lit(97), Tok::Lit(98), Tok::Match(3, 1), Tok::Match(3, 2), Tok::Match(3, 4), Tok::Lit(103), Tok::Match(3, 3)])]);
    // z3 and z10; the same with all 19 code-length code lengths sent (trailing zeros kept)
    let items = vec![L(2), Z(3), L(2), Z(10), L(2), Y(138), Y(102), L(2), L(0)];
    for keep in [Keep::Min, Keep::All] {
        let h = make_hdr(rng, 257, 1, items.clone(), 0, keep);
        push_ms(w, &[Block::Dynamic(h, lits(&[0, 4, 15, 0]))]);
    }
    // y11 and y138
    let h = make_hdr(rng, 257, 1, vec![Y(11), L(1), Y(138), L(2), Y(105), L(2), L(0)], 0, Keep::Min);
    push_ms(w, &[Block::Dynamic(h, lits(&[11, 150, 11]))]);
    // a c6 that starts in the literal/length lengths (255 given; 256, 257) and ends in the distance lengths
    // (symbols 97, 255, 256, 257: 2 bits; four 2-bit distance codes)
    let h = make_hdr(rng, 258, 4, vec![Y(97), L(2), Y(138), Y(19), L(2), C(6)], 0, Keep::Min);
    push_ms(w, &[Block::Dynamic(h, vec![Tok::Lit(97), Tok::Lit(255), Tok::Match(3, 2), Tok::Match(3, 4), Tok::Lit(255), Tok::Match(3, 1)])]);
    // a y21 covering the last 12 literal/length lengths and the first 9 distance lengths (one distance
    // code, symbol 9, of 1 bit)
    let h = make_hdr(rng, 270, 10, vec![Y(97), L(1), Y(138), Y(20), L(2), L(2), Y(21), L(1)], 0, Keep::Min);
    let mut ts = lits(&[97; 30]);
    ts.extend([Tok::Match(3, 25), Tok::Match(3, 32)]);
    push_ms(w, &[Block::Dynamic(h, ts)]);
    // a z4 covering the last 3 literal/length lengths and the only (zero) distance length
    let h = make_hdr(rng, 260, 1, vec![Y(97), L(1), Y(138), Y(20), L(1), Z(4)], 0, Keep::Min);
    push_ms(w, &[Block::Dynamic(h, lits(&[97, 97]))]);
    // the smallest HCLEN a header with an end-of-block code can have: code-length symbols 16, 0, 8 only
    // (HCLEN + 4 = 5); 256 literal/length codes of 8 bits
    let mut items = vec![L(8)];
    items.extend([C(6); 42]);
    items.extend([L(8), L(8), L(0), L(8), L(0)]);
    let h = make_hdr(rng, 257, 1, items, 0, Keep::Min);
    push_ms(w, &[Block::Dynamic(h, lits(b"noodles\x00\xfe"))]);
    // no tokens: only the end-of-block code (a single 1-bit code); alone and followed by a block
    let h = make_hdr(rng, 257, 1, vec![Y(138), Y(118), L(1), L(0)], 0, Keep::Min);
    push_ms(w, &[Block::Dynamic(h.clone(), vec![])]);
    push_ms(w, &[Block::Dynamic(h, vec![]), Block::Fixed(lits(b"a"))]);
    // code lengths 1..15 (symbol 15 is the last of the permuted order: HCLEN + 4 = 19 is forced)
    let mut items: Vec<ClItem> = (1..=15).map(L).collect();
    items.extend([Y(138), Y(103), L(15), L(0)]);
    let h = make_hdr(rng, 257, 1, items, 0, Keep::Min);
    push_ms(w, &[Block::Dynamic(h, lits(&[0, 14, 7, 13]))]);
    // --- the padding of a stored block takes every value: k 9-bit literals put it at bit (2 + k) mod 8
    for k in 0..8 {
        push_ms(
            w,
            &[Block::Fixed(lits(&vec![200u8; k])), Block::Stored(b"xyz".to_vec()), Block::Fixed(vec![Tok::Match(3, 3), Tok::Lit(33), Tok::Match(4, k + 7)])],
        );
    }
    // --- bigger ones: about 40000 bytes through three blocks; one stored block filling the CDATA
    {
        let mut out = payload(rng, 1, 15000);
        let b1 = Block::Stored(out.clone());
        let mut t2 = Vec::new();
        for i in 0..50 {
            let d = match i % 4 {
                0 => 1,
                1 => 15000,
                2 => 5000,
                _ => rng.range(1, out.len() as u64) as usize,
            };
            t2.push(Tok::Match(258, d));
            if i % 7 == 0 {
                t2.push(Tok::Lit(rng.next() as u8));
            }
        }
        expand_tokens_onto(&mut out, &t2);
        let mut t3 = Vec::new();
        while out.len() < 40000 {
            let t = if rng.chance(1, 4) {
                Tok::Lit(b'a' + rng.below(20) as u8)
            } else {
                Tok::Match(rng.range(200, 258) as usize, (rng.range(1, out.len() as u64) as usize).min(32768))
            };
            expand_tokens_onto(&mut out, &[t]);
            t3.push(t);
        }
        let h = random_dyn_hdr(rng, &t3);
        push_ms(w, &[b1, Block::Fixed(t2), Block::Dynamic(h, t3)]);
        push_ms(w, &[Block::Stored(payload(rng, 2, MAX_CDATA - 5))]);
    }
    // --- random streams
    for _ in 0..n {
        let nblocks = rng.range(1, 5) as usize;
        let mut out: Vec<u8> = Vec::new();
        let mut bs = Vec::new();
        for _ in 0..nblocks {
            let target = match rng.below(4) {
                0 => 0,
                1 => rng.range(1, 20) as usize,
                _ => rng.range(20, 600) as usize,
            };
            match rng.below(3) {
                0 => {
                    let class = rng.below(3);
                    let chunk = payload(rng, class, target.min(300));
                    out.extend_from_slice(&chunk);
                    bs.push(Block::Stored(chunk));
                }
                1 => bs.push(Block::Fixed(random_tokens_onto(rng, &mut out, target))),
                _ => {
                    let ts = random_tokens_onto(rng, &mut out, target);
                    let h = random_dyn_hdr(rng, &ts);
                    bs.push(Block::Dynamic(h, ts));
                }
            }
        }
        push_ms(w, &bs);
    }
}

fn gen_fx(rng: &mut Rng, w: &mut CaseWriter, n: usize) {
    w.push("fx", vec![hex(&[])]);
    w.push("fx", vec![hex(b"noodles")]);
    w.push("fx", vec![hex(&(0..=255u8).collect::<Vec<_>>())]);
    for _ in 0..n {
        let (_, b) = small_block(rng);
        w.push("fx", vec![hex(&b)]);
    }
}

/// level-0 deflate of inputs of any length (one stored block per 65535 bytes)
fn gen_st(rng: &mut Rng, w: &mut CaseWriter, thorough: bool) {
    let mut lens = vec![0usize, 1, 2, 300, 65494, 65495, 65534, 65535, 65536, 65537, 131069, 131070, 131071];
    if thorough {
        lens.extend([131072, 196604, 196605, 196606, 262140, 262141, 300000]);
        for _ in 0..8 {
            lens.push(rng.range(0, 200000) as usize);
        }
    }
    for len in lens {
        let class = *rng.pick(&[0u64, 1, 2]);
        w.push("st", vec![hex(&payload(rng, class, len))]);
    }
}

/// streams built without noodles, with and without a trailing EOF marker, for large-buffer reads
fn gen_rdbig(rng: &mut Rng, w: &mut CaseWriter, n: usize) {
    for i in 0..n {
        let nblocks = rng.range(0, 3) as usize;
        let mut s = Vec::new();
        let mut table: Table = vec![(0, vec![], vec![3, 0])];
        for _ in 0..nblocks {
            let len = *rng.pick(&[1usize, 100, 4000, 65495, 65535, 65536]);
            let class = if len > 5000 { *rng.pick(&[0u64, 1]) } else { rng.below(3) };
            let b = payload(rng, class, len);
            let l = *rng.pick(&[0u8, 1, 6, 9]);
            let cd = flate2_deflate(l, &b);
            if cd.len() > MAX_CDATA {
                continue;
            }
            s.extend(make_frame(&cd, &b));
            table.push((l, b, cd));
            if rng.chance(1, 5) {
                s.extend(gz::EOF_BLOCK);
            }
        }
        // i % 3: 0 = no marker at the end, 1 = marker, 2 = marker-less plus a few stray bytes
        match i % 3 {
            1 => s.extend(gz::EOF_BLOCK),
            2 => {
                let k = rng.range(1, 17) as usize;
                s.extend(rng.bytes(k));
            }
            _ => {}
        }
        let _ = &table;
        w.push("rdbig", vec!["-".to_string(), hex(&s)]);
    }
}

/// kind rc: a stream (built without noodles; empty members, markers in the middle, damaged frames,
/// truncation) pulled by a SEQUENCE of read(buf_len) calls whose buffer lengths mix sizes below and
/// around 65536, continuing after errors: per call result + position + virtual position must equal
/// the call-by-call reader model (NV.Bgzf.ReaderCalls.read_gen, direct path included).
fn gen_rc(rng: &mut Rng, w: &mut CaseWriter, n: usize) {
    for i in 0..n {
        let nblocks = rng.range(0, 4) as usize;
        let mut s = Vec::new();
        let mut starts = Vec::new();
        for _ in 0..nblocks {
            if rng.chance(1, 3) {
                let k = rng.range(1, 3);
                for _ in 0..k {
                    starts.push(s.len());
                    if rng.chance(1, 2) {
                        s.extend(gz::EOF_BLOCK);
                    } else {
                        s.extend(make_frame(&[1, 0, 0, 0xff, 0xff], &[]));
                    }
                }
            }
            let len = *rng.pick(&[1usize, 100, 3000, 65495, 65536]);
            let class = if len > 5000 { *rng.pick(&[0u64, 1]) } else { rng.below(3) };
            let b = payload(rng, class, len);
            let l = *rng.pick(&[0u8, 1, 6]);
            let cd = flate2_deflate(l, &b);
            if cd.len() > MAX_CDATA {
                continue;
            }
            starts.push(s.len());
            s.extend(make_frame(&cd, &b));
        }
        match i % 4 {
            1 => s.extend(gz::EOF_BLOCK),
            2 => {
                let k = rng.range(1, 17) as usize;
                s.extend(rng.bytes(k));
            }
            _ => {}
        }
        // damage: header byte, trailer byte (CRC / ISIZE), cdata byte, BSIZE, truncation
        if !s.is_empty() && i % 2 == 1 && !starts.is_empty() {
            let st = *rng.pick(&starts);
            let bsz = u16::from_le_bytes([s[st + 16], s[st + 17]]) as usize + 1;
            match rng.below(5) {
                0 => { let o = st + rng.below(16) as usize; s[o] ^= 1 << rng.below(8); }
                1 => { let o = st + bsz - 1 - rng.below(8) as usize; s[o] ^= 1 << rng.below(8); }
                2 => { let o = st + 18 + rng.below((bsz - 26) as u64) as usize; s[o] ^= 1 << rng.below(8); }
                3 => { s[st + 16] = rng.below(30) as u8; s[st + 17] = 0; }
                _ => { let k = rng.below(s.len() as u64) as usize; s.truncate(k); }
            }
        }
        let ncalls = rng.range(2, 9) as usize;
        let mut lens = Vec::new();
        for _ in 0..ncalls {
            lens.push(*rng.pick(&[0usize, 1, 100, 3000, 65494, 65495, 65535, 65536, 65536, 65537, 70000, 131072]));
        }
        // always end by draining with large buffers
        lens.push(65536);
        lens.push(65536);
        let ls: Vec<String> = lens.iter().map(|x| x.to_string()).collect();
        w.push("rc", vec![hex(&s), ls.join(",")]);
    }
}

fn generate(rng: &mut Rng, tier: &str, w: &mut CaseWriter) {
    let thorough = tier == "thorough";
    let mul = if thorough { 8 } else { 1 };
    // --- directed
    for e in ENDINGS {
        push_wr(w, 6, e, &[]);
        push_wr(w, 0, e, &[Op::Flush]);
        push_wr(w, 9, e, &[Op::Write(vec![]), Op::Flush, Op::Write(vec![])]);
        push_wr(w, 1, e, &[Op::Write(vec![b'x'])]);
        // try_finish in the middle of a history (fix be585e3: one marker per finished segment)
        push_wr(w, 6, e, &[Op::TryFinish]);
        push_wr(w, 6, e, &[Op::TryFinish, Op::TryFinish, Op::Flush]);
        push_wr(w, 6, e, &[Op::WriteAll(b"noodles".to_vec()), Op::TryFinish, Op::WriteAll(b"-bgzf".to_vec())]);
        push_wr(w, 3, e, &[Op::TryFinish, Op::Write(b"after".to_vec()), Op::TryFinish, Op::TryFinish, Op::Flush]);
        push_wr(w, 6, e, &[Op::WriteAll(b"noodles".to_vec()), Op::Flush, Op::TryFinish, Op::Flush, Op::TryFinish]);
        push_wr(w, 6, e, &[Op::WriteAll(b"noodles".to_vec()), Op::Flush, Op::WriteAll(b"-".to_vec()), Op::Flush, Op::WriteAll(b"bgzf".to_vec())]);
    }
    // incompressible block of exactly the staging size at every level (fallback to level 0 for l >= 1)
    for l in 0..=9u8 {
        let p = rng.bytes(MAX_BUF);
        push_wr(w, l, *rng.pick(ENDINGS), &[Op::WriteAll(p)]);
    }
    // one incompressible block of n bytes, flushed: zlib-rs' output at levels >= 2 is n + 20 bytes, so
    // n = 65485..=65495 walks the attempt across the 65510-byte fallback threshold one byte at a time
    for n in 65485..=MAX_BUF {
        let level = 2 + (n % 8) as u8;
        let p = rng.bytes(n);
        let tail = rng.bytes(3);
        push_wr(w, level, *rng.pick(ENDINGS), &[Op::WriteAll(p), Op::Flush, Op::Write(tail)]);
    }
    // --- many small cases: level x class x split x ending
    for i in 0..(160 * mul) {
        let level = (i % 10) as u8;
        let class = rng.below(5);
        let len = match rng.below(6) {
            0 => rng.below(4) as usize,
            1 => rng.range(4, 64) as usize,
            2 | 3 => rng.range(64, 2000) as usize,
            _ => rng.range(2000, 9000) as usize,
        };
        let p = payload(rng, class, len);
        let style = rng.below(7);
        let ops = split_ops(rng, &p, style, 64);
        push_wr(w, level, *rng.pick(ENDINGS), &ops);
    }
    // --- boundary lengths
    let reps = if thorough { 10 } else { 2 };
    for &len in BOUNDARY_LENS {
        for r in 0..reps {
            if !thorough && len > 131072 && r > 0 {
                continue;
            }
            let level = rng.below(10) as u8;
            let class = *rng.pick(&[0u64, 1, 2, 2, 3, 3, 4]);
            let p = payload(rng, class, len);
            let style = rng.below(7);
            let ops = split_ops(rng, &p, style, if thorough { 400 } else { 120 });
            push_wr(w, level, *rng.pick(ENDINGS), &ops);
        }
    }
    // --- near-threshold single blocks: deflate output close to 65510
    for _ in 0..(6 * mul) {
        let level = rng.range(1, 9) as u8;
        let len = *rng.pick(&[MAX_BUF, MAX_BUF, MAX_BUF - 1, 65000, 65400]);
        let p = payload(rng, 3, len);
        push_wr(w, level, *rng.pick(ENDINGS), &[Op::WriteAll(p)]);
    }
    // --- reader on damaged streams
    gen_rd(rng, w, 60 * mul as usize);
    gen_rd_cdata(rng, w, 200 * mul as usize);
    gen_rdbig(rng, w, 30 * mul as usize);
    gen_rc(rng, w, 40 * mul as usize);
    gen_inf(rng, w, 200 * mul as usize);
    gen_st(rng, w, thorough);
    gen_fx(rng, w, 40 * mul as usize);
    gen_tk(rng, w, 60 * mul as usize);
    gen_dy(rng, w, 80 * mul as usize);
    gen_ms(rng, w, if thorough { 530 } else { 40 });
}

// -------------------------------------------------------------------------------------------
// run

fn run_wr(c: &Case) -> Obs {
    let level: u8 = c.args[0].parse().unwrap();
    let ending = c.args[1].as_str();
    let table = parse_table(&c.args[2]);
    let ops: Vec<Op> = c.args[3..].iter().map(|s| parse_op(s)).collect();
    let x = exec(level, ending, &ops);
    let (rd_obs, rd) = read_back(&x.sink);
    let obs = format!("{}|{}|{}|{}|{}", x.results.join(","), x.end, x.pos, hex(&x.sink), rd_obs);

    let class = || {
        let total: usize = ops
            .iter()
            .map(|o| match o {
                Op::Write(b) | Op::WriteAll(b) => b.len(),
                _ => 0,
            })
            .sum();
        format!("level={level} ending={ending} ops={} offered={total}", ops.len())
    };
    let verdict = (|| -> Result<usize, (String, String)> {
        if let Some((t, d)) = &x.trouble {
            return Err((t.clone(), format!("{d}; {}", class())));
        }
        // well-formedness under an independent gzip implementation
        let members = gz::walk(&x.sink).map_err(|(t, d)| (t, format!("{d}; {}", class())))?;
        if !x.sink.ends_with(&gz::EOF_BLOCK) {
            return Err(("eof-missing".into(), format!("sink does not end with the 28-byte EOF marker; {}", class())));
        }
        // exactly one marker at the end, and never two in a row (try_finish on a finished stream,
        // or Drop after try_finish, must not add another one)
        let is_eof: Vec<bool> = members.iter().map(|m| x.sink[m.offset..m.offset + m.size] == gz::EOF_BLOCK).collect();
        if let Some(i) = is_eof.windows(2).position(|w| w[0] && w[1]) {
            return Err(("eof-duplicate".into(), format!("two consecutive EOF markers at member {i}; {}", class())));
        }
        let n_markers = is_eof.iter().filter(|b| **b).count();
        let n_tf = ops.iter().filter(|o| matches!(o, Op::TryFinish)).count();
        if n_markers > n_tf + 1 {
            return Err(("eof-duplicate".into(), format!("{n_markers} EOF markers for {n_tf} try_finish calls + the ending; {}", class())));
        }
        let n_data = members.iter().filter(|m| !m.data.is_empty()).count();
        let inflated: Vec<u8> = members.iter().flat_map(|m| m.data.iter().copied()).collect();
        if inflated != x.accepted {
            let at = inflated.iter().zip(&x.accepted).position(|(a, b)| a != b).unwrap_or(inflated.len().min(x.accepted.len()));
            return Err((
                "content-mismatch".into(),
                format!("independent inflate gives {} bytes, accepted {} bytes, first difference at {at}; {}", inflated.len(), x.accepted.len(), class()),
            ));
        }
        for m in &members {
            match flate2_inflate(&m.cdata) {
                Some(d) if d == m.data => {}
                _ => return Err(("wf-inflate-flate2".into(), format!("flate2 disagrees at member offset {}; {}", m.offset, class()))),
            }
        }
        // read back through the real reader
        match &rd {
            Err(e) => return Err(("reader-error".into(), format!("read_to_end failed: {e}; {}", class()))),
            Ok(d) if *d != x.accepted => {
                return Err(("roundtrip-mismatch".into(), format!("read_to_end returned {} bytes, accepted {}; {}", d.len(), x.accepted.len(), class())));
            }
            _ => {}
        }
        match read_back_variants(&x.sink, x.sink.len() as u64) {
            Err(e) => return Err(("reader-error".into(), format!("read variant failed: {e}; {}", class()))),
            Ok(vs) => {
                for (i, v) in vs.iter().enumerate() {
                    if *v != x.accepted {
                        return Err(("roundtrip-mismatch".into(), format!("read variant {i} returned {} bytes, accepted {}; {}", v.len(), x.accepted.len(), class())));
                    }
                }
            }
        }
        // level 0 (requested, or the fallback for an attempt > 65510 bytes) is exactly one final
        // stored block: the concrete codec of the unconditional theorems is what zlib-rs emits
        for m in &members {
            if m.data.is_empty() {
                continue;
            }
            let fell_back = level != 0 && table.iter().any(|(_, b, cd)| *b == m.data && cd.len() > MAX_CDATA);
            if (level == 0 || fell_back) && m.cdata != stored_stream(&m.data) {
                return Err(("level0-not-stored".into(), format!("level-0 CDATA of a {}-byte block at member offset {} is not a single stored block; {}", m.data.len(), m.offset, class())));
            }
        }
        // the oracle table handed to the model satisfies the hypotheses of the theorems
        for (l, b, cd) in &table {
            match gz::inflate_raw(cd, 1 << 17) {
                Ok((d, used)) if d == *b && used == cd.len() => {}
                _ => return Err(("oracle-hyp-rt".into(), format!("table entry level {l} len {} does not inflate to its block", b.len()))),
            }
            let _ = l;
        }
        Ok(n_data)
    })();
    match verdict {
        Ok(n_data) => Obs::ok(obs, n_data >= 1 && ops.len() >= 2),
        Err((t, d)) => Obs::fail(obs, &t, d),
    }
}

fn run_rd(c: &Case) -> Obs {
    let s = c.b(1);
    let (obs, _) = read_back(&s);
    // no claim of the property is at stake on a damaged stream: this kind only ties the reader
    // model (header / trailer / size checks, clean end on a short header) to the implementation
    Obs::ok(obs, false)
}

fn run_rdbig(c: &Case) -> Obs {
    let s = c.b(1);
    let max_calls = s.len() / 26 + 8;
    let r = guarded(AssertUnwindSafe(|| -> (String, bool) {
        let mut rd = bgzf::io::Reader::new(&s[..]);
        let mut out = Vec::new();
        let mut buf = vec![0x5au8; 65536 + (s.len() % 3) * 1000];
        for _ in 0..max_calls {
            match rd.read(&mut buf) {
                Ok(0) => return (format!("Ok:{}", hex(&out)), true),
                Ok(k) => out.extend_from_slice(&buf[..k.min(buf.len())]),
                Err(e) => return (format!("Err:{}:{}", errkind(&e), hex(&out)), true),
            }
        }
        (format!("NoEof:{}", hex(&out[..out.len().min(64)])), false)
    }));
    match r {
        Outcome::Done((obs, true)) => Obs::ok(obs, false),
        Outcome::Done((obs, false)) => Obs::fail(
            obs,
            "large-read-never-returns-0",
            format!("read() with a >= 64 KiB buffer did not return 0 within {max_calls} calls on a {}-byte stream", s.len()),
        ),
        Outcome::Panicked(m) => Obs::fail("Panic", "large-read-panic", m),
    }
}

fn run_rc(c: &Case) -> Obs {
    let s = c.b(0);
    let lens: Vec<usize> = c.args[1].split(',').map(|x| x.parse().unwrap()).collect();
    let r = guarded(AssertUnwindSafe(|| -> String {
        let mut rd = bgzf::io::Reader::new(std::io::Cursor::new(&s[..]));
        let mut parts = Vec::new();
        for &n in &lens {
            let mut buf = vec![0xa5u8; n];
            let r = match rd.read(&mut buf) {
                Ok(k) if k <= n => format!("Ok:{}", hex(&buf[..k])),
                Ok(k) => format!("Ok-overlong:{k}"),
                Err(e) => format!("Err:{}", errkind(&e)),
            };
            let vp = rd.virtual_position();
            parts.push(format!("{r}@{}/{}.{}", rd.position(), vp.compressed(), vp.uncompressed()));
        }
        parts.join(";")
    }));
    match r {
        Outcome::Done(obs) => Obs::ok(obs, false),
        Outcome::Panicked(m) => Obs::fail("Panic", "read-calls-panic", m),
    }
}

fn run_st(c: &Case) -> Obs {
    let x = c.b(0);
    let cd = flate2_deflate(0, &x);
    let obs = hex(&cd);
    // L3: the stream is what RFC 1951 stored blocks look like and inflates back (independent inflater)
    match gz::inflate_raw(&cd, x.len() + 1) {
        Ok((d, used)) if d == x && used == cd.len() => {}
        _ => return Obs::fail(obs, "level0-roundtrip", format!("level-0 stream of a {}-byte input does not inflate back", x.len())),
    }
    if cd != stored_stream(&x) {
        return Obs::fail(obs, "level0-not-stored", format!("level-0 stream of a {}-byte input is not 65535-byte stored blocks", x.len()));
    }
    Obs::ok(obs, false)
}

fn run_fx(c: &Case) -> Obs {
    let x = c.b(0);
    let cd = fixed_literal_stream(&x);
    let mut s = make_frame(&cd, &x);
    s.extend(gz::EOF_BLOCK);
    let (rd_obs, rd) = read_back(&s);
    let obs = format!("{}|{}", hex(&cd), rd_obs);
    match rd {
        Ok(d) if d == x => Obs::ok(obs, false),
        Ok(d) => Obs::fail(obs, "fixed-literal-mismatch", format!("the reader returned {} bytes for a {}-byte fixed-Huffman literal block", d.len(), x.len())),
        Err(e) => Obs::fail(obs, "fixed-literal-rejected", format!("the reader rejects a fixed-Huffman literal block of {} bytes: {e}", x.len())),
    }
}

fn run_tk(c: &Case) -> Obs {
    let nats = |s: &str| -> Vec<usize> { s.split(',').map(|x| x.parse().unwrap()).collect() };
    let dynamic = c.kind == "dy";
    let ts = parse_tokens(&c.args[if dynamic { 3 } else { 0 }]);
    let x = expand_tokens(&ts);
    let cd = if dynamic {
        dynamic_token_stream(&nats(&c.args[0]), &nats(&c.args[1]), &nats(&c.args[2]), &ts)
    } else {
        fixed_token_stream(&ts)
    };
    if x.len() > 65536 || cd.len() > MAX_CDATA {
        return Obs { obs: "-".into(), verdict: "skip".into(), nontrivial: false };
    }
    let mut s = make_frame(&cd, &x);
    s.extend(gz::EOF_BLOCK);
    let (rd_obs, rd) = read_back(&s);
    let obs = format!("{}|{}", hex(&cd), rd_obs);
    match rd {
        Ok(d) if d == x => Obs::ok(obs, false),
        Ok(d) => Obs::fail(obs, if dynamic { "dynamic-tokens-mismatch" } else { "fixed-tokens-mismatch" }, format!("the reader returned {} bytes for a Huffman block that expands to {}", d.len(), x.len())),
        Err(e) => Obs::fail(obs, if dynamic { "dynamic-tokens-rejected" } else { "fixed-tokens-rejected" }, format!("the reader rejects a Huffman block of {} tokens: {e}", ts.len())),
    }
}

fn run_ms(c: &Case) -> Obs {
    let bs: Vec<Block> = c.args.iter().map(|s| parse_block(s)).collect();
    let x = stream_out(&bs);
    let cd = deflate_blocks(&bs);
    if x.len() > 65536 || cd.len() > MAX_CDATA {
        return Obs { obs: "-".into(), verdict: "skip".into(), nontrivial: false };
    }
    let mut s = make_frame(&cd, &x);
    s.extend(gz::EOF_BLOCK);
    let (rd_obs, rd) = read_back(&s);
    let obs = format!("{}|{}", hex(&cd), rd_obs);
    let shape: String = bs
        .iter()
        .map(|b| match b {
            Block::Stored(_) => 's',
            Block::Fixed(_) => 'f',
            Block::Dynamic(..) => 'd',
        })
        .collect();
    // the encoder above against two inflaters that are neither noodles nor the model
    match gz::inflate_raw(&cd, x.len() + 1) {
        Ok((d, used)) if d == x && used == cd.len() => {}
        Ok((d, used)) => {
            return Obs::fail(obs, "multiblock-encoder-bug", format!("blocks {shape}: the independent inflater gets {} bytes from {used} of {} stream bytes, expansion is {} bytes", d.len(), cd.len(), x.len()));
        }
        Err(e) => return Obs::fail(obs, "multiblock-encoder-bug", format!("blocks {shape}: the independent inflater rejects the {}-byte stream: {e}", cd.len())),
    }
    match guarded(AssertUnwindSafe(|| flate2_inflate(&cd))) {
        Outcome::Done(Some(d)) if d == x => {}
        Outcome::Done(Some(d)) => return Obs::fail(obs, "multiblock-encoder-bug", format!("blocks {shape}: flate2 inflates the stream to {} bytes, expansion is {} bytes", d.len(), x.len())),
        Outcome::Done(None) => return Obs::fail(obs, "multiblock-encoder-bug", format!("blocks {shape}: flate2 rejects the {}-byte stream", cd.len())),
        Outcome::Panicked(m) => return Obs::fail(obs, "multiblock-encoder-bug", format!("blocks {shape}: flate2 panics: {m}")),
    }
    match rd {
        Ok(d) if d == x => Obs::ok(obs, false),
        Ok(d) => Obs::fail(obs, "multiblock-stream-mismatch", format!("the reader returned {} bytes for a stream of blocks {shape} that expands to {}", d.len(), x.len())),
        Err(e) => Obs::fail(obs, "multiblock-stream-rejected", format!("the reader rejects a stream of blocks {shape} ({} bytes, expands to {}): {e}", cd.len(), x.len())),
    }
}

fn run_inf(c: &Case) -> Obs {
    let cd = c.b(0);
    let limit: usize = c.args[1].parse().unwrap();
    let r = guarded(AssertUnwindSafe(|| zlibrs_inflate_into(&cd, limit)));
    match r {
        Outcome::Done(Some((out, rest))) => {
            let obs = format!("Ok:{}:{}", hex(&out), rest);
            // second opinion: the from-scratch inflater agrees on the output and the consumed bytes
            match gz::inflate_raw(&cd, limit) {
                Ok((d, used)) if d == out && used == cd.len() - rest => Obs::ok(obs, false),
                _ => Obs::fail(obs, "inflate-disagree", format!("zlib-rs accepts a {}-byte stream (limit {limit}) the independent inflater reads differently", cd.len())),
            }
        }
        Outcome::Done(None) => match gz::inflate_raw(&cd, limit) {
            Err(_) => Obs::ok("Err", false),
            Ok(_) => Obs::fail("Err", "inflate-disagree", format!("zlib-rs rejects a {}-byte stream (limit {limit}) the independent inflater accepts", cd.len())),
        },
        Outcome::Panicked(m) => Obs::fail("Panic", "inflate-panic", m),
    }
}

fn run(c: &Case) -> Obs {
    match c.kind.as_str() {
        "wr" => run_wr(c),
        "st" => run_st(c),
        "inf" => run_inf(c),
        "fx" => run_fx(c),
        "tk" | "dy" => run_tk(c),
        "ms" => run_ms(c),
        "rd" => run_rd(c),
        "rdbig" => run_rdbig(c),
        "rc" => run_rc(c),
        _ => Obs {
            obs: "-".into(),
            verdict: "skip".into(),
            nontrivial: false,
        },
    }
}

fn main() {
    nv::main_with(generate, run)
}
