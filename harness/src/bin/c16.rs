//! C16: async readers and writers behave exactly like their synchronous counterparts.
//!
//! Modelled kinds (obs compared with the extracted Coq model NV.Async.Framing):
//!   frame  <file> <nvalid> <mode> <seed> <chunks> <workers>  block transcript of the ASYNC bgzf reader under a
//!                                                   poll script and of the SYNC reader, both against the model
//!   ardr   <file> <frames> <index> <ops> <mode> <seed> <workers> <pool> <segs>   (c16_model_rw.rs) op history of
//!          the real sync and async bgzf readers vs NV.Bgzf.ReaderOps / the pipeline model NV.Async.Reader
//!   awr    <ops> <mode> <seed> <workers> <pool> <level>   (c16_model_rw.rs) block sequence + write amounts of the real
//!          sync and async bgzf writers vs NV.Async.Writer (a_blocks / a_results)
//!   abam   <data> <sizes> <with_pending> <chunk>   (c16_model_rw.rs) BAM record framing (read_exact_or_eof + take/read_to_end)
//!          of the real sync and async bam readers over a raw record stream vs NV.Io.Run / NV.Async.ReadExact
//!   agff / afq / afa / awl   (c16_lines.rs) async gff line reader, fastq record reader, fasta read_sequence over
//!          tokio BufReader + scripted source vs NV.Async.Lines; async fasta / fastq writers over a scripted sink
//!          vs NV.Async.WriteAll
//! Implementation-only differential oracles (sync path vs async path on the same input, under a
//! poll script): see `c16_fmt.rs` for the format-level kinds.
//!   bgzfr  <file> <ops> <mode> <seed> <workers>     bgzf reader op transcript (bytes, vpos, seek)
//!   bgzfw  <seed> <mode> <sseed> <workers> <level>  bgzf writer: same calls, compare sink bytes

use std::io::{BufRead, Cursor, Read, Write};
use std::num::NonZero;
use std::sync::atomic::Ordering;

use noodles_bgzf as bgzf;
use nv::{Case, CaseWriter, Obs, Outcome, Rng, errkind, guarded, hex};
use tokio::io::{AsyncBufReadExt, AsyncReadExt, AsyncWriteExt};

#[path = "../shared/c16_adversary.rs"]
mod c16_adversary;
#[path = "../shared/c16_fmt.rs"]
mod c16_fmt;
#[path = "../shared/c16_lines.rs"]
mod c16_lines;
#[path = "../shared/c16_model_rw.rs"]
mod c16_model_rw;
#[path = "../shared/c16_wave6.rs"]
mod c16_wave6;
#[path = "../shared/c16_enc.rs"]
mod c16_enc;
#[path = "../shared/c16_idxw.rs"]
mod c16_idxw;
#[path = "../shared/c16_idxr.rs"]
mod c16_idxr;
#[path = "../shared/c16_idxc.rs"]
mod c16_idxc;
#[path = "../shared/c16_hread.rs"]
mod c16_hread;

use c16_adversary::{AdvReader, AdvWriter, Sched, block_on};

type VP = bgzf::VirtualPosition;

// ---------------------------------------------------------------------------------------------
// BGZF file construction

/// BGZF-compress `payload`, ending a block at each offset of `breaks` (sorted; a repeated offset
/// gives no block because flush on an empty staging buffer writes nothing).
pub fn bgzip(payload: &[u8], breaks: &[usize], eof: bool, level: u8) -> Vec<u8> {
    let mut w = bgzf::io::writer::Builder::default()
        .set_compression_level(bgzf::io::writer::CompressionLevel::new(level).unwrap())
        .build_from_writer(Vec::new());
    let mut at = 0;
    for &b in breaks {
        let b = b.min(payload.len());
        if b >= at {
            w.write_all(&payload[at..b]).unwrap();
            at = b;
            w.flush().unwrap();
        }
    }
    w.write_all(&payload[at..]).unwrap();
    if eof {
        w.finish().unwrap()
    } else {
        w.flush().unwrap();
        w.into_inner()
    }
}

pub const EOF_BLOCK: [u8; 28] = [
    0x1f, 0x8b, 0x08, 0x04, 0, 0, 0, 0, 0, 0xff, 0x06, 0, 0x42, 0x43, 0x02, 0, 0x1b, 0, 0x03, 0, 0, 0, 0, 0, 0, 0, 0, 0,
];

/// boundaries of the frames of a well-formed BGZF file
pub fn boundaries(file: &[u8]) -> Vec<usize> {
    let mut v = vec![0];
    let mut at = 0;
    while at + 18 <= file.len() {
        let n = u16::from_le_bytes([file[at + 16], file[at + 17]]) as usize + 1;
        at += n;
        if at > file.len() {
            break;
        }
        v.push(at);
    }
    v
}

fn payload(rng: &mut Rng, n: usize) -> Vec<u8> {
    // compressible text with newlines (so that read_line style ops are meaningful)
    let mut v = Vec::with_capacity(n);
    while v.len() < n {
        let l = rng.range(0, 60) as usize;
        for _ in 0..l {
            v.push(*rng.pick(b"ACGTNacgt\t 0123456789"));
        }
        v.push(b'\n');
    }
    v.truncate(n);
    v
}

/// A well-formed BGZF file with a boundary-dense block layout: (file, payload)
fn gen_bgzf(rng: &mut Rng, big: bool) -> (Vec<u8>, Vec<u8>) {
    let n = match rng.below(6) {
        0 => 0,
        1 => rng.range(1, 40),
        2 => rng.range(40, 3000),
        3 if big => *rng.pick(&[65279u64, 65280, 65281, 130560, 130561, 70000]),
        _ => rng.range(100, 12000),
    } as usize;
    let p = payload(rng, n);
    let nb = rng.below(6) as usize;
    let mut breaks: Vec<usize> = (0..nb).map(|_| rng.below(n as u64 + 1) as usize).collect();
    breaks.sort_unstable();
    let level = *rng.pick(&[0u8, 1, 6, 6, 9]);
    let mut f = bgzip(&p, &breaks, false, level);
    // explicit empty blocks in the middle / at the start, and the EOF marker
    if rng.chance(1, 4) {
        let bs = boundaries(&f);
        let at = *rng.pick(&bs);
        let mut g = f[..at].to_vec();
        g.extend_from_slice(&EOF_BLOCK);
        if rng.chance(1, 3) {
            g.extend_from_slice(&EOF_BLOCK);
        }
        g.extend_from_slice(&f[at..]);
        f = g;
    }
    if rng.chance(3, 4) {
        f.extend_from_slice(&EOF_BLOCK);
    }
    (f, p)
}

// ---------------------------------------------------------------------------------------------
// kind `frame`: block transcripts of both readers vs the framing model

fn fmt_blocks(blocks: &[(u64, usize)], position: u64, end: &str) -> String {
    let b: Vec<String> = blocks.iter().map(|(c, n)| format!("{c}:{n}")).collect();
    format!("{}|{position}|{end}", if b.is_empty() { "_".to_string() } else { b.join(",") })
}

/// sync reader: (start offset, data length) of every non-empty block delivered, final position, end
fn sync_block_transcript(file: &[u8]) -> String {
    let mut r = bgzf::io::Reader::new(file);
    let mut blocks = Vec::new();
    let end;
    loop {
        match r.fill_buf() {
            Ok(b) if b.is_empty() => {
                end = "eof".to_string();
                break;
            }
            Ok(b) => {
                let n = b.len();
                let vp = r.virtual_position();
                blocks.push((vp.compressed(), n));
                r.consume(n);
            }
            Err(e) => {
                end = format!("Err:{}", errkind(&e));
                break;
            }
        }
    }
    fmt_blocks(&blocks, r.position(), &end)
}

fn async_block_transcript(file: &[u8], sched: Sched, workers: usize) -> (String, bool) {
    let tripped = sched.tripped.clone();
    let src = AdvReader::new(file.to_vec(), sched);
    let s = block_on(async move {
        let mut r = bgzf::r#async::io::reader::Builder::default()
            .set_worker_count(NonZero::new(workers.max(1)).unwrap())
            .build_from_reader(src);
        let mut blocks = Vec::new();
        let end;
        loop {
            match r.fill_buf().await {
                Ok(b) if b.is_empty() => {
                    end = "eof".to_string();
                    break;
                }
                Ok(b) => {
                    let n = b.len();
                    let vp = r.virtual_position();
                    blocks.push((vp.compressed(), n));
                    r.consume(n);
                }
                Err(e) => {
                    end = format!("Err:{}", errkind(&e));
                    break;
                }
            }
        }
        fmt_blocks(&blocks, r.position(), &end)
    });
    (s, tripped.load(Ordering::SeqCst))
}

fn parse_sizes(s: &str) -> Vec<usize> {
    if s == "_" {
        return vec![];
    }
    s.split(',').map(|x| x.parse().unwrap()).collect()
}

fn fmt_sizes(v: &[usize]) -> String {
    if v.is_empty() {
        return "_".into();
    }
    v.iter().map(|x| x.to_string()).collect::<Vec<_>>().join(",")
}

/// Classify a difference between the two block transcripts by its cause, derived from the input.
pub fn classify_frame_diff(file: &[u8]) -> &'static str {
    // walk the sync framing; the first point where it stops tells the class
    let mut at = 0;
    loop {
        let rem = file.len() - at;
        if rem == 0 {
            return "async-bgzf-reader-differs";
        }
        if rem < 18 {
            return "async-bgzf-trailing-partial-frame";
        }
        let n = u16::from_le_bytes([file[at + 16], file[at + 17]]) as usize + 1;
        if n < 26 {
            return "async-bgzf-undersized-bsize";
        }
        if rem < n {
            return "async-bgzf-truncated-frame-error-kind";
        }
        // a complete frame: does it parse?
        let mut r = bgzf::io::Reader::new(&file[at..at + n]);
        let mut sink = Vec::new();
        if r.read_to_end(&mut sink).is_err() {
            return "async-bgzf-reader-differs";
        }
        at += n;
    }
}

fn run_frame(c: &Case) -> Obs {
    let file = c.b(0);
    let (mode, seed) = (c.u(2) as u8, c.u(3));
    let chunks = parse_sizes(&c.args[4]);
    let workers = c.u(5) as usize;
    let sched = if mode >= 6 { Sched::explicit(chunks, mode == 7) } else { Sched::new(mode, seed) };
    let s = sync_block_transcript(&file);
    let (a, tripped) = async_block_transcript(&file, sched, workers);
    let obs = format!("sync={s} async={a}");
    if tripped {
        return Obs::fail(obs, "async-bgzf-hang", format!("poll limit reached file={}", hex(&file)));
    }
    let nontrivial = file.len() > 28;
    if s != a {
        let tag = classify_frame_diff(&file);
        return Obs::fail(obs, tag, format!("sync={s} async={a} file={}", short_hex(&file)));
    }
    Obs::ok(obs, nontrivial)
}

pub fn short_hex(b: &[u8]) -> String {
    if b.len() <= 200 { hex(b) } else { format!("{}..({} bytes)", hex(&b[..200]), b.len()) }
}

/// files for the `frame` kind: `nvalid` valid blocks followed by a tail
fn gen_frame_case(rng: &mut Rng, w: &mut CaseWriter, i: usize) {
    let (mut f, _) = loop {
        let (f, p) = gen_bgzf(rng, false);
        if f.len() <= 6000 {
            break (f, p);
        }
    };
    let bs = boundaries(&f);
    let nvalid_all = bs.len() - 1;
    let mut nvalid = nvalid_all;
    let block_with = |bsize: u16, body: &[u8]| -> Vec<u8> {
        let mut b = EOF_BLOCK[..16].to_vec();
        b.extend_from_slice(&bsize.to_le_bytes());
        b.extend_from_slice(body);
        b
    };
    match i % 12 {
        0 | 1 | 8 | 9 | 10 | 11 => {}
        2 => {
            // 1..17 stray bytes: a prefix of a valid header, or arbitrary bytes
            let k = rng.range(1, 17) as usize;
            if rng.chance(1, 2) {
                f.extend_from_slice(&EOF_BLOCK[..k]);
            } else {
                f.extend(rng.bytes(k));
            }
        }
        3 => {
            // undersized BSIZE: block_size = BSIZE+1 in 1..=25, followed by some bytes / valid blocks
            let bsz = *rng.pick(&[0u16, 1, 16, 17, 18, 23, 24, 24, 24]);
            let k = rng.below(40) as usize;
            let body = rng.bytes(k);
            let cut = *rng.pick(&bs);
            nvalid = bs.iter().position(|&b| b == cut).unwrap();
            let mut g = f[..cut].to_vec();
            g.extend(block_with(bsz, &body));
            if rng.chance(1, 2) {
                g.extend_from_slice(&f[cut..]);
            }
            f = g;
        }
        4 => {
            // the last frame truncated inside its body (>= 18 bytes of it remain)
            if nvalid_all > 0 {
                let (s, e) = (bs[nvalid_all - 1], bs[nvalid_all]);
                let keep = rng.range(18, (e - s - 1) as u64) as usize;
                f.truncate(s + keep);
                nvalid = nvalid_all - 1;
            }
        }
        5 => {
            // a complete frame with a broken header field / oversize ISIZE / broken payload
            if nvalid_all > 0 {
                let k = rng.below(nvalid_all as u64) as usize;
                let (s, e) = (bs[k], bs[k + 1]);
                let at = match rng.below(4) {
                    0 => s + *rng.pick(&[0usize, 1, 2, 3, 10, 11, 12, 13, 14, 15]),
                    1 => e - 1 - rng.below(4) as usize, // ISIZE
                    2 => e - 5 - rng.below(4) as usize, // CRC32
                    _ => s + rng.range(18, (e - s - 1) as u64) as usize,
                };
                f[at] ^= 1 << rng.below(8);
                // inflate + CRC are an oracle of the model: ask the real decoder whether the damaged
                // frame still decodes (a flip in the padding bits of the last deflate block does)
                let mut r = bgzf::io::Reader::new(&f[s..e]);
                let still_ok = r.read_to_end(&mut Vec::new()).is_ok();
                nvalid = if still_ok { nvalid_all } else { k };
            }
        }
        6 => {
            // truncation at an arbitrary offset
            let k = rng.below(f.len() as u64 + 1) as usize;
            f.truncate(k);
            nvalid = bs.iter().filter(|&&b| b > 0 && b <= k).count();
        }
        _ => {
            // garbage tail of >= 18 bytes
            let k = rng.range(18, 80) as usize;
            f.extend(rng.bytes(k));
        }
    }
    // poll script: explicit chunk sizes for modes 6/7 (what the model is fed), seeded otherwise
    let mode = *rng.pick(&[0u8, 1, 2, 3, 4, 5, 6, 6, 7]);
    let chunks: Vec<usize> = if mode >= 6 {
        let n = rng.range(0, 40);
        (0..n).map(|_| *rng.pick(c16_adversary::SIZES)).collect()
    } else {
        vec![]
    };
    let workers = rng.range(1, 8);
    w.push(
        "frame",
        vec![hex(&f), nvalid.to_string(), mode.to_string(), rng.next().to_string(), fmt_sizes(&chunks), workers.to_string()],
    );
}

// ---------------------------------------------------------------------------------------------
// kind `bgzfr`: reader op transcripts

#[derive(Clone, Debug)]
enum Op {
    Read(usize),
    Exact(usize),
    Fill,
    Line,
    ToEnd,
    Seek(u64, u16),
    SeekU(u64),
}

fn parse_ops(s: &str) -> Vec<Op> {
    if s == "_" {
        return vec![];
    }
    s.split(',')
        .map(|t| {
            let (k, rest) = t.split_at(1);
            match k {
                "r" => Op::Read(rest.parse().unwrap()),
                "x" => Op::Exact(rest.parse().unwrap()),
                "f" => Op::Fill,
                "l" => Op::Line,
                "e" => Op::ToEnd,
                "k" => {
                    let (c, u) = rest.split_once(':').unwrap();
                    Op::Seek(c.parse().unwrap(), u.parse().unwrap())
                }
                "u" => Op::SeekU(rest.parse().unwrap()),
                _ => panic!("op {t}"),
            }
        })
        .collect()
}

fn fmt_ops(ops: &[Op]) -> String {
    if ops.is_empty() {
        return "_".into();
    }
    ops.iter()
        .map(|o| match o {
            Op::Read(n) => format!("r{n}"),
            Op::Exact(n) => format!("x{n}"),
            Op::Fill => "f".into(),
            Op::Line => "l".into(),
            Op::ToEnd => "e".into(),
            Op::Seek(c, u) => format!("k{c}:{u}"),
            Op::SeekU(p) => format!("u{p}"),
        })
        .collect::<Vec<_>>()
        .join(",")
}

fn digest(b: &[u8]) -> String {
    // short, exact for small results
    if b.len() <= 24 {
        hex(b)
    } else {
        let mut h = 0xcbf29ce484222325u64;
        for &x in b {
            h = (h ^ x as u64).wrapping_mul(0x100000001b3);
        }
        format!("#{}:{h:016x}", b.len())
    }
}

fn gzi_of(file: &[u8]) -> bgzf::gzi::Index {
    // (compressed, uncompressed) offsets of every block but the first, from the sync reader
    let mut r = bgzf::io::Reader::new(file);
    let mut v = Vec::new();
    let mut u = 0u64;
    loop {
        match r.fill_buf() {
            Ok(b) if b.is_empty() => break,
            Ok(b) => {
                let n = b.len();
                let c = r.virtual_position().compressed();
                if c > 0 {
                    v.push((c, u));
                }
                u += n as u64;
                r.consume(n);
            }
            Err(_) => break,
        }
    }
    bgzf::gzi::Index::from(v)
}

const CHUNK: usize = 8192;

fn sync_ops(file: &[u8], ops: &[Op]) -> Vec<String> {
    let index = gzi_of(file);
    let mut r = bgzf::io::Reader::new(Cursor::new(file.to_vec()));
    let mut out = Vec::new();
    for op in ops {
        let res = guarded(std::panic::AssertUnwindSafe(|| -> String {
            match op {
                Op::Read(n) => {
                    let mut buf = vec![0u8; *n];
                    match r.read(&mut buf) {
                        Ok(k) => digest(&buf[..k]),
                        Err(e) => format!("Err:{}", errkind(&e)),
                    }
                }
                Op::Exact(n) => {
                    let mut buf = vec![0u8; *n];
                    match r.read_exact(&mut buf) {
                        Ok(()) => digest(&buf),
                        Err(e) => format!("Err:{}", errkind(&e)),
                    }
                }
                Op::Fill => match r.fill_buf() {
                    Ok(b) => {
                        let d = digest(b);
                        let n = b.len();
                        r.consume(n);
                        d
                    }
                    Err(e) => format!("Err:{}", errkind(&e)),
                },
                Op::Line => {
                    let mut buf = Vec::new();
                    match r.read_until(b'\n', &mut buf) {
                        Ok(_) => digest(&buf),
                        Err(e) => format!("Err:{}", errkind(&e)),
                    }
                }
                Op::ToEnd => {
                    let mut all = Vec::new();
                    let mut buf = vec![0u8; CHUNK];
                    loop {
                        match r.read(&mut buf) {
                            Ok(0) => break digest(&all),
                            Ok(k) => all.extend_from_slice(&buf[..k]),
                            Err(e) => break format!("{}+Err:{}", digest(&all), errkind(&e)),
                        }
                    }
                }
                Op::Seek(c, u) => match VP::try_from((*c, *u)) {
                    Ok(vp) => match r.seek(vp) {
                        Ok(p) => format!("vp{}", u64::from(p)),
                        Err(e) => format!("Err:{}", errkind(&e)),
                    },
                    Err(_) => "badvp".into(),
                },
                Op::SeekU(p) => match r.seek_by_uncompressed_position(&index, *p) {
                    Ok(p) => format!("up{p}"),
                    Err(e) => format!("Err:{}", errkind(&e)),
                },
            }
        }));
        match res {
            Outcome::Done(s) => {
                if s.contains("Err:") {
                    // the reader's state after an error is unspecified on both sides: stop here
                    out.push(s);
                    break;
                }
                let vp = match guarded(std::panic::AssertUnwindSafe(|| u64::from(r.virtual_position()))) {
                    Outcome::Done(v) => v.to_string(),
                    Outcome::Panicked(_) => "Panic".into(),
                };
                out.push(format!("{s}@{vp}"));
            }
            Outcome::Panicked(_) => {
                out.push("Panic".into());
                break;
            }
        }
    }
    out
}

fn async_ops(file: &[u8], ops: &[Op], sched: Sched, workers: usize) -> (Vec<String>, bool) {
    let index = gzi_of(file);
    let tripped = sched.tripped.clone();
    let src = AdvReader::new(file.to_vec(), sched);
    let ops = ops.to_vec();
    let res = guarded(std::panic::AssertUnwindSafe(move || {
        block_on(async move {
            let mut r = bgzf::r#async::io::reader::Builder::default()
                .set_worker_count(NonZero::new(workers.max(1)).unwrap())
                .build_from_reader(src);
            let mut out: Vec<String> = Vec::new();
            for op in &ops {
                let s: String = match op {
                    Op::Read(n) => {
                        let mut buf = vec![0u8; *n];
                        match r.read(&mut buf).await {
                            Ok(k) => digest(&buf[..k]),
                            Err(e) => format!("Err:{}", errkind(&e)),
                        }
                    }
                    Op::Exact(n) => {
                        let mut buf = vec![0u8; *n];
                        match r.read_exact(&mut buf).await {
                            Ok(_) => digest(&buf),
                            Err(e) => format!("Err:{}", errkind(&e)),
                        }
                    }
                    Op::Fill => match r.fill_buf().await {
                        Ok(b) => {
                            let d = digest(b);
                            let n = b.len();
                            r.consume(n);
                            d
                        }
                        Err(e) => format!("Err:{}", errkind(&e)),
                    },
                    Op::Line => {
                        let mut buf = Vec::new();
                        match r.read_until(b'\n', &mut buf).await {
                            Ok(_) => digest(&buf),
                            Err(e) => format!("Err:{}", errkind(&e)),
                        }
                    }
                    Op::ToEnd => {
                        let mut all = Vec::new();
                        let mut buf = vec![0u8; CHUNK];
                        loop {
                            match r.read(&mut buf).await {
                                Ok(0) => break digest(&all),
                                Ok(k) => all.extend_from_slice(&buf[..k]),
                                Err(e) => break format!("{}+Err:{}", digest(&all), errkind(&e)),
                            }
                        }
                    }
                    Op::Seek(c, u) => match VP::try_from((*c, *u)) {
                        Ok(vp) => match r.seek(vp).await {
                            Ok(p) => format!("vp{}", u64::from(p)),
                            Err(e) => format!("Err:{}", errkind(&e)),
                        },
                        Err(_) => "badvp".into(),
                    },
                    Op::SeekU(p) => match r.seek_by_uncompressed_position(&index, *p).await {
                        Ok(p) => format!("up{p}"),
                        Err(e) => format!("Err:{}", errkind(&e)),
                    },
                };
                if s.contains("Err:") {
                    out.push(s);
                    break;
                }
                let vp = u64::from(r.virtual_position());
                out.push(format!("{s}@{vp}"));
            }
            out
        })
    }));
    let t = tripped.load(Ordering::SeqCst);
    match res {
        Outcome::Done(v) => (v, t),
        Outcome::Panicked(_) => (vec!["Panic".into()], t),
    }
}

fn run_bgzfr(c: &Case) -> Obs {
    let file = c.b(0);
    let ops = parse_ops(&c.args[1]);
    let (mode, seed, workers) = (c.u(2) as u8, c.u(3), c.u(4) as usize);
    let s = sync_ops(&file, &ops);
    let (a, tripped) = async_ops(&file, &ops, Sched::new(mode, seed), workers);
    if tripped {
        return Obs::fail("-", "async-bgzf-hang", format!("poll limit reached ops={}", c.args[1]));
    }
    let nontrivial = ops.len() >= 2 && file.len() > 28;
    // a panic on the async side aborts the whole transcript: compare up to the panic
    if a.last().map(|x| x == "Panic").unwrap_or(false) || s.last().map(|x| x == "Panic").unwrap_or(false) {
        let sp = s.last().map(|x| x == "Panic").unwrap_or(false);
        let ap = a.last().map(|x| x == "Panic").unwrap_or(false);
        if sp && ap {
            return Obs::ok("-", nontrivial);
        }
        return Obs::fail("-", "async-bgzf-panic-differs", format!("sync={s:?} async={a:?} ops={}", c.args[1]));
    }
    if s != a {
        let i = s.iter().zip(a.iter()).position(|(x, y)| x != y).unwrap_or(s.len().min(a.len()));
        let tag = classify_ops_diff(&file, &ops, i);
        return Obs::fail(
            "-",
            tag,
            format!("op#{i} {:?} sync={:?} async={:?} ops={} file={}", ops.get(i), s.get(i), a.get(i), c.args[1], short_hex(&file)),
        );
    }
    Obs::ok("-", nontrivial)
}

/// Cause of a transcript difference at op `i`, derived from the input.
fn classify_ops_diff(file: &[u8], ops: &[Op], i: usize) -> &'static str {
    let bs = boundaries(file);
    let wellformed = *bs.last().unwrap() == file.len();
    if !wellformed {
        return classify_frame_diff(file);
    }
    // index of the last seek at or before op i
    let last_seek = ops[..=i.min(ops.len() - 1)].iter().rev().find_map(|o| match o {
        Op::Seek(c, u) => Some((*c, *u)),
        _ => None,
    });
    let index = gzi_of(file);
    let last_seek = last_seek.or_else(|| {
        ops[..=i.min(ops.len() - 1)].iter().rev().find_map(|o| match o {
            Op::SeekU(p) => index.query(*p).ok().map(|vp| (vp.compressed(), vp.uncompressed())),
            _ => None,
        })
    });
    if let Some((c, _u)) = last_seek {
        // no non-empty block at or after c?
        let at_or_after_has_data = {
            let mut r = bgzf::io::Reader::new(&file[(c as usize).min(file.len())..]);
            matches!(r.fill_buf(), Ok(b) if !b.is_empty())
        };
        if !bs.contains(&(c as usize)) {
            return "async-bgzf-seek-misaligned-differs";
        }
        if !at_or_after_has_data {
            return "async-bgzf-seek-past-last-data-block";
        }
        // first block at c empty?
        let k = bs.iter().position(|&b| b == c as usize).unwrap();
        if k + 1 < bs.len() {
            let mut r = bgzf::io::Reader::new(&file[bs[k]..bs[k + 1]]);
            if matches!(r.fill_buf(), Ok(b) if b.is_empty()) {
                return "async-bgzf-seek-to-empty-block";
            }
        }
    }
    "async-bgzf-reader-differs"
}

fn gen_ops(rng: &mut Rng, file: &[u8], plen: usize, seekable: bool) -> Vec<Op> {
    let bs = boundaries(file);
    let n = rng.range(1, 10);
    let mut ops = Vec::new();
    for _ in 0..n {
        let o = match rng.below(if seekable { 10 } else { 6 }) {
            0 => Op::Read(*rng.pick(&[0usize, 1, 2, 7, 100, 4096, 65535])),
            1 => Op::Exact(*rng.pick(&[0usize, 1, 3, 50, 1000, 20000])),
            2 => Op::Fill,
            3 => Op::Line,
            4 => Op::ToEnd,
            5 => Op::Read(rng.range(1, 300) as usize),
            6 | 7 => {
                // a block start and an in-block offset within that block's data
                let k = rng.below(bs.len() as u64) as usize;
                let c = bs[k];
                let dlen = if k + 1 < bs.len() {
                    let mut r = bgzf::io::Reader::new(&file[bs[k]..bs[k + 1]]);
                    r.fill_buf().map(|b| b.len()).unwrap_or(0)
                } else {
                    0
                };
                let u = match rng.below(4) {
                    0 => 0,
                    1 => dlen.saturating_sub(1),
                    2 => dlen,
                    _ => rng.below(dlen as u64 + 1) as usize,
                };
                Op::Seek(c as u64, u.min(65535) as u16)
            }
            8 => Op::SeekU(match rng.below(3) {
                0 => 0,
                1 => plen as u64,
                _ => rng.below(plen as u64 + 1),
            }),
            _ if rng.chance(1, 5) => Op::Seek(file.len() as u64, 0),
            _ => Op::Fill,
        };
        ops.push(o);
    }
    ops
}

// ---------------------------------------------------------------------------------------------
// kind `bgzfw`: writer

#[derive(Clone, Debug)]
enum WOp {
    Write(usize),
    WriteAll(usize),
    Flush,
}

fn gen_wops(rng: &mut Rng, big: bool) -> Vec<WOp> {
    let n = rng.range(0, 8);
    (0..n)
        .map(|_| match rng.below(6) {
            0 => WOp::Flush,
            1 => WOp::Write(*rng.pick(&[0usize, 1, 10, 1000])),
            2 if big => WOp::WriteAll(*rng.pick(&[65279usize, 65280, 65281, 130560, 130561, 200000])),
            2 => WOp::WriteAll(rng.range(0, 5000) as usize),
            3 if big => WOp::Write(*rng.pick(&[65279usize, 65280, 65281, 70000])),
            _ => WOp::WriteAll(rng.range(0, 3000) as usize),
        })
        .collect()
}

fn run_bgzfw(c: &Case) -> Obs {
    let (seed, mode, sseed, workers, level) = (c.u(0), c.u(1) as u8, c.u(2), c.u(3) as usize, c.u(4) as u8);
    let big = c.u(5) == 1;
    let mut rng = Rng::new(seed);
    let ops = gen_wops(&mut rng, big);
    let total: usize = ops.iter().map(|o| match o { WOp::Write(n) | WOp::WriteAll(n) => *n, _ => 0 }).sum();
    let data = payload(&mut rng, total);
    let lvl = bgzf::io::writer::CompressionLevel::new(level).unwrap();
    // sync
    let mut sret = Vec::new();
    let sync_out = {
        let mut w = bgzf::io::writer::Builder::default().set_compression_level(lvl).build_from_writer(Vec::new());
        let mut at = 0;
        for op in &ops {
            match op {
                WOp::Write(n) => {
                    let k = w.write(&data[at..at + n]).unwrap();
                    sret.push(k);
                    at += n; // the unwritten rest of this request is dropped by the caller on both sides
                }
                WOp::WriteAll(n) => {
                    w.write_all(&data[at..at + n]).unwrap();
                    at += n;
                }
                WOp::Flush => w.flush().unwrap(),
            }
        }
        w.finish().unwrap()
    };
    // async
    let sched = Sched::new(mode, sseed);
    let tripped = sched.tripped.clone();
    let (sink, log) = AdvWriter::new(sched);
    let ops2 = ops.clone();
    let data2 = data.clone();
    let ares = block_on(async move {
        let mut w = bgzf::r#async::io::writer::Builder::default()
            .set_compression_level(lvl)
            .set_worker_count(NonZero::new(workers.max(1)).unwrap())
            .build_from_writer(sink);
        let mut rets = Vec::new();
        let mut at = 0;
        for op in &ops2 {
            match op {
                WOp::Write(n) => {
                    rets.push(w.write(&data2[at..at + n]).await?);
                    at += n;
                }
                WOp::WriteAll(n) => {
                    w.write_all(&data2[at..at + n]).await?;
                    at += n;
                }
                WOp::Flush => w.flush().await?,
            }
        }
        w.shutdown().await?;
        Ok::<_, std::io::Error>(rets)
    });
    if tripped.load(Ordering::SeqCst) {
        return Obs::fail("-", "async-bgzf-hang", format!("writer poll limit reached seed={seed}"));
    }
    let aret = match ares {
        Ok(r) => r,
        Err(e) => return Obs::fail("-", "async-bgzf-writer-differs", format!("async writer error {e} seed={seed}")),
    };
    let log = log.lock().unwrap();
    let decode = |b: &[u8]| -> Result<Vec<u8>, String> {
        let mut r = bgzf::io::Reader::new(b);
        let mut all = Vec::new();
        let mut buf = vec![0u8; CHUNK];
        loop {
            match r.read(&mut buf) {
                Ok(0) => return Ok(all),
                Ok(k) => all.extend_from_slice(&buf[..k]),
                Err(e) => return Err(errkind(&e)),
            }
        }
    };
    let nontrivial = total > 0 && ops.len() >= 2;
    let (ds, da) = (decode(&sync_out), decode(&log.bytes));
    if ds != da {
        return Obs::fail("-", "async-bgzf-writer-differs", format!("decoded content differs seed={seed} ops={ops:?}"));
    }
    if !log.bytes.ends_with(&EOF_BLOCK) {
        return Obs::fail("-", "async-bgzf-writer-no-eof-marker", format!("seed={seed} ops={ops:?}"));
    }
    if boundaries(&sync_out) != boundaries(&log.bytes) || sync_out != log.bytes {
        // same level, same deflate implementation: the code promises nothing less than identical blocks
        return Obs::fail("-", "async-bgzf-writer-bytes-differ", format!("seed={seed} level={level} ops={ops:?} sync_len={} async_len={}", sync_out.len(), log.bytes.len()));
    }
    if sret != aret {
        return Obs::fail("-", "async-bgzf-writer-accepts-differ", format!("seed={seed} sync={sret:?} async={aret:?} ops={ops:?}"));
    }
    Obs::ok("-", nontrivial)
}

// ---------------------------------------------------------------------------------------------

fn generate(rng: &mut Rng, tier: &str, w: &mut CaseWriter) {
    let thorough = tier == "thorough";
    let n = if thorough { 3000 } else { 240 };
    for i in 0..n {
        gen_frame_case(rng, w, i);
    }
    // exhaustive truncation of one small file at every offset, 1-byte and whole transfers
    {
        let p = payload(rng, 90);
        let f = bgzip(&p, &[30, 60], true, 6);
        let bs = boundaries(&f);
        for k in 0..=f.len() {
            let nvalid = bs.iter().filter(|&&b| b > 0 && b <= k).count();
            let mode = if k % 2 == 0 { 1 } else { 5 };
            w.push("frame", vec![hex(&f[..k]), nvalid.to_string(), mode.to_string(), "7".into(), "_".into(), "2".into()]);
        }
    }
    let n = if thorough { 3000 } else { 200 };
    for i in 0..n {
        let (f, p) = gen_bgzf(rng, i % 10 == 0);
        let ops = gen_ops(rng, &f, p.len(), i % 3 != 0);
        let mode = rng.below(6);
        w.push("bgzfr", vec![hex(&f), fmt_ops(&ops), mode.to_string(), rng.next().to_string(), rng.range(1, 8).to_string()]);
    }
    let n = if thorough { 1500 } else { 100 };
    for i in 0..n {
        let level = *rng.pick(&[0u8, 1, 6, 6, 9]);
        w.push(
            "bgzfw",
            vec![
                rng.next().to_string(),
                rng.below(6).to_string(),
                rng.next().to_string(),
                rng.range(1, 8).to_string(),
                level.to_string(),
                (if i % 8 == 0 { 1 } else { 0 }).to_string(),
            ],
        );
    }
    let n = if thorough { 4000 } else { 300 };
    for i in 0..n {
        c16_model_rw::gen_ardr(rng, w, i % 12 == 0);
    }
    let n = if thorough { 2000 } else { 150 };
    for i in 0..n {
        c16_model_rw::gen_awr(rng, w, i % 6 == 0);
    }
    let n = if thorough { 3000 } else { 250 };
    for _ in 0..n {
        c16_model_rw::gen_abam(rng, w);
    }
    c16_fmt::generate(rng, tier, w);
    // new kinds last: the case streams of the older kinds stay as they were
    c16_lines::generate(rng, tier, w);
    c16_wave6::generate(rng, tier, w);
    c16_enc::generate(rng, tier, w);
    c16_idxw::generate(rng, tier, w);
    c16_idxr::generate(rng, tier, w);
    c16_idxc::generate(rng, tier, w);
    c16_hread::generate(rng, tier, w);
}

fn run(c: &Case) -> Obs {
    match c.kind.as_str() {
        "frame" => run_frame(c),
        "bgzfr" => run_bgzfr(c),
        "bgzfw" => run_bgzfw(c),
        "ardr" => c16_model_rw::run_ardr(c),
        "awr" => c16_model_rw::run_awr(c),
        "abam" => c16_model_rw::run_abam(c),
        k => match c16_lines::run(c).or_else(|| c16_wave6::run(c)).or_else(|| c16_fmt::run(c)).or_else(|| c16_enc::run(c)).or_else(|| c16_idxw::run(c)).or_else(|| c16_idxr::run(c)).or_else(|| c16_idxc::run(c)).or_else(|| c16_hread::run(c)) {
            Some(o) => o,
            None => Obs::fail("-", "harness-unknown-kind", k),
        },
    }
}

fn main() {
    nv::main_with(generate, run);
}
