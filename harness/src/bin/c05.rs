//! C05: BAM record encode/decode are inverse; lazy field views agree with eager decode.
//!
//! Case kinds
//!   rec  mode nref name flags rid pos mapq cigar mrid mpos tlen seq qual data
//!        A record of the SAM data model (my own textual form, see `Spec`).  The implementation
//!        side builds a `sam::alignment::RecordBuf`, writes it with `bam::io::Writer`
//!        (mode raw = Writer::from(Vec), mode bgzf = full BGZF file with header), reads it back
//!        eagerly (`read_record_buf`) and lazily (`read_record`) and evaluates the property.
//!        obs (modelled) = `<bytes>|<decoded>` where <bytes> is the block (block_size + record)
//!        in hex (or a length+digest when long) or `Err:<kind>`, and <decoded> is the canonical
//!        text of the eagerly decoded record (digest when long).
//!   dec  hexbytes
//!        An arbitrary record block body (mutated encodings).  obs (modelled) = canonical text of
//!        the eager decode or `Err:<kind>`.  verdict: lazy accessors == eager when both succeed,
//!        and no panic.
//!   rw   <rec args>
//!        write, read lazily (bam::Record), write the lazy record again: same bytes.
//!   sub  seqhex
//!        `Sequence::split_at_checked(mid)` of the lazy record for every/sampled mid: bounds, len,
//!        get and iter of both halves against slices of the eagerly decoded sequence.
//!   tab  which
//!        Exhaustive finite tables through the public API: base codes (256 bytes), nibble pairs
//!        (256 bytes), CIGAR kinds.

use std::{io, num::NonZero};

use noodles_bam as bam;
use noodles_core::Position;
use noodles_sam::{
    self as sam,
    alignment::{
        RecordBuf,
        io::Write as _,
        record::{
            Flags, MappingQuality,
            cigar::{Op, op::Kind},
            data::field::Tag,
        },
        record_buf::{
            Cigar, Data, QualityScores, Sequence,
            data::field::{Value, value::Array},
        },
    },
    header::record::value::{Map, map::ReferenceSequence},
};
use nv::{Case, CaseWriter, Obs, Outcome, Rng, guarded, hex, unhex};

// -------------------------------------------------------------------------------------------
// The harness' own representation of a record (independent of noodles types).

#[derive(Clone, Debug, PartialEq)]
enum Val {
    /// A c C s S i I f : type char, value (floats as bit pattern)
    Num(char, i64),
    /// Z H
    Str(char, Vec<u8>),
    /// B : subtype char, values (floats as bit patterns)
    Arr(char, Vec<i64>),
}

#[derive(Clone, Debug, PartialEq)]
struct Spec {
    nref: usize,
    name: Option<Vec<u8>>,
    flags: u16,
    rid: Option<usize>,
    pos: Option<usize>,
    mapq: Option<u8>,
    cigar: Vec<(u8, usize)>,
    mrid: Option<usize>,
    mpos: Option<usize>,
    tlen: i32,
    seq: Vec<u8>,
    qual: Vec<u8>,
    data: Vec<([u8; 2], Val)>,
}

const CG: [u8; 2] = *b"CG";

fn opt_s<T: ToString>(o: &Option<T>) -> String {
    o.as_ref().map(|v| v.to_string()).unwrap_or_else(|| "-".into())
}

fn fmt_cigar_plain(c: &[(u8, usize)]) -> String {
    if c.is_empty() {
        return "_".into();
    }
    let mut s = String::with_capacity(c.len() * 5);
    for (i, (k, l)) in c.iter().enumerate() {
        if i > 0 {
            s.push(',');
        }
        s.push_str(&l.to_string());
        s.push(':');
        s.push((b'0' + k) as char);
    }
    s
}

/// run-length form used in case files: segments `N*ops` separated by ';'
fn fmt_cigar_rle(segs: &[(usize, Vec<(u8, usize)>)]) -> String {
    let parts: Vec<String> = segs
        .iter()
        .filter(|(n, ops)| *n > 0 && !ops.is_empty())
        .map(|(n, ops)| format!("{n}*{}", fmt_cigar_plain(ops)))
        .collect();
    if parts.is_empty() { "_".into() } else { parts.join(";") }
}

fn expand_segs(segs: &[(usize, Vec<(u8, usize)>)]) -> Vec<(u8, usize)> {
    let mut v = Vec::new();
    for (n, ops) in segs {
        for _ in 0..*n {
            v.extend_from_slice(ops);
        }
    }
    v
}

fn parse_ops(s: &str) -> Vec<(u8, usize)> {
    if s == "_" {
        return vec![];
    }
    s.split(',')
        .map(|p| {
            let (l, k) = p.split_once(':').expect("op");
            (k.parse::<u8>().expect("kind"), l.parse::<usize>().expect("len"))
        })
        .collect()
}

fn parse_cigar(s: &str) -> Vec<(u8, usize)> {
    if s == "_" {
        return vec![];
    }
    let mut v = Vec::new();
    for seg in s.split(';') {
        let (n, ops) = seg.split_once('*').expect("seg");
        let n: usize = n.parse().expect("rep");
        let ops = parse_ops(ops);
        for _ in 0..n {
            v.extend_from_slice(&ops);
        }
    }
    v
}

fn fmt_val(v: &Val) -> String {
    match v {
        Val::Num(t, n) => format!("{t}:{n}"),
        Val::Str(t, s) => format!("{t}:{}", hex(s)),
        Val::Arr(t, xs) => {
            if xs.is_empty() {
                format!("B:{t}:_")
            } else {
                let items: Vec<String> = xs.iter().map(|x| x.to_string()).collect();
                format!("B:{t}:{}", items.join(","))
            }
        }
    }
}

fn fmt_data(d: &[([u8; 2], Val)]) -> String {
    if d.is_empty() {
        return "_".into();
    }
    d.iter()
        .map(|(t, v)| format!("{:02x}{:02x}:{}", t[0], t[1], fmt_val(v)))
        .collect::<Vec<_>>()
        .join(";")
}

fn parse_data(s: &str) -> Vec<([u8; 2], Val)> {
    if s == "_" {
        return vec![];
    }
    s.split(';')
        .map(|f| {
            let parts: Vec<&str> = f.split(':').collect();
            let t = unhex(parts[0]);
            let tag = [t[0], t[1]];
            let ty = parts[1].chars().next().unwrap();
            let v = match ty {
                'Z' | 'H' => Val::Str(ty, unhex(parts[2])),
                'B' => {
                    let st = parts[2].chars().next().unwrap();
                    let xs = if parts[3] == "_" {
                        vec![]
                    } else {
                        parts[3].split(',').map(|x| x.parse::<i64>().unwrap()).collect()
                    };
                    Val::Arr(st, xs)
                }
                _ => Val::Num(ty, parts[2].parse::<i64>().unwrap()),
            };
            (tag, v)
        })
        .collect()
}

impl Spec {
    fn to_args(&self, mode: &str, cigar_rle: Option<String>) -> Vec<String> {
        vec![
            mode.into(),
            self.nref.to_string(),
            self.name.as_ref().map(|n| hex(n)).unwrap_or_else(|| "-".into()),
            self.flags.to_string(),
            opt_s(&self.rid),
            opt_s(&self.pos),
            opt_s(&self.mapq),
            cigar_rle.unwrap_or_else(|| {
                if self.cigar.is_empty() { "_".into() } else { format!("1*{}", fmt_cigar_plain(&self.cigar)) }
            }),
            opt_s(&self.mrid),
            opt_s(&self.mpos),
            self.tlen.to_string(),
            hex(&self.seq),
            hex(&self.qual),
            fmt_data(&self.data),
        ]
    }

    fn from_case(c: &Case) -> (String, Spec) {
        let o = |i: usize| -> Option<usize> {
            if c.args[i] == "-" { None } else { Some(c.args[i].parse().unwrap()) }
        };
        let spec = Spec {
            nref: c.u(1) as usize,
            name: if c.args[2] == "-" { None } else { Some(c.b(2)) },
            flags: c.u(3) as u16,
            rid: o(4),
            pos: o(5),
            mapq: o(6).map(|m| m as u8),
            cigar: parse_cigar(&c.args[7]),
            mrid: o(8),
            mpos: o(9),
            tlen: c.i(10) as i32,
            seq: c.b(11),
            qual: c.b(12),
            data: parse_data(&c.args[13]),
        };
        (c.args[0].clone(), spec)
    }

    /// canonical text of a (decoded) record, shared with the OCaml driver
    fn canon(&self) -> String {
        format!(
            "{} {} {} {} {} {} {} {} {} {} {} {}",
            self.name.as_ref().map(|n| hex(n)).unwrap_or_else(|| "-".into()),
            self.flags,
            opt_s(&self.rid),
            opt_s(&self.pos),
            opt_s(&self.mapq),
            fmt_cigar_plain(&self.cigar),
            opt_s(&self.mrid),
            opt_s(&self.mpos),
            self.tlen,
            hex(&self.seq),
            hex(&self.qual),
            fmt_data(&self.data)
        )
    }
}

const MASK: u64 = (1 << 62) - 1;
fn mix(h: u64, v: u64) -> u64 {
    h.wrapping_mul(1_000_003).wrapping_add(v).wrapping_add(1) & MASK
}
fn digest(bs: &[u8]) -> u64 {
    bs.iter().fold(0u64, |h, b| mix(h, *b as u64))
}
const LONG: usize = 1200;
fn short_or_digest(s: String) -> String {
    if s.len() <= LONG { s } else { format!("#{}:{}", s.len(), digest(s.as_bytes())) }
}

// -------------------------------------------------------------------------------------------
// Spec <-> noodles

fn kind_of(k: u8) -> Kind {
    match k {
        0 => Kind::Match,
        1 => Kind::Insertion,
        2 => Kind::Deletion,
        3 => Kind::Skip,
        4 => Kind::SoftClip,
        5 => Kind::HardClip,
        6 => Kind::Pad,
        7 => Kind::SequenceMatch,
        _ => Kind::SequenceMismatch,
    }
}
fn code_of(k: Kind) -> u8 {
    match k {
        Kind::Match => 0,
        Kind::Insertion => 1,
        Kind::Deletion => 2,
        Kind::Skip => 3,
        Kind::SoftClip => 4,
        Kind::HardClip => 5,
        Kind::Pad => 6,
        Kind::SequenceMatch => 7,
        Kind::SequenceMismatch => 8,
    }
}

fn val_to_noodles(v: &Val) -> Value {
    match v {
        Val::Num('A', n) => Value::Character(*n as u8),
        Val::Num('c', n) => Value::Int8(*n as i8),
        Val::Num('C', n) => Value::UInt8(*n as u8),
        Val::Num('s', n) => Value::Int16(*n as i16),
        Val::Num('S', n) => Value::UInt16(*n as u16),
        Val::Num('i', n) => Value::Int32(*n as i32),
        Val::Num('I', n) => Value::UInt32(*n as u32),
        Val::Num(_, n) => Value::Float(f32::from_bits(*n as u32)),
        Val::Str('Z', s) => Value::String(s.clone().into()),
        Val::Str(_, s) => Value::Hex(s.clone().into()),
        Val::Arr('c', xs) => Value::Array(Array::Int8(xs.iter().map(|x| *x as i8).collect())),
        Val::Arr('C', xs) => Value::Array(Array::UInt8(xs.iter().map(|x| *x as u8).collect())),
        Val::Arr('s', xs) => Value::Array(Array::Int16(xs.iter().map(|x| *x as i16).collect())),
        Val::Arr('S', xs) => Value::Array(Array::UInt16(xs.iter().map(|x| *x as u16).collect())),
        Val::Arr('i', xs) => Value::Array(Array::Int32(xs.iter().map(|x| *x as i32).collect())),
        Val::Arr('I', xs) => Value::Array(Array::UInt32(xs.iter().map(|x| *x as u32).collect())),
        Val::Arr(_, xs) => {
            Value::Array(Array::Float(xs.iter().map(|x| f32::from_bits(*x as u32)).collect()))
        }
    }
}

fn val_from_noodles(v: &Value) -> Val {
    match v {
        Value::Character(n) => Val::Num('A', *n as i64),
        Value::Int8(n) => Val::Num('c', *n as i64),
        Value::UInt8(n) => Val::Num('C', *n as i64),
        Value::Int16(n) => Val::Num('s', *n as i64),
        Value::UInt16(n) => Val::Num('S', *n as i64),
        Value::Int32(n) => Val::Num('i', *n as i64),
        Value::UInt32(n) => Val::Num('I', *n as i64),
        Value::Float(n) => Val::Num('f', n.to_bits() as i64),
        Value::String(s) => Val::Str('Z', s.to_vec()),
        Value::Hex(s) => Val::Str('H', s.to_vec()),
        Value::Array(a) => match a {
            Array::Int8(xs) => Val::Arr('c', xs.iter().map(|x| *x as i64).collect()),
            Array::UInt8(xs) => Val::Arr('C', xs.iter().map(|x| *x as i64).collect()),
            Array::Int16(xs) => Val::Arr('s', xs.iter().map(|x| *x as i64).collect()),
            Array::UInt16(xs) => Val::Arr('S', xs.iter().map(|x| *x as i64).collect()),
            Array::Int32(xs) => Val::Arr('i', xs.iter().map(|x| *x as i64).collect()),
            Array::UInt32(xs) => Val::Arr('I', xs.iter().map(|x| *x as i64).collect()),
            Array::Float(xs) => Val::Arr('f', xs.iter().map(|x| x.to_bits() as i64).collect()),
        },
    }
}

fn header_with(nref: usize) -> sam::Header {
    let mut b = sam::Header::builder();
    for i in 0..nref {
        b = b.add_reference_sequence(
            format!("r{i}"),
            Map::<ReferenceSequence>::new(NonZero::new((1usize << 31) - 1).unwrap()),
        );
    }
    b.build()
}

fn to_record_buf(s: &Spec) -> RecordBuf {
    let mut r = RecordBuf::default();
    *r.name_mut() = s.name.clone().map(|n| n.into());
    *r.flags_mut() = Flags::from(s.flags);
    *r.reference_sequence_id_mut() = s.rid;
    *r.alignment_start_mut() = s.pos.and_then(Position::new);
    *r.mapping_quality_mut() = s.mapq.and_then(MappingQuality::new);
    *r.cigar_mut() = s.cigar.iter().map(|(k, l)| Op::new(kind_of(*k), *l)).collect::<Cigar>();
    *r.mate_reference_sequence_id_mut() = s.mrid;
    *r.mate_alignment_start_mut() = s.mpos.and_then(Position::new);
    *r.template_length_mut() = s.tlen;
    *r.sequence_mut() = Sequence::from(s.seq.clone());
    *r.quality_scores_mut() = QualityScores::from(s.qual.clone());
    let mut d = Data::default();
    for (t, v) in &s.data {
        d.insert(Tag::new(t[0], t[1]), val_to_noodles(v));
    }
    *r.data_mut() = d;
    r
}

fn from_record_buf(r: &RecordBuf, nref: usize) -> Spec {
    Spec {
        nref,
        name: r.name().map(|n| n.to_vec()),
        flags: u16::from(r.flags()),
        rid: r.reference_sequence_id(),
        pos: r.alignment_start().map(usize::from),
        mapq: r.mapping_quality().map(|m| m.get()),
        cigar: r.cigar().as_ref().iter().map(|op| (code_of(op.kind()), op.len())).collect(),
        mrid: r.mate_reference_sequence_id(),
        mpos: r.mate_alignment_start().map(usize::from),
        tlen: r.template_length(),
        seq: r.sequence().as_ref().to_vec(),
        qual: r.quality_scores().as_ref().to_vec(),
        data: r
            .data()
            .iter()
            .map(|(t, v)| {
                let b: &[u8; 2] = t.as_ref();
                (*b, val_from_noodles(v))
            })
            .collect(),
    }
}

// -------------------------------------------------------------------------------------------
// Independent statement of the property's side conditions.

fn consumes_read(k: u8) -> bool {
    matches!(k, 0 | 1 | 4 | 7 | 8)
}
fn consumes_ref(k: u8) -> bool {
    matches!(k, 0 | 2 | 3 | 7 | 8)
}

/// Why the writer must refuse this record (None = it is inside the BAM-representable grammar).
fn reject_reason(s: &Spec) -> Option<&'static str> {
    const I32MAX: usize = i32::MAX as usize;
    if let Some(id) = s.rid {
        if id >= s.nref || id > I32MAX {
            return Some("rid");
        }
    }
    if let Some(id) = s.mrid {
        if id >= s.nref || id > I32MAX {
            return Some("mrid");
        }
    }
    if let Some(p) = s.pos {
        if p - 1 > I32MAX {
            return Some("pos");
        }
    }
    if let Some(p) = s.mpos {
        if p - 1 > I32MAX {
            return Some("mpos");
        }
    }
    if let Some(n) = &s.name {
        if n.is_empty() || n.len() > 254 {
            return Some("name-length");
        }
        if n == b"*" || !n.iter().all(|b| (0x21..=0x7e).contains(b) && *b != b'@') {
            return Some("name-chars");
        }
    }
    if s.cigar.iter().any(|(_, l)| *l >= 1 << 28) {
        return Some("op-length");
    }
    let read_len: usize = s.cigar.iter().filter(|(k, _)| consumes_read(*k)).map(|(_, l)| *l).sum();
    if !s.seq.is_empty() && read_len > 0 && s.seq.len() != read_len {
        return Some("seq-cigar-mismatch");
    }
    if s.seq.len() > u32::MAX as usize {
        return Some("l_seq");
    }
    if s.qual.len() != s.seq.len() && !s.qual.is_empty() {
        return Some("qual-length");
    }
    if s.qual.iter().any(|q| *q > 93) {
        return Some("qual-score");
    }
    for (t, v) in &s.data {
        if *t == CG {
            continue; // dropped, never written
        }
        match v {
            Val::Str('Z', b) => {
                if !b.iter().all(|c| (0x20..=0x7e).contains(c)) {
                    return Some("aux-string");
                }
            }
            Val::Str(_, b) => {
                if b.len() % 2 != 0 || !b.iter().all(|c| c.is_ascii_digit() || (b'A'..=b'F').contains(c)) {
                    return Some("aux-hex");
                }
            }
            _ => {}
        }
    }
    if s.cigar.len() > 65535 {
        let span: usize = s.cigar.iter().filter(|(k, _)| consumes_ref(*k)).map(|(_, l)| *l).sum();
        if span >= 1 << 28 || s.seq.len() >= 1 << 28 {
            return Some("overflow-placeholder-length");
        }
    }
    None
}

const BASES: &[u8; 16] = b"=ACMGRSVTWYHKDBN";
fn norm_base(b: u8) -> u8 {
    let u = b.to_ascii_uppercase();
    if BASES.contains(&u) { u } else { b'N' }
}

/// What an accepted record must read back as.
fn normalise(s: &Spec) -> Spec {
    let mut n = s.clone();
    n.seq = s.seq.iter().map(|b| norm_base(*b)).collect();
    n.data.retain(|(t, _)| *t != CG);
    n
}

/// SAM spec section 5.3 (0-based, half-open)
fn spec_reg2bin(beg: u64, end: u64) -> u64 {
    let end = end - 1;
    if beg >> 14 == end >> 14 {
        return ((1 << 15) - 1) / 7 + (beg >> 14);
    }
    if beg >> 17 == end >> 17 {
        return ((1 << 12) - 1) / 7 + (beg >> 17);
    }
    if beg >> 20 == end >> 20 {
        return ((1 << 9) - 1) / 7 + (beg >> 20);
    }
    if beg >> 23 == end >> 23 {
        return ((1 << 6) - 1) / 7 + (beg >> 23);
    }
    if beg >> 26 == end >> 26 {
        return ((1 << 3) - 1) / 7 + (beg >> 26);
    }
    0
}

/// expected bin and whether the property constrains it (coordinates below 2^29)
fn expected_bin(s: &Spec) -> (u64, bool) {
    match s.pos {
        None => (4680, true),
        Some(p) => {
            let span: u64 = s.cigar.iter().filter(|(k, _)| consumes_ref(*k)).map(|(_, l)| *l as u64).sum();
            let beg = p as u64 - 1;
            let end = if span == 0 { beg + 1 } else { beg + span };
            (spec_reg2bin(beg, end), end <= 1 << 29)
        }
    }
}

// -------------------------------------------------------------------------------------------
// Running a `rec` case

fn write_raw(header: &sam::Header, rec: &dyn sam::alignment::Record) -> io::Result<Vec<u8>> {
    let mut w = bam::io::Writer::from(Vec::new());
    w.write_alignment_record(header, rec)?;
    Ok(w.into_inner())
}

fn read_raw_eager(header: &sam::Header, block: &[u8]) -> io::Result<RecordBuf> {
    let mut rd = bam::io::Reader::from(block);
    let mut rec = RecordBuf::default();
    let n = rd.read_record_buf(header, &mut rec)?;
    if n == 0 {
        return Err(io::Error::new(io::ErrorKind::Other, "eof"));
    }
    Ok(rec)
}

fn read_raw_lazy(block: &[u8]) -> io::Result<bam::Record> {
    let mut rd = bam::io::Reader::from(block);
    let mut rec = bam::Record::default();
    let n = rd.read_record(&mut rec)?;
    if n == 0 {
        return Err(io::Error::new(io::ErrorKind::Other, "eof"));
    }
    Ok(rec)
}

type V = Result<(), (String, String)>;
fn bad(tag: &str, detail: impl Into<String>) -> V {
    let mut d: String = detail.into();
    if d.len() > 300 {
        d.truncate(300);
    }
    Err((tag.to_string(), d))
}

/// Failures whose class is a recorded finding are reported only when nothing else failed, so
/// that they cannot hide a different violation in the same case.
const LATE_TAGS: &[&str] = &["lazy-data-retains-cg-after-resolve", "rewrite-lazy-duplicates-cg"];

fn select(fails: Vec<(String, String)>) -> V {
    if let Some(f) = fails.iter().find(|(t, _)| !LATE_TAGS.contains(&t.as_str())) {
        return Err(f.clone());
    }
    let also: Vec<String> = fails.iter().skip(1).map(|(t, _)| t.clone()).collect();
    match fails.into_iter().next() {
        Some((t, d)) => Err((t, if also.is_empty() { d } else { format!("{d} [also: {}]", also.join(", ")) })),
        None => Ok(()),
    }
}

/// every lazy accessor of `lz` against the eager record `eg`; all failures, in order
/// `placeholder_outside_quantifier`: only for hand-made `dec` bodies -- a kSmN placeholder whose CG
/// array has <= 65535 operations, which no writer produces; there the CG field is ignored when the
/// data views are compared (the recorded finding is about records with > 65535 operations).
fn check_lazy(header: &sam::Header, lz: &bam::Record, eg: &RecordBuf, placeholder_outside_quantifier: bool) -> Vec<(String, String)> {
    let mut fails = Vec::new();
    for r in [
        check_lazy_core(lz, eg),
        check_lazy_data(lz, eg, placeholder_outside_quantifier),
        check_lazy_convert(header, lz, eg),
    ] {
        if let Err(f) = r {
            fails.push(f);
        }
    }
    fails
}

fn check_lazy_core(lz: &bam::Record, eg: &RecordBuf) -> V {
    if lz.name().map(|n| n.to_vec()) != eg.name().map(|n| n.to_vec()) {
        return bad("lazy-name", format!("{:?} vs {:?}", lz.name(), eg.name()));
    }
    if lz.flags() != eg.flags() {
        return bad("lazy-flags", format!("{:?} vs {:?}", lz.flags(), eg.flags()));
    }
    let o = |x: Option<io::Result<usize>>| x.map(|r| r.map_err(|e| e.kind()));
    if o(lz.reference_sequence_id()) != eg.reference_sequence_id().map(Ok) {
        return bad("lazy-rid", "");
    }
    if o(lz.mate_reference_sequence_id()) != eg.mate_reference_sequence_id().map(Ok) {
        return bad("lazy-mrid", "");
    }
    let p = |x: Option<io::Result<Position>>| x.map(|r| r.map_err(|e| e.kind()));
    if p(lz.alignment_start()) != eg.alignment_start().map(Ok) {
        return bad("lazy-pos", "");
    }
    if p(lz.mate_alignment_start()) != eg.mate_alignment_start().map(Ok) {
        return bad("lazy-mpos", "");
    }
    if lz.mapping_quality() != eg.mapping_quality() {
        return bad("lazy-mapq", "");
    }
    if lz.template_length() != eg.template_length() {
        return bad("lazy-tlen", "");
    }
    // cigar
    let lc: io::Result<Vec<Op>> = lz.cigar().iter().collect();
    match lc {
        Ok(ops) => {
            if ops.as_slice() != eg.cigar().as_ref() {
                return bad("lazy-cigar", format!("{} vs {} ops", ops.len(), eg.cigar().as_ref().len()));
            }
        }
        Err(e) => return bad("lazy-cigar", format!("Err {:?}", e.kind())),
    }
    if lz.cigar().len() != eg.cigar().as_ref().len() || lz.cigar().is_empty() != eg.cigar().as_ref().is_empty() {
        return bad("lazy-cigar-len", "");
    }
    // sequence
    let es: &[u8] = eg.sequence().as_ref();
    let ls = lz.sequence();
    if ls.len() != es.len() || ls.is_empty() != es.is_empty() {
        return bad("lazy-seq-len", format!("{} vs {}", ls.len(), es.len()));
    }
    let it: Vec<u8> = ls.iter().collect();
    if it != es {
        return bad("lazy-seq-iter", format!("len {} iter gives {}", es.len(), it.len()));
    }
    let rit: Vec<u8> = ls.iter().rev().collect();
    if rit.iter().rev().copied().collect::<Vec<u8>>() != es {
        return bad("lazy-seq-iter-rev", format!("len {}", es.len()));
    }
    let n = es.len();
    let probe: Vec<usize> = if n <= 64 { (0..n + 2).collect() } else { vec![0, 1, 2, n / 2, n - 2, n - 1, n, n + 1] };
    for i in probe.iter().copied() {
        if ls.get(i) != es.get(i).copied() {
            return bad("lazy-seq-get", format!("i={i} len={n}"));
        }
    }
    // qualities
    let eq: &[u8] = eg.quality_scores().as_ref();
    let lq = lz.quality_scores();
    if lq.as_bytes() != eq || lq.len() != eq.len() || lq.iter().collect::<Vec<u8>>() != eq {
        return bad("lazy-qual", format!("{} vs {}", lq.len(), eq.len()));
    }
    Ok(())
}

fn subseq_mids(n: usize) -> Vec<usize> {
    if n <= 12 { (0..=n + 1).collect() } else { vec![0, 1, 2, 3, n / 2, n / 2 + 1, n - 3, n - 2, n - 1, n, n + 1] }
}

/// Sequence::split_at_checked: bounds, len, get
fn check_lazy_subseq_shape(lz: &bam::Record, eg: &RecordBuf) -> V {
    let es: &[u8] = eg.sequence().as_ref();
    let ls = lz.sequence();
    let n = es.len();
    for mid in subseq_mids(n) {
        match ls.split_at_checked(mid) {
            None => {
                if mid <= n {
                    return bad("lazy-subsequence-split", format!("mid={mid} len={n} None"));
                }
            }
            Some((a, b)) => {
                if mid > n {
                    return bad("lazy-subsequence-split", format!("mid={mid} len={n} Some"));
                }
                if a.len() != mid || b.len() != n - mid || a.is_empty() != (mid == 0) || b.is_empty() != (mid == n) {
                    return bad("lazy-subsequence-len", format!("mid={mid} len={n}"));
                }
                for i in 0..(mid + 1).min(6) {
                    if a.get(i) != es[..mid].get(i).copied() {
                        return bad("lazy-subsequence-get", format!("mid={mid} len={n} i={i}"));
                    }
                }
                for i in 0..(n - mid + 1).min(6) {
                    if b.get(i) != es[mid..].get(i).copied() {
                        return bad("lazy-subsequence-get", format!("mid={mid} len={n} right i={i}"));
                    }
                }
            }
        }
    }
    Ok(())
}

/// Subsequence::iter
fn check_lazy_subseq_iter(lz: &bam::Record, eg: &RecordBuf) -> V {
    let es: &[u8] = eg.sequence().as_ref();
    let ls = lz.sequence();
    let n = es.len();
    for mid in subseq_mids(n) {
        if let Some((a, b)) = ls.split_at_checked(mid) {
            if mid > n {
                continue;
            }
            let ai: Vec<u8> = a.iter().collect();
            let bi: Vec<u8> = b.iter().collect();
            if ai != es[..mid] || bi != es[mid..] {
                return bad(
                    "lazy-subsequence-iter",
                    format!("len={n} mid={mid}: left yields {} of {}, right yields {} of {}", ai.len(), mid, bi.len(), n - mid),
                );
            }
        }
    }
    Ok(())
}

fn lazy_data(lz: &bam::Record) -> Result<Vec<([u8; 2], Val)>, (String, String)> {
    let mut ld: Vec<([u8; 2], Val)> = Vec::new();
    for f in lz.data().iter() {
        match f {
            Ok((t, v)) => {
                let b: &[u8; 2] = t.as_ref();
                match Value::try_from(v) {
                    Ok(v) => ld.push((*b, val_from_noodles(&v))),
                    Err(e) => return Err(("lazy-data".into(), format!("value Err {:?}", e.kind()))),
                }
            }
            Err(e) => return Err(("lazy-data".into(), format!("Err {:?}", e.kind()))),
        }
    }
    Ok(ld)
}

/// The recorded class `lazy-data-retains-cg-after-resolve`, decided from the record itself: the
/// eager CIGAR has > 65535 operations and the lazy data view is exactly the eager data followed by
/// one field CG:B,I holding that CIGAR.
fn is_retained_cg_class(ld: &[([u8; 2], Val)], ed: &[([u8; 2], Val)], eg: &RecordBuf) -> bool {
    let ops = eg.cigar().as_ref();
    if ops.len() <= 65535 || ld.len() != ed.len() + 1 || ld[..ed.len()] != *ed {
        return false;
    }
    let want: Vec<i64> = ops.iter().map(|op| ((op.len() as i64) << 4) | code_of(op.kind()) as i64).collect();
    matches!(&ld[ed.len()], (t, Val::Arr('I', xs)) if *t == CG && *xs == want)
}

/// data fields: iter() in order and get() of every tag
fn check_lazy_data(lz: &bam::Record, eg: &RecordBuf, placeholder_outside_quantifier: bool) -> V {
    let ld = lazy_data(lz)?;
    let ed: Vec<([u8; 2], Val)> = from_record_buf(eg, 0).data;
    for (t, v) in &ed {
        match lz.data().get(t) {
            Some(Ok(lv)) => match Value::try_from(lv) {
                Ok(lv) if val_from_noodles(&lv) == *v => {}
                _ => return bad("lazy-data-get", format!("{:?}", t)),
            },
            _ => return bad("lazy-data-get", format!("{:?} missing", t)),
        }
    }
    if ld == ed {
        return Ok(());
    }
    if is_retained_cg_class(&ld, &ed, eg) {
        return bad(
            "lazy-data-retains-cg-after-resolve",
            format!("{} CIGAR ops; lazy data = eager data ({} fields) + CG:B,I", eg.cigar().as_ref().len(), ed.len()),
        );
    }
    if placeholder_outside_quantifier {
        let mut stripped = ld.clone();
        stripped.retain(|(t, _)| *t != CG);
        if stripped == ed {
            return Ok(());
        }
    }
    bad("lazy-data", format!("{} vs {} fields", ld.len(), ed.len()))
}

/// whole-record conversion through the Record trait: every field as the eager decode, the data as
/// the lazy data view
fn check_lazy_convert(header: &sam::Header, lz: &bam::Record, eg: &RecordBuf) -> V {
    match RecordBuf::try_from_alignment_record(header, lz) {
        Ok(conv) => {
            let mut c = from_record_buf(&conv, 0);
            let mut e = from_record_buf(eg, 0);
            let cd = std::mem::take(&mut c.data);
            e.data.clear();
            if c != e {
                return bad("lazy-convert", format!("RecordBuf::try_from_alignment_record differs from eager decode in {}", first_diff(&c, &e)));
            }
            if let Ok(ld) = lazy_data(lz) {
                if cd != ld {
                    return bad("lazy-convert-data", "converted data differs from the lazy data view");
                }
            }
        }
        Err(e) => return bad("lazy-convert", format!("Err {:?}", e.kind())),
    }
    Ok(())
}

/// The recorded class `rewrite-lazy-duplicates-cg`, decided from the bytes: the record has
/// `n_ops` > 65535 operations, and the re-written body is the original body followed by a second
/// copy of its trailing CG:B,I field (nothing else changed).
fn is_duplicated_cg_class(block: &[u8], b2: &[u8], n_ops: usize) -> bool {
    if n_ops <= 65535 || block.len() < 4 || b2.len() < 4 {
        return false;
    }
    let (body, body2) = (&block[4..], &b2[4..]);
    let flen = 8 + 4 * n_ops;
    if body.len() < flen || body2.len() != body.len() + flen {
        return false;
    }
    let field = &body[body.len() - flen..];
    field[..4] == *b"CGBI"
        && field[4..8] == (n_ops as u32).to_le_bytes()
        && body2[..body.len()] == *body
        && body2[body.len()..] == *field
        && b2[..4] == (body2.len() as u32).to_le_bytes()
}

/// write the lazily read record again: the bytes must be the same
fn check_rewrite(header: &sam::Header, lz: &bam::Record, block: &[u8], n_ops: usize) -> V {
    let size_class = if n_ops > 65535 { "cigar>65535" } else { "plain" };
    match write_raw(header, lz) {
        Ok(b2) if b2 == block => Ok(()),
        Ok(b2) => {
            let readable = read_raw_eager(header, &b2).map(|_| ()).map_err(|e| e.kind());
            let tag = if is_duplicated_cg_class(block, &b2, n_ops) {
                "rewrite-lazy-duplicates-cg".to_string()
            } else {
                format!("rewrite-lazy-differs-{size_class}")
            };
            bad(&tag, format!("{} vs {} bytes; re-read: {:?}", b2.len(), block.len(), readable))
        }
        Err(e) => bad(&format!("rewrite-lazy-rejected-{size_class}"), format!("Err {:?}", e.kind())),
    }
}

/// call every lazy accessor (results ignored): none may panic on a validated buffer
fn touch_lazy(lz: &bam::Record) {
    let _ = lz.name();
    let _ = lz.flags();
    let _ = lz.reference_sequence_id();
    let _ = lz.alignment_start();
    let _ = lz.mapping_quality();
    let _ = lz.mate_reference_sequence_id();
    let _ = lz.mate_alignment_start();
    let _ = lz.template_length();
    let _ = lz.cigar().iter().count();
    let _ = lz.sequence().iter().count();
    let _ = lz.sequence().get(0);
    let _ = lz.quality_scores().iter().count();
    for f in lz.data().iter() {
        if f.is_err() {
            break;
        }
    }
}

fn first_diff(a: &Spec, b: &Spec) -> &'static str {
    if a.name != b.name {
        "name"
    } else if a.flags != b.flags {
        "flags"
    } else if a.rid != b.rid {
        "rid"
    } else if a.pos != b.pos {
        "pos"
    } else if a.mapq != b.mapq {
        "mapq"
    } else if a.cigar != b.cigar {
        "cigar"
    } else if a.mrid != b.mrid {
        "mrid"
    } else if a.mpos != b.mpos {
        "mpos"
    } else if a.tlen != b.tlen {
        "tlen"
    } else if a.seq != b.seq {
        "seq"
    } else if a.qual != b.qual {
        "qual"
    } else if a.data != b.data {
        "data"
    } else {
        "none"
    }
}

fn bytes_obs(block: &[u8]) -> String {
    if block.len() * 2 <= LONG { format!("Ok:{}", hex(block)) } else { format!("OkH:{}:{}", block.len(), digest(block)) }
}

fn run_rec(c: &Case) -> Obs {
    let (mode, spec) = Spec::from_case(c);
    let header = header_with(spec.nref);
    let rb = to_record_buf(&spec);
    let must_reject = reject_reason(&spec);
    let overflow = spec.cigar.len() > 65535;
    let size_class = if overflow { "cigar>65535" } else { "plain" };

    let written = match guarded(std::panic::AssertUnwindSafe(|| write_raw(&header, &rb))) {
        Outcome::Done(r) => r,
        Outcome::Panicked(m) => {
            return Obs::fail("Panic|-", &format!("write-panic-{}", must_reject.unwrap_or("valid")), m);
        }
    };
    let block = match written {
        Err(e) => {
            let obs = format!("Err:{}|-", nv::errkind(&e));
            return match must_reject {
                Some(_) => Obs::ok(obs, true),
                None => Obs::fail(obs, &format!("rejected-valid-{size_class}"), format!("{e}")),
            };
        }
        Ok(b) => b,
    };
    if let Some(why) = must_reject {
        // a value that does not fit was accepted: show what it was turned into
        let back = read_raw_eager(&header, &block).map(|r| from_record_buf(&r, spec.nref).canon());
        return Obs::fail(
            format!("{}|-", bytes_obs(&block)),
            &format!("accepted-unrepresentable-{why}"),
            format!("read back as {:?}", back.map_err(|e| e.kind())),
        );
    }

    // block = block_size ++ record
    let body = &block[4..];
    let bs = u32::from_le_bytes(block[..4].try_into().unwrap()) as usize;
    let mut verdict: V = Ok(());
    if bs != body.len() {
        verdict = bad("block-size", format!("{bs} vs {}", body.len()));
    }

    // eager read back
    let eager = match guarded(std::panic::AssertUnwindSafe(|| read_raw_eager(&header, &block))) {
        Outcome::Done(r) => r,
        Outcome::Panicked(m) => return Obs::fail(format!("{}|Panic", bytes_obs(&block)), &format!("read-panic-{size_class}"), m),
    };
    let eager = match eager {
        Ok(r) => r,
        Err(e) => {
            return Obs::fail(
                format!("{}|Err:{}", bytes_obs(&block), nv::errkind(&e)),
                &format!("unreadable-own-output-{size_class}"),
                format!("{e}"),
            );
        }
    };
    let got = from_record_buf(&eager, spec.nref);
    let obs = format!("{}|{}", bytes_obs(&block), short_or_digest(got.canon()));
    let want = normalise(&spec);
    if verdict.is_ok() && got != want {
        let f = first_diff(&got, &want);
        verdict = bad(&format!("roundtrip-{f}-{size_class}"), format!("got {} want {}", short_or_digest(got.canon()), short_or_digest(want.canon())));
    }

    // stored bin
    if verdict.is_ok() {
        let stored = u16::from_le_bytes([body[10], body[11]]) as u64;
        let (want_bin, constrained) = expected_bin(&spec);
        if constrained && stored != want_bin {
            verdict = bad(
                if spec.pos.is_none() { "bin-unplaced" } else { "bin-reg2bin" },
                format!("stored {stored} want {want_bin}"),
            );
        }
    }

    // lazy view
    let mut fails: Vec<(String, String)> = Vec::new();
    if let Err(f) = verdict.clone() {
        fails.push(f);
    }
    match guarded(std::panic::AssertUnwindSafe(|| -> Vec<(String, String)> {
        let mut fs = Vec::new();
        let lz = match read_raw_lazy(&block) {
            Ok(r) => r,
            Err(e) => return vec![("lazy-read".into(), format!("Err {:?}", e.kind()))],
        };
        fs.extend(check_lazy(&header, &lz, &eager, false));
        if let Err(f) = check_rewrite(&header, &lz, &block, spec.cigar.len()) {
            fs.push(f);
        }
        // wave 9 (theorem c05_rewrite_eager_identity): the EAGERLY read record written again gives the
        // same block
        let size_class = if spec.cigar.len() > 65535 { "cigar>65535" } else { "plain" };
        match write_raw(&header, &eager) {
            Ok(b2) if b2 == block => {}
            Ok(b2) => fs.push((format!("rewrite-eager-differs-{size_class}"), format!("{} vs {} bytes", b2.len(), block.len()))),
            Err(e) => fs.push((format!("rewrite-eager-rejected-{size_class}"), format!("Err {:?}", e.kind()))),
        }
        fs
    })) {
        Outcome::Done(v) => fails.extend(v),
        Outcome::Panicked(m) => fails.push(("lazy-panic".into(), m)),
    }
    let verdict = select(fails.clone());
    let only_late = fails.iter().all(|(t, _)| LATE_TAGS.contains(&t.as_str()));
    let mut verdict = verdict;

    // the same through a real BGZF file with header
    if only_late && mode == "bgzf" {
        let v2 = match guarded(std::panic::AssertUnwindSafe(|| -> V {
            let mut w = bam::io::Writer::new(Vec::new());
            let e = |e: io::Error| ("bgzf-io".to_string(), format!("{e}"));
            w.write_header(&header).map_err(e)?;
            w.write_alignment_record(&header, &rb).map_err(e)?;
            w.write_alignment_record(&header, &rb).map_err(e)?;
            w.try_finish().map_err(e)?;
            let file = w.into_inner().into_inner();
            let mut rd = bam::io::Reader::new(&file[..]);
            let h2 = rd.read_header().map_err(e)?;
            if h2.reference_sequences().len() != spec.nref {
                return bad("bgzf-header", "reference count");
            }
            let mut r1 = RecordBuf::default();
            rd.read_record_buf(&h2, &mut r1).map_err(e)?;
            let mut r2 = bam::Record::default();
            rd.read_record(&mut r2).map_err(e)?;
            if from_record_buf(&r1, spec.nref) != want {
                return bad("bgzf-roundtrip", "eager");
            }
            select(check_lazy(&h2, &r2, &r1, false).into_iter().filter(|(t, _)| !LATE_TAGS.contains(&t.as_str())).collect())?;
            let mut r3 = RecordBuf::default();
            if rd.read_record_buf(&h2, &mut r3).map_err(e)? != 0 {
                return bad("bgzf-extra-record", "");
            }
            Ok(())
        })) {
            Outcome::Done(v) => v,
            Outcome::Panicked(m) => bad("bgzf-panic", m),
        };
        if v2.is_err() {
            verdict = v2;
        }
    }

    let nontrivial = spec.name.is_some() || !spec.cigar.is_empty() || !spec.seq.is_empty() || !spec.data.is_empty();
    Obs::ok(obs, nontrivial).with_verdict(verdict)
}

// -------------------------------------------------------------------------------------------
// `dec`: arbitrary record bodies

fn run_dec(c: &Case) -> Obs {
    let body = c.b(0);
    let mut block = (body.len() as u32).to_le_bytes().to_vec();
    block.extend_from_slice(&body);
    let header = sam::Header::default();
    let eager = match guarded(std::panic::AssertUnwindSafe(|| read_raw_eager(&header, &block))) {
        Outcome::Done(r) => r,
        Outcome::Panicked(m) => return Obs::fail("Panic", "decode-panic", m),
    };
    let lazy = match guarded(std::panic::AssertUnwindSafe(|| read_raw_lazy(&block))) {
        Outcome::Done(r) => r,
        Outcome::Panicked(m) => return Obs::fail("Panic", "lazy-read-panic", m),
    };
    match eager {
        Err(e) => {
            let obs = format!("Err:{}", nv::errkind(&e));
            // validate() is shared: the lazy read fails exactly when the layout check fails
            let v: V = match (&lazy, e.kind()) {
                (Ok(_), io::ErrorKind::UnexpectedEof) => bad("lazy-accepts-truncated", ""),
                (Err(_), io::ErrorKind::InvalidData) => bad("lazy-rejects-wellformed-layout", ""),
                _ => Ok(()),
            };
            // lazy accessors must not panic on a validated buffer
            let v = v.and_then(|_| match &lazy {
                Ok(lz) => match guarded(std::panic::AssertUnwindSafe(|| touch_lazy(lz))) {
                    Outcome::Done(_) => Ok(()),
                    Outcome::Panicked(m) => bad("lazy-accessor-panic", m),
                },
                Err(_) => Ok(()),
            });
            Obs::ok(obs, false).with_verdict(v)
        }
        Ok(eg) => {
            let got = from_record_buf(&eg, 0);
            let obs = short_or_digest(got.canon());
            let v: V = match &lazy {
                Err(e) => bad("lazy-read", format!("Err {:?}", e.kind())),
                Ok(lz) => match guarded(std::panic::AssertUnwindSafe(|| {
                    // hand-made placeholder kSmN + CG array of <= 65535 ops: outside the quantifier
                    let n_ops = u16::from_le_bytes([body[12], body[13]]);
                    let small_placeholder = n_ops == 2
                        && eg.cigar().as_ref().len() <= 65535
                        && lz.data().get(&Tag::CIGAR).is_some()
                        && eg.data().get(&Tag::CIGAR).is_none();
                    select(check_lazy(&header, lz, &eg, small_placeholder))
                })) {
                    Outcome::Done(v) => v,
                    Outcome::Panicked(m) => bad("lazy-accessor-panic", m),
                },
            };
            Obs::ok(obs, true).with_verdict(v)
        }
    }
}

/// `rwz nref bodyhex`: the DIRECT re-write of a lazy record (wave 9; model NV.Bam.LazyRewrite): the body
/// is framed, read with Reader::read_record and, when the reader accepts it, written again with
/// Writer::write_alignment_record(header with nref references, &bam::Record).  obs = `nv` (reader
/// refused), the written block, `Err:<kind>` or `P`
fn run_rwz(c: &Case) -> Obs {
    let nref: usize = c.args[0].parse().unwrap();
    let body = c.b(1);
    let mut block = (body.len() as u32).to_le_bytes().to_vec();
    block.extend_from_slice(&body);
    let lz = match guarded(std::panic::AssertUnwindSafe(|| read_raw_lazy(&block))) {
        Outcome::Done(Ok(r)) => r,
        Outcome::Done(Err(_)) => return Obs::ok("nv", false),
        Outcome::Panicked(m) => return Obs::fail("Panic", "lazy-read-panic", m),
    };
    let header = header_with(nref);
    match guarded(std::panic::AssertUnwindSafe(|| write_raw(&header, &lz))) {
        Outcome::Done(Ok(b2)) => Obs::ok(bytes_obs(&b2), true),
        Outcome::Done(Err(e)) => Obs::ok(format!("Err:{}", nv::errkind(&e)), false),
        Outcome::Panicked(m) => Obs::ok("P", false).with_verdict(bad("rewrite-lazy-panic", m)),
    }
}

/// `hb`: a hostile whole block given to Reader::read_record_buf and Reader::read_record; obs = the
/// decoded record or `Err:<kind>` (model NV.Bam.Decode.decode); oracle: no panic, and the lazy read
/// fails exactly when the eager one fails with UnexpectedEof (shared framing + validate())
fn run_hb(c: &Case) -> Obs {
    let block = c.b(0);
    let header = sam::Header::default();
    let eager = match guarded(std::panic::AssertUnwindSafe(|| read_raw_eager(&header, &block))) {
        Outcome::Done(r) => r,
        Outcome::Panicked(m) => return Obs::fail("Panic", "hostile-block-decode-panic", m),
    };
    let lazy = match guarded(std::panic::AssertUnwindSafe(|| read_raw_lazy(&block))) {
        Outcome::Done(r) => r,
        Outcome::Panicked(m) => return Obs::fail("Panic", "hostile-block-lazy-read-panic", m),
    };
    let touched: V = match &lazy {
        Ok(lz) => match guarded(std::panic::AssertUnwindSafe(|| touch_lazy(lz))) {
            Outcome::Done(_) => Ok(()),
            Outcome::Panicked(m) => bad("hostile-block-lazy-accessor-panic", m),
        },
        Err(_) => Ok(()),
    };
    match eager {
        Err(e) => {
            let v: V = match (&lazy, e.kind()) {
                (Ok(_), io::ErrorKind::UnexpectedEof) => bad("hostile-block-lazy-accepts-truncated", ""),
                (Err(_), io::ErrorKind::InvalidData) => bad("hostile-block-lazy-rejects-wellformed-layout", ""),
                _ => Ok(()),
            };
            Obs::ok(format!("Err:{}", nv::errkind(&e)), lazy.is_ok()).with_verdict(v.and(touched))
        }
        Ok(eg) => {
            let v: V = if lazy.is_err() { bad("hostile-block-lazy-read", "eager read succeeded") } else { Ok(()) };
            Obs::ok(short_or_digest(from_record_buf(&eg, 0).canon()), true).with_verdict(v.and(touched))
        }
    }
}

// -------------------------------------------------------------------------------------------
// `tab`: exhaustive finite tables through the public API

fn run_tab(c: &Case) -> Obs {
    let header = sam::Header::default();
    match c.args[0].as_str() {
        "bases" => {
            // every byte value as a base, at an even and at an odd (last) position
            let mut out = String::new();
            for b in 0..=255u8 {
                let mut s = Spec::default_unmapped();
                s.seq = vec![b'A', b, b];
                let block = write_raw(&header, &to_record_buf(&s)).expect("write");
                let r = read_raw_eager(&header, &block).expect("read");
                let got = r.sequence().as_ref().to_vec();
                if got != vec![b'A', norm_base(b), norm_base(b)] {
                    return Obs::fail("-", "base-table", format!("byte {b} -> {:?}", got));
                }
                out.push_str(&hex(&block[block.len() - 5..block.len() - 3]));
            }
            Obs::ok(short_or_digest(out), true)
        }
        "nibbles" => {
            // every packed byte decoded eagerly and lazily
            let mut out = Vec::new();
            for b in 0..=255u8 {
                let mut s = Spec::default_unmapped();
                s.seq = vec![b'A', b'A'];
                let mut block = write_raw(&header, &to_record_buf(&s)).expect("write");
                let n = block.len();
                block[n - 3] = b; // the packed base byte (2 qual bytes follow)
                let r = read_raw_eager(&header, &block).expect("read");
                let lz = read_raw_lazy(&block).expect("lazy");
                let e = r.sequence().as_ref().to_vec();
                let l: Vec<u8> = lz.sequence().iter().collect();
                let want = vec![BASES[(b >> 4) as usize], BASES[(b & 15) as usize]];
                if e != want || l != want {
                    return Obs::fail("-", "nibble-table", format!("byte {b}"));
                }
                out.extend_from_slice(&e);
            }
            Obs::ok(short_or_digest(hex(&out)), true)
        }
        _ => {
            // all 16 kind codes x a few lengths through decode; 9 kinds through encode
            let mut out = String::new();
            for code in 0..16u32 {
                for len in [0u32, 1, (1 << 28) - 1] {
                    let mut s = Spec::default_unmapped();
                    s.cigar = vec![(3, 1)];
                    let mut block = write_raw(&header, &to_record_buf(&s)).expect("write");
                    let n = block.len();
                    block[n - 4..].copy_from_slice(&((len << 4) | code).to_le_bytes());
                    match read_raw_eager(&header, &block) {
                        Ok(r) => {
                            let ops = r.cigar().as_ref();
                            if code > 8 || ops.len() != 1 || code_of(ops[0].kind()) as u32 != code || ops[0].len() != len as usize {
                                return Obs::fail("-", "cigar-kind-table", format!("code {code} len {len}"));
                            }
                            out.push_str(&format!("{}:{};", ops[0].len(), code_of(ops[0].kind())));
                        }
                        Err(e) => {
                            if code <= 8 {
                                return Obs::fail("-", "cigar-kind-table", format!("code {code} rejected"));
                            }
                            out.push_str(&format!("Err:{};", nv::errkind(&e)));
                        }
                    }
                }
            }
            Obs::ok(short_or_digest(out), true)
        }
    }
}

impl Spec {
    fn default_unmapped() -> Spec {
        Spec {
            nref: 0,
            name: None,
            flags: 4,
            rid: None,
            pos: None,
            mapq: None,
            cigar: vec![],
            mrid: None,
            mpos: None,
            tlen: 0,
            seq: vec![],
            qual: vec![],
            data: vec![],
        }
    }
}

/// `rw <rec args>`: a record written, read lazily and written again must give the same bytes
fn run_rw(c: &Case) -> Obs {
    let (_, spec) = Spec::from_case(c);
    let header = header_with(spec.nref);
    let Ok(block) = write_raw(&header, &to_record_buf(&spec)) else { return Obs::ok("-", false) };
    let v = match guarded(std::panic::AssertUnwindSafe(|| -> V {
        let lz = read_raw_lazy(&block).map_err(|e| ("lazy-read".to_string(), format!("{e}")))?;
        check_rewrite(&header, &lz, &block, spec.cigar.len())
    })) {
        Outcome::Done(v) => v,
        Outcome::Panicked(m) => bad("rewrite-lazy-panic", m),
    };
    Obs::ok("-", true).with_verdict(v)
}

/// `sub seqhex`: Sequence::split_at_checked / Subsequence accessors of the lazy record
fn run_sub(c: &Case) -> Obs {
    let header = sam::Header::default();
    let mut s = Spec::default_unmapped();
    s.seq = c.b(0);
    let block = write_raw(&header, &to_record_buf(&s)).expect("write");
    let eg = read_raw_eager(&header, &block).expect("read");
    let mut obs = String::from("-");
    let v = match guarded(std::panic::AssertUnwindSafe(|| -> (String, V) {
        let lz = match read_raw_lazy(&block) {
            Ok(l) => l,
            Err(e) => return ("-".into(), bad("lazy-read", format!("{e}"))),
        };
        // observation (modelled, NV.Bam.Subseq): for every probed mid and for len+1, len+2: None, or
        // what both halves iterate, their len()/is_empty() and get(i) at probe indices, each call
        // under its own panic guard
        let ls = lz.sequence();
        let n = ls.len();
        let mut parts = Vec::new();
        let mut mids = subseq_mids(n);
        mids.retain(|m| *m <= n);
        mids.push(n + 1);
        mids.push(n + 2);
        fn shape<S: sam::alignment::record::Sequence>(x: &S, m: usize) -> String {
            let probes: Vec<usize> = [0i64, 1, m as i64 - 1, m as i64, m as i64 + 1].into_iter().filter(|i| *i >= 0).map(|i| i as usize).collect();
            let gets: Vec<String> = probes.iter().map(|i| pg(|| x.get(*i).map(|b| b.to_string()).unwrap_or_else(|| "-".into()))).collect();
            format!("{}:{}:{}", pg(|| x.len()), pg(|| x.is_empty() as u8), gets.join("."))
        }
        fn pg<T: ToString>(f: impl FnOnce() -> T) -> String {
            match guarded(std::panic::AssertUnwindSafe(f)) {
                Outcome::Done(v) => v.to_string(),
                Outcome::Panicked(_) => "P".to_string(),
            }
        }
        for mid in mids {
            if let Some((a, b)) = ls.split_at_checked(mid) {
                parts.push(format!(
                    "{}/{}/{}/{}",
                    hex(&a.iter().collect::<Vec<u8>>()),
                    hex(&b.iter().collect::<Vec<u8>>()),
                    shape(&a, mid),
                    shape(&b, n - mid)
                ));
            } else {
                parts.push("None".into());
            }
        }
        let o = short_or_digest(parts.join(","));
        let v = check_lazy_subseq_shape(&lz, &eg).and_then(|_| check_lazy_subseq_iter(&lz, &eg));
        (o, v)
    })) {
        Outcome::Done((o, v)) => {
            obs = o;
            v
        }
        Outcome::Panicked(m) => bad("lazy-subsequence-panic", m),
    };
    Obs::ok(obs, s.seq.len() >= 2).with_verdict(v)
}


// -------------------------------------------------------------------------------------------
// `lz`: every lazy accessor of bam::RecordRef::new(body) on an arbitrary body, each under its own
// panic guard -- the observation of the Coq model NV.Bam.Lazy.lazy_view_of (panics included)

/// the class `lazy-cigar-cg-array-not-u32-unreachable` (repaired in /repo 3808bd7; a recurrence is a
/// NEW failure and keeps this specific tag), decided from the bytes alone by an independent walk: the stored CIGAR is the placeholder kSmN (k = l_seq) and the first CG field of
/// type B in the data block has a raw element length that is not a multiple of 4.
fn cg_array_not_whole_words(body: &[u8]) -> bool {
    if body.len() < 32 {
        return false;
    }
    let lname = body[8] as usize;
    let nops = u16::from_le_bytes([body[12], body[13]]) as usize;
    let lseq = u32::from_le_bytes([body[16], body[17], body[18], body[19]]) as usize;
    let c0 = 32 + lname;
    let d0 = c0 + 4 * nops + lseq.div_ceil(2) + lseq;
    if nops != 2 || body.len() < d0 {
        return false;
    }
    let w0 = u32::from_le_bytes(body[c0..c0 + 4].try_into().unwrap());
    let w1 = u32::from_le_bytes(body[c0 + 4..c0 + 8].try_into().unwrap());
    if w0 & 15 != 4 || (w0 >> 4) as usize != lseq || w1 & 15 != 3 {
        return false;
    }
    let mut d = &body[d0..];
    while d.len() >= 3 {
        let (tag, ty) = ([d[0], d[1]], d[2]);
        d = &d[3..];
        let width = |t: u8| match t {
            b'A' | b'c' | b'C' => Some(1usize),
            b's' | b'S' => Some(2),
            b'i' | b'I' | b'f' => Some(4),
            _ => None,
        };
        match ty {
            b'B' => {
                if d.len() < 5 {
                    return false;
                }
                let Some(w) = width(d[0]).filter(|_| d[0] != b'A') else { return false };
                let n = u32::from_le_bytes([d[1], d[2], d[3], d[4]]) as usize;
                let Some(len) = n.checked_mul(w).filter(|l| *l <= d.len() - 5) else { return false };
                if tag == CG {
                    return len % 4 != 0;
                }
                d = &d[5 + len..];
            }
            b'Z' | b'H' => match d.iter().position(|b| *b == 0) {
                Some(i) => d = &d[i + 1..],
                None => return false,
            },
            t => match width(t) {
                Some(w) if d.len() >= w => d = &d[w..],
                _ => return false,
            },
        }
    }
    false
}

fn run_lz(c: &Case) -> Obs {
    let body = c.b(0);
    if bam::RecordRef::new(&body).is_none() {
        return Obs::ok("short", false);
    }
    fn g<T>(f: impl FnOnce() -> T) -> Option<T> {
        match guarded(std::panic::AssertUnwindSafe(f)) {
            Outcome::Done(v) => Some(v),
            Outcome::Panicked(_) => None,
        }
    }
    let rr = || bam::RecordRef::new(&body).unwrap();
    let p = |o: Option<String>| o.unwrap_or_else(|| "P".to_string());
    let id = |x: Option<io::Result<usize>>| match x {
        None => "-".to_string(),
        Some(Ok(n)) => n.to_string(),
        Some(Err(e)) => format!("Err:{}", nv::errkind(&e)),
    };
    let ps = |x: Option<io::Result<Position>>| match x {
        None => "-".to_string(),
        Some(Ok(n)) => usize::from(n).to_string(),
        Some(Err(e)) => format!("Err:{}", nv::errkind(&e)),
    };
    let fields: Vec<(&str, Option<String>)> = vec![
        ("name", g(|| rr().name().map(|n| hex(n)).unwrap_or_else(|| "-".into()))),
        ("flags", g(|| rr().flags().bits().to_string())),
        ("rid", g(|| id(rr().reference_sequence_id()))),
        ("pos", g(|| ps(rr().alignment_start()))),
        ("mapq", g(|| rr().mapping_quality().map(|q| u8::from(q).to_string()).unwrap_or_else(|| "-".into()))),
        ("mrid", g(|| id(rr().mate_reference_sequence_id()))),
        ("mpos", g(|| ps(rr().mate_alignment_start()))),
        ("tlen", g(|| rr().template_length().to_string())),
        (
            "cigar",
            g(|| match rr().cigar().iter().collect::<io::Result<Vec<Op>>>() {
                Ok(ops) => fmt_cigar_plain(&ops.iter().map(|o| (code_of(o.kind()), o.len())).collect::<Vec<_>>()),
                Err(e) => format!("Err:{}", nv::errkind(&e)),
            }),
        ),
        ("seq", g(|| hex(&rr().sequence().iter().collect::<Vec<u8>>()))),
        ("qual", g(|| hex(rr().quality_scores().as_bytes()))),
        ("data", g(|| hex(rr().data().as_bytes()))),
        (
            "seq-get",
            g(|| {
                let sq = rr().sequence();
                let n = sq.len() as i64;
                let probes: Vec<i64> = [0, 1, 2, n - 1, n, n + 1].into_iter().filter(|i| *i >= 0).collect();
                let gets: Vec<String> = probes
                    .iter()
                    .map(|i| {
                        let i = *i as usize;
                        match guarded(std::panic::AssertUnwindSafe(|| rr().sequence().get(i))) {
                            Outcome::Done(Some(b)) => b.to_string(),
                            Outcome::Done(None) => "-".to_string(),
                            Outcome::Panicked(_) => "P".to_string(),
                        }
                    })
                    .collect();
                format!("{n}:{}", gets.join(","))
            }),
        ),
        ("qual-iter", g(|| hex(&rr().quality_scores().iter().collect::<Vec<u8>>()))),
        (
            "data-iter",
            g(|| {
                // Data::iter: the fields before the first error; Data::get of every tag seen, CG, ZZ
                let data = rr().data();
                let mut fs: Vec<([u8; 2], Val)> = Vec::new();
                // the io::ErrorKind of the first error Data::iter yields (wave 9: modelled, NV.Bam.LazyErr)
                let mut err: Option<String> = None;
                for f in data.iter() {
                    match f {
                        Ok((t, v)) => {
                            let b: &[u8; 2] = t.as_ref();
                            match Value::try_from(v) {
                                Ok(v) => fs.push((*b, val_from_noodles(&v))),
                                Err(e) => {
                                    err = Some(format!("conv-{}", nv::errkind(&e)));
                                    break;
                                }
                            }
                        }
                        Err(e) => {
                            err = Some(nv::errkind(&e));
                            break;
                        }
                    }
                }
                let mut tags: Vec<[u8; 2]> = fs.iter().map(|(t, _)| *t).collect();
                tags.push(CG);
                tags.push(*b"ZZ");
                let gets: Vec<String> = tags
                    .iter()
                    .map(|t| match data.get(t) {
                        None => "-".to_string(),
                        Some(Err(e)) => format!("Err:{}", nv::errkind(&e)),
                        Some(Ok(v)) => match Value::try_from(v) {
                            Ok(v) => fmt_val(&val_from_noodles(&v)),
                            Err(e) => format!("Err:conv-{}", nv::errkind(&e)),
                        },
                    })
                    .collect();
                format!("{}{} {}", fmt_data(&fs), err.map(|k| format!("!Err:{k}")).unwrap_or_default(), gets.join(","))
            }),
        ),
        (
            "cigar-len",
            g(|| {
                let c = rr().cigar();
                format!("{}:{}", c.len(), c.is_empty() as u8)
            }),
        ),
        (
            // RecordBuf::try_from_alignment_record of the lazy record, with the kind of its error
            "convert",
            g(|| match RecordBuf::try_from_alignment_record(&sam::Header::default(), &rr()) {
                Ok(rb) => short_or_digest(from_record_buf(&rb, 0).canon()),
                Err(e) => format!("Err:{}", nv::errkind(&e)),
            }),
        ),
    ];
    let panicked: Vec<&str> = fields.iter().filter(|(_, v)| v.is_none()).map(|(n, _)| *n).collect();
    let obs = short_or_digest(fields.iter().map(|(_, v)| p(v.clone())).collect::<Vec<_>>().join(" "));
    // the reader's validate(): bam::io::Reader::read_record accepts the block
    let mut block = (body.len() as u32).to_le_bytes().to_vec();
    block.extend_from_slice(&body);
    let validated = matches!(guarded(std::panic::AssertUnwindSafe(|| read_raw_lazy(&block))), Outcome::Done(Ok(_)));
    let v: V = if validated && !panicked.is_empty() {
        if panicked == ["cigar"] && cg_array_not_whole_words(&body) {
            bad("lazy-cigar-cg-array-not-u32-unreachable", "placeholder kSmN + CG:B whose raw bytes are not whole 32-bit words: Cigar::iter hits unreachable!()")
        } else {
            bad(&format!("lazy-accessor-panic-{}", panicked.join("+")), "on a body accepted by validate()")
        }
    } else {
        Ok(())
    };
    Obs::ok(obs, validated).with_verdict(v)
}

// -------------------------------------------------------------------------------------------
// `file` / `fread`: whole uncompressed BAM streams (magic + header block + framed records) and
// the same through a level-0 (stored blocks) BGZF writer.
//   file  mode hdrtext nrec (name flags rid pos mapq cigar mrid mpos tlen seq qual data)*nrec
//         mode raw   = bam::io::Writer::from(Vec) / bam::io::Reader::from(&[u8])
//         mode bgzf0 = the same stream through bgzf::io::Writer at CompressionLevel::NONE and back
//                      through bgzf::io::Reader
//   fread streamhex   an arbitrary uncompressed stream (written files cut, extended, mutated, with a
//                     zero block_size inserted) given to read_header + read_record_buf* and to
//                     read_header + read_record*
// obs (modelled, NV.Bam.File): `W:<stream bytes|Err:kind>|H:<header text re-serialised|Err:kind>|
// R:<n>:<records>|E:<Eof|Err:kind>|L:<block sizes of the lazy reader>:<Eof|Err:kind>`
// (+ `|Z:<bgzf file bytes>|U:<stream the bgzf reader returns>` in mode bgzf0)

fn specs_of_case(c: &Case, from: usize, nref: usize) -> Vec<Spec> {
    let n = c.u(from) as usize;
    (0..n)
        .map(|i| {
            let mut args = vec!["raw".to_string(), nref.to_string()];
            args.extend_from_slice(&c.args[from + 1 + 12 * i..from + 1 + 12 * (i + 1)]);
            Spec::from_case(&Case::new("0", "rec", args)).1
        })
        .collect()
}

fn write_stream<W: io::Write>(w: &mut bam::io::Writer<W>, header: &sam::Header, recs: &[RecordBuf]) -> Result<(), (String, io::Error)> {
    w.write_header(header).map_err(|e| ("hdr".to_string(), e))?;
    for (i, r) in recs.iter().enumerate() {
        w.write_alignment_record(header, r).map_err(|e| (i.to_string(), e))?;
    }
    Ok(())
}

struct ReadBack {
    header: Result<sam::Header, io::Error>,
    recs: Vec<RecordBuf>,
    end: Option<io::Error>,
}

fn read_eager<R: io::Read>(rd: &mut bam::io::Reader<R>) -> ReadBack {
    let header = match rd.read_header() {
        Ok(h) => h,
        Err(e) => return ReadBack { header: Err(e), recs: vec![], end: None },
    };
    let mut recs = Vec::new();
    let end = loop {
        let mut r = RecordBuf::default();
        match rd.read_record_buf(&header, &mut r) {
            Ok(0) => break None,
            Ok(_) => recs.push(r),
            Err(e) => break Some(e),
        }
    };
    ReadBack { header: Ok(header), recs, end }
}

/// the same iteration through ONE reused RecordBuf (what callers of read_record_buf do), and through
/// Reader::record_bufs() (which reuses its own buffer and clones)
fn read_reused<R: io::Read>(rd: &mut bam::io::Reader<R>) -> Option<(Vec<RecordBuf>, Option<io::Error>)> {
    let header = rd.read_header().ok()?;
    let mut recs = Vec::new();
    let mut r = RecordBuf::default();
    let end = loop {
        match rd.read_record_buf(&header, &mut r) {
            Ok(0) => break None,
            Ok(_) => recs.push(r.clone()),
            Err(e) => break Some(e),
        }
    };
    Some((recs, end))
}

fn read_iter<R: io::Read>(rd: &mut bam::io::Reader<R>) -> Option<(Vec<RecordBuf>, Option<io::Error>)> {
    let header = rd.read_header().ok()?;
    let mut recs = Vec::new();
    let mut end = None;
    for r in rd.record_bufs(&header) {
        match r {
            Ok(r) => recs.push(r),
            Err(e) => {
                end = Some(e);
                break;
            }
        }
    }
    Some((recs, end))
}

/// reading record i into a reused buffer == decoding it into a fresh one (same records, same end)
fn check_reuse(eg: &ReadBack, other: &Option<(Vec<RecordBuf>, Option<io::Error>)>, how: &str) -> V {
    let (Ok(_), Some((recs, end))) = (&eg.header, other) else { return Ok(()) };
    let n = recs.len().min(eg.recs.len());
    // compared through the harness' own representation (floats as bit patterns: NaN == NaN)
    if let Some(i) = (0..n).find(|i| from_record_buf(&recs[*i], 0) != from_record_buf(&eg.recs[*i], 0)) {
        let a = from_record_buf(&recs[i], 0);
        let b = from_record_buf(&eg.recs[i], 0);
        return bad(
            &format!("{how}-recordbuf-keeps-previous-{}", first_diff(&a, &b)),
            format!("record {i} read into a reused buffer differs from the same record decoded into a fresh one"),
        );
    }
    if recs.len() != eg.recs.len() || end.as_ref().map(|e| e.kind()) != eg.end.as_ref().map(|e| e.kind()) {
        return bad(&format!("{how}-recordbuf-iteration-differs"), format!("{} vs {} records", recs.len(), eg.recs.len()));
    }
    Ok(())
}

/// the lazy reader: block sizes returned by read_record, the records, and how it ended
fn read_lazy<R: io::Read>(rd: &mut bam::io::Reader<R>) -> Option<(Vec<usize>, Vec<bam::Record>, Option<io::Error>)> {
    rd.read_header().ok()?;
    let mut sizes = Vec::new();
    let mut recs = Vec::new();
    let end = loop {
        let mut r = bam::Record::default();
        match rd.read_record(&mut r) {
            Ok(0) => break None,
            Ok(n) => {
                sizes.push(n);
                recs.push(r);
            }
            Err(e) => break Some(e),
        }
    };
    Some((sizes, recs, end))
}

fn header_text(h: &sam::Header) -> Vec<u8> {
    let mut w = sam::io::Writer::new(Vec::new());
    w.write_header(h).expect("header text");
    w.into_inner()
}

fn end_obs(e: &Option<io::Error>) -> String {
    match e {
        None => "Eof".into(),
        Some(e) => format!("Err:{}", nv::errkind(e)),
    }
}

/// the read-back part of the observation for a stream behind `mk` (two fresh readers)
fn read_obs<R: io::Read>(mut mk: impl FnMut() -> bam::io::Reader<R>) -> (String, ReadBack, Option<(Vec<usize>, Vec<bam::Record>, Option<io::Error>)>, V) {
    let eg = read_eager(&mut mk());
    let lz = read_lazy(&mut mk());
    let reused = read_reused(&mut mk());
    let iter = read_iter(&mut mk());
    let reuse_verdict = check_reuse(&eg, &reused, "reused").and_then(|_| check_reuse(&eg, &iter, "record-bufs"));
    let obs = match &eg.header {
        Err(e) => format!("H:Err:{}", nv::errkind(e)),
        Ok(h) => {
            let canon: Vec<String> = eg.recs.iter().map(|r| short_or_digest(from_record_buf(r, 0).canon())).collect();
            let (sizes, lend) = match &lz {
                Some((s, _, e)) => (s.iter().map(|n| n.to_string()).collect::<Vec<_>>().join(","), end_obs(e)),
                None => ("-".into(), "-".into()),
            };
            let (bcanon, bend) = match &reused {
                Some((rs, e)) => (
                    short_or_digest(rs.iter().map(|r| short_or_digest(from_record_buf(r, 0).canon())).collect::<Vec<_>>().join(";")),
                    end_obs(e),
                ),
                None => ("-".into(), "-".into()),
            };
            format!(
                "H:{}|R:{}:{}|E:{}|L:{}:{}|B:{}:{}",
                short_or_digest(hex(&header_text(h))),
                eg.recs.len(),
                short_or_digest(canon.join(";")),
                end_obs(&eg.end),
                short_or_digest(sizes),
                lend,
                bcanon,
                bend
            )
        }
    };
    (obs, eg, lz, reuse_verdict)
}

fn run_file(c: &Case) -> Obs {
    let mode = c.args[0].clone();
    let text = c.b(1);
    let Ok(header) = String::from_utf8_lossy(&text).parse::<sam::Header>() else {
        return Obs::ok("-", false);
    };
    let nref = header.reference_sequences().len();
    let specs = specs_of_case(c, 2, nref);
    let recs: Vec<RecordBuf> = specs.iter().map(to_record_buf).collect();
    let first_reject = specs.iter().position(|s| reject_reason(s).is_some());

    let written = match guarded(std::panic::AssertUnwindSafe(|| {
        let mut w = bam::io::Writer::from(Vec::new());
        write_stream(&mut w, &header, &recs).map(|_| w.into_inner())
    })) {
        Outcome::Done(r) => r,
        Outcome::Panicked(m) => return Obs::fail("Panic", "file-write-panic", m),
    };
    let stream = match written {
        Err((at, e)) => {
            let obs = format!("W:Err:{}", nv::errkind(&e));
            return match first_reject {
                Some(i) if at == i.to_string() => Obs::ok(obs, true),
                Some(i) => Obs::fail(obs, "file-rejected-at-other-record", format!("failed at {at}, first unrepresentable record is {i}")),
                None => Obs::fail(obs, "file-rejected-valid", format!("at {at}: {e}")),
            };
        }
        Ok(b) => b,
    };
    if let Some(i) = first_reject {
        return Obs::fail(format!("W:{}", bytes_obs(&stream)), "file-accepted-unrepresentable", format!("record {i}: {:?}", reject_reason(&specs[i])));
    }

    let (robs, eg, lz, reuse_v) = match guarded(std::panic::AssertUnwindSafe(|| read_obs(|| bam::io::Reader::from(&stream[..])))) {
        Outcome::Done(r) => r,
        Outcome::Panicked(m) => return Obs::fail(format!("W:{}|Panic", bytes_obs(&stream)), "file-read-panic", m),
    };
    let mut obs = format!("W:{}|{}", bytes_obs(&stream), robs);

    // the property on the implementation: header, records in order, clean EOF; lazy == eager
    let want: Vec<Spec> = specs.iter().map(|s| { let mut n = normalise(s); n.nref = 0; n }).collect();
    let check = |eg: &ReadBack, lz: &Option<(Vec<usize>, Vec<bam::Record>, Option<io::Error>)>, pre: &str| -> V {
        let h2 = match &eg.header {
            Ok(h) => h,
            Err(e) => return bad(&format!("{pre}file-header-unreadable"), format!("{e}")),
        };
        if *h2 != header {
            return bad(&format!("{pre}file-header-differs"), "");
        }
        if let Some(e) = &eg.end {
            return bad(&format!("{pre}file-record-unreadable"), format!("after {} of {} records: {e}", eg.recs.len(), want.len()));
        }
        let got: Vec<Spec> = eg.recs.iter().map(|r| from_record_buf(r, 0)).collect();
        if got.len() != want.len() {
            return bad(&format!("{pre}file-record-count"), format!("{} vs {}", got.len(), want.len()));
        }
        if let Some(i) = (0..got.len()).find(|i| got[*i] != want[*i]) {
            return bad(&format!("{pre}file-roundtrip-{}", first_diff(&got[i], &want[i])), format!("record {i}"));
        }
        match lz {
            Some((sizes, lrecs, None)) if sizes.len() == want.len() => {
                let mut fails = Vec::new();
                for (l, e) in lrecs.iter().zip(eg.recs.iter()) {
                    fails.extend(check_lazy(h2, l, e, false));
                }
                select(fails.into_iter().filter(|(t, _)| !LATE_TAGS.contains(&t.as_str())).collect())
            }
            _ => bad(&format!("{pre}file-lazy-reader"), "count or end differs"),
        }
    };
    let mut verdict = check(&eg, &lz, "").and(reuse_v);

    if mode == "bgzf0" {
        let z = guarded(std::panic::AssertUnwindSafe(|| -> io::Result<(Vec<u8>, Vec<u8>)> {
            use noodles_bgzf as bgzf;
            let inner = bgzf::io::writer::Builder::default()
                .set_compression_level(bgzf::io::writer::CompressionLevel::NONE)
                .build_from_writer(Vec::new());
            let mut w = bam::io::Writer::from(inner);
            write_stream(&mut w, &header, &recs).map_err(|(_, e)| e)?;
            let file = w.into_inner().finish()?;
            let mut un = Vec::new();
            io::Read::read_to_end(&mut bgzf::io::Reader::new(&file[..]), &mut un)?;
            Ok((file, un))
        }));
        match z {
            Outcome::Done(Ok((file, un))) => {
                obs.push_str(&format!("|Z:{}|U:{}", bytes_obs(&file), bytes_obs(&un)));
                if verdict.is_ok() {
                    if un != stream {
                        verdict = bad("bgzf0-stream-differs", format!("{} vs {} bytes", un.len(), stream.len()));
                    } else {
                        match guarded(std::panic::AssertUnwindSafe(|| read_obs(|| bam::io::Reader::new(&file[..])))) {
                            Outcome::Done((_, eg2, lz2, rv2)) => verdict = check(&eg2, &lz2, "bgzf0-").and(rv2),
                            Outcome::Panicked(m) => verdict = bad("bgzf0-file-read-panic", m),
                        }
                    }
                }
            }
            Outcome::Done(Err(e)) => {
                obs.push_str(&format!("|Z:Err:{}", nv::errkind(&e)));
                if verdict.is_ok() {
                    verdict = bad("bgzf0-io", format!("{e}"));
                }
            }
            Outcome::Panicked(m) => return Obs::fail(format!("{obs}|Z:Panic"), "bgzf0-panic", m),
        }
    }
    Obs::ok(obs, !specs.is_empty()).with_verdict(verdict)
}

fn run_fread(c: &Case) -> Obs {
    let stream = c.b(0);
    match guarded(std::panic::AssertUnwindSafe(|| read_obs(|| bam::io::Reader::from(&stream[..])))) {
        Outcome::Done((obs, eg, lz, reuse_v)) => {
            // lazy and eager readers share the framing: same number of records unless the eager
            // decoder rejected one, and both stop the same way otherwise
            let v: V = match (&eg.header, &lz) {
                (Ok(_), Some((sizes, _, lend))) => {
                    let decode_err = matches!(&eg.end, Some(e) if e.kind() == io::ErrorKind::InvalidData);
                    if !decode_err && (sizes.len() != eg.recs.len() || lend.as_ref().map(|e| e.kind()) != eg.end.as_ref().map(|e| e.kind())) {
                        bad("fread-lazy-eager-framing-differs", format!("{} vs {} records", sizes.len(), eg.recs.len()))
                    } else {
                        Ok(())
                    }
                }
                _ => Ok(()),
            };
            let nontrivial = eg.header.is_ok() && !eg.recs.is_empty();
            Obs::ok(obs, nontrivial).with_verdict(v.and(reuse_v))
        }
        Outcome::Panicked(m) => Obs::fail("Panic", "fread-panic", m),
    }
}

fn run(c: &Case) -> Obs {
    match c.kind.as_str() {
        "file" => run_file(c),
        "fread" => run_fread(c),
        "lz" => run_lz(c),
        "rec" => run_rec(c),
        "dec" => run_dec(c),
        "hb" => run_hb(c),
        "rwz" => run_rwz(c),
        "tab" => run_tab(c),
        "sub" => run_sub(c),
        "sqi" => run_sqi(c),
        "rw" => run_rw(c),
        _ => Obs::ok("-", false),
    }
}

// -------------------------------------------------------------------------------------------
// Generation

fn gen_name(rng: &mut Rng) -> Option<Vec<u8>> {
    if rng.chance(1, 8) {
        return None;
    }
    let len = match rng.below(8) {
        0 => 1,
        1 => 2,
        2 => 253,
        3 => 254,
        4 => rng.range(100, 254),
        _ => rng.range(1, 40),
    } as usize;
    loop {
        let n: Vec<u8> = (0..len)
            .map(|_| loop {
                let b = rng.range(0x21, 0x7e) as u8;
                if b != b'@' {
                    break b;
                }
            })
            .collect();
        if n != b"*" {
            return Some(n);
        }
    }
}

fn gen_pos(rng: &mut Rng) -> Option<usize> {
    const P31: u64 = 1 << 31;
    match rng.below(12) {
        0 | 1 => None,
        2 => Some(1),
        3 => Some(*rng.pick(&[P31 - 1, P31, P31 - 2, 1 << 29, (1 << 29) + 1, (1 << 29) - 1]) as usize),
        4 | 5 | 6 => {
            // around a bin edge of a random level
            let lvl = rng.below(6);
            let w = 1u64 << (14 + 3 * lvl);
            let edge = rng.range(0, (1 << 29) / w) * w;
            Some((edge as i64 + rng.range(0, 4) as i64 - 2).clamp(1, P31 as i64) as usize)
        }
        7 => Some(rng.range(1, P31) as usize),
        _ => Some(rng.range(1, 1 << 29) as usize),
    }
}

fn gen_bases(rng: &mut Rng, n: usize) -> Vec<u8> {
    let style = rng.below(5);
    (0..n)
        .map(|_| match style {
            0 => *rng.pick(b"ACGT"),
            1 => *rng.pick(b"=ACMGRSVTWYHKDBN"),
            2 => *rng.pick(b"=acmgrsvtwyhkdbnACGTN"),
            3 => rng.next() as u8,
            _ => *rng.pick(b"ACGTNacgtn.-*xXuU=0\x00\xff"),
        })
        .collect()
}

fn gen_qual(rng: &mut Rng, n: usize) -> Vec<u8> {
    if rng.chance(1, 3) {
        return vec![];
    }
    let style = rng.below(3);
    (0..n)
        .map(|_| match style {
            0 => rng.range(0, 93) as u8,
            1 => *rng.pick(&[0u8, 93, 92, 1, 40]),
            _ => 93,
        })
        .collect()
}

fn gen_tag(rng: &mut Rng, used: &mut Vec<[u8; 2]>) -> [u8; 2] {
    loop {
        let t = match rng.below(6) {
            0 => [rng.next() as u8, rng.next() as u8],
            1 => *rng.pick(&[*b"NM", *b"MD", *b"RG", *b"AS", *b"XS", *b"CG", *b"cg", *b"Cg"]),
            _ => {
                let a = *rng.pick(b"ABCDEFGHIJKLMNOPQRSTUVWXYZabcdefghijklmnopqrstuvwxyz");
                let b = *rng.pick(b"ABCDEFGHIJKLMNOPQRSTUVWXYZabcdefghijklmnopqrstuvwxyz0123456789");
                [a, b]
            }
        };
        if !used.contains(&t) {
            used.push(t);
            return t;
        }
    }
}

fn bound(rng: &mut Rng, lo: i64, hi: i64) -> i64 {
    match rng.below(7) {
        0 => lo,
        1 => hi,
        2 => 0.clamp(lo, hi),
        3 => (lo + 1).min(hi),
        4 => (hi - 1).max(lo),
        5 => (-1i64).clamp(lo, hi),
        _ => lo + (rng.next() % ((hi - lo + 1) as u64)) as i64,
    }
}

fn range_of(t: char) -> (i64, i64) {
    match t {
        'A' => (0, 255),
        'c' => (i8::MIN as i64, i8::MAX as i64),
        'C' => (0, 255),
        's' => (i16::MIN as i64, i16::MAX as i64),
        'S' => (0, u16::MAX as i64),
        'i' => (i32::MIN as i64, i32::MAX as i64),
        _ => (0, u32::MAX as i64), // I and f (bit patterns)
    }
}

fn gen_float_bits(rng: &mut Rng) -> i64 {
    (match rng.below(6) {
        0 => *rng.pick(&[0u32, 0x8000_0000, 0x7f80_0000, 0xff80_0000, 0x7fc0_0000, 0x7fa0_0001, 0xffff_ffff, 1, 0x7f7f_ffff]),
        1 => (rng.range(0, 2000) as f32 / 8.0).to_bits(),
        _ => rng.next() as u32,
    }) as i64
}

fn gen_val(rng: &mut Rng) -> Val {
    let t = *rng.pick(&['A', 'c', 'C', 's', 'S', 'i', 'I', 'f', 'Z', 'H', 'B', 'B']);
    match t {
        'f' => Val::Num('f', gen_float_bits(rng)),
        'Z' => {
            let n = *rng.pick(&[0usize, 1, 2, 7, 30]);
            Val::Str('Z', (0..n).map(|_| *rng.pick(&[0x20u8, 0x7e, 0x21, b'a', b'Z', b'0', b':', b'\\'])).collect())
        }
        'H' => {
            let n = *rng.pick(&[0usize, 2, 4, 16]);
            Val::Str('H', (0..n).map(|_| *rng.pick(b"0123456789ABCDEF")).collect())
        }
        'B' => {
            let st = *rng.pick(&['c', 'C', 's', 'S', 'i', 'I', 'f']);
            let n = *rng.pick(&[0usize, 1, 2, 3, 9, 40]);
            let (lo, hi) = range_of(st);
            Val::Arr(st, (0..n).map(|_| if st == 'f' { gen_float_bits(rng) } else { bound(rng, lo, hi) }).collect())
        }
        _ => {
            let (lo, hi) = range_of(t);
            Val::Num(t, bound(rng, lo, hi))
        }
    }
}

fn gen_data(rng: &mut Rng) -> Vec<([u8; 2], Val)> {
    let n = match rng.below(6) {
        0 => 0,
        1 => 1,
        2 => rng.range(5, 12),
        _ => rng.range(1, 4),
    };
    let mut used = Vec::new();
    (0..n).map(|_| (gen_tag(rng, &mut used), gen_val(rng))).collect()
}

const READ_KINDS: &[u8] = &[0, 1, 4, 7, 8];
const NONREAD_KINDS: &[u8] = &[2, 3, 5, 6];

/// small CIGAR (< 40 ops) with a bounded read length; returns ops
fn gen_small_cigar(rng: &mut Rng, pos: Option<usize>) -> Vec<(u8, usize)> {
    let n = match rng.below(8) {
        0 => 0,
        1 => 1,
        2 => 2,
        3 => rng.range(10, 40),
        _ => rng.range(1, 8),
    };
    let mut ops = Vec::new();
    for _ in 0..n {
        let k = rng.below(9) as u8;
        let l = if consumes_read(k) {
            match rng.below(6) {
                0 => 0,
                1 => 1,
                2 => rng.range(30, 160),
                _ => rng.range(1, 12),
            }
        } else {
            match rng.below(8) {
                0 => 0,
                1 => 1,
                2 => (1 << 28) - 1,
                3 => rng.range(1, 1 << 20),
                4 => {
                    // end near a bin edge
                    let w = 1u64 << (14 + 3 * rng.below(6));
                    match pos {
                        Some(p) => {
                            let p = p as u64;
                            let edge = (p / w + 1) * w;
                            (edge - p + rng.below(3)).min((1 << 28) - 1)
                        }
                        None => w,
                    }
                }
                _ => rng.range(1, 300),
            }
        };
        ops.push((k, l as usize));
    }
    ops
}

fn gen_valid(rng: &mut Rng) -> (Spec, Option<String>) {
    let nref = *rng.pick(&[0usize, 1, 3, 3]);
    let pick_id = |rng: &mut Rng| if nref > 0 && rng.chance(3, 4) { Some(rng.below(nref as u64) as usize) } else { None };
    let rid = pick_id(rng);
    let mrid = pick_id(rng);
    let pos = gen_pos(rng);
    let mut s = Spec {
        nref,
        name: gen_name(rng),
        flags: match rng.below(5) {
            0 => *rng.pick(&[0u16, 4095, 4, 1, 2048, 1024, 2047]),
            1 => 1 << rng.below(12),
            _ => rng.below(4096) as u16,
        },
        rid,
        pos,
        mapq: match rng.below(5) {
            0 => None,
            1 => Some(*rng.pick(&[0u8, 254, 1, 60])),
            _ => Some(rng.below(255) as u8),
        },
        cigar: vec![],
        mrid,
        mpos: gen_pos(rng),
        tlen: bound(rng, i32::MIN as i64, i32::MAX as i64) as i32,
        seq: vec![],
        qual: vec![],
        data: gen_data(rng),
    };
    s.cigar = gen_small_cigar(rng, pos);
    let read_len: usize = s.cigar.iter().filter(|(k, _)| consumes_read(*k)).map(|(_, l)| *l).sum();
    match rng.below(10) {
        0 => {} // missing sequence
        1 if read_len == 0 => {
            // no read-consuming op: any sequence length is accepted
            let n = rng.range(1, 9) as usize;
            s.seq = gen_bases(rng, n);
        }
        _ => s.seq = gen_bases(rng, read_len),
    }
    s.qual = gen_qual(rng, s.seq.len());
    // the placeholder look-alike: a genuine 2-op CIGAR kS mN with k = l_seq
    if rng.chance(1, 25) {
        let k = rng.range(0, 5) as usize;
        s.cigar = vec![(4, k), (3, rng.range(0, 1000) as usize)];
        s.seq = gen_bases(rng, k);
        s.qual = gen_qual(rng, k);
        if rng.chance(1, 2) && !s.data.iter().any(|(t, _)| *t == CG) {
            let v = if rng.chance(1, 2) { Val::Arr('I', vec![(3 << 4) | 0, (2 << 4) | 4]) } else { gen_val(rng) };
            s.data.push((CG, v));
        }
    }
    (s, None)
}

/// a record whose CIGAR has `n` ops (n around / above 65535), run-length described
fn gen_big_cigar(rng: &mut Rng, n: usize) -> (Spec, Option<String>) {
    let (mut s, _) = gen_valid(rng);
    let unit: Vec<(u8, usize)> = match rng.below(3) {
        0 => vec![(0, 1), (1, 1)],
        1 => vec![(0, 2), (2, 1), (4, 1)],
        _ => vec![(7, 1), (8, 1), (3, 3), (6, 0), (5, 2)],
    };
    let reps = n / unit.len();
    let tail: Vec<(u8, usize)> = (0..n - reps * unit.len()).map(|i| ((i % 9) as u8, 1 + i % 3)).collect();
    let segs = vec![(reps, unit), (1, tail)];
    s.cigar = expand_segs(&segs);
    let read_len: usize = s.cigar.iter().filter(|(k, _)| consumes_read(*k)).map(|(_, l)| *l).sum();
    s.seq = if rng.chance(1, 5) { vec![] } else { gen_bases(rng, read_len) };
    s.qual = gen_qual(rng, s.seq.len());
    if let Some(p) = s.pos {
        s.pos = Some(p.min(1 << 28));
    }
    let rle = fmt_cigar_rle(&segs);
    (s, Some(rle))
}

fn gen_reject(rng: &mut Rng, which: usize) -> (Spec, Option<String>) {
    let (mut s, _) = loop {
        let (s, r) = gen_valid(rng);
        if s.cigar.len() != 2 {
            break (s, r);
        }
    };
    const P31: usize = 1 << 31;
    let name_of = |len: usize| Some(vec![b'n'; len]);
    match which % 30 {
        0 => s.name = name_of(255),
        1 => s.name = name_of(256),
        2 => s.name = Some(vec![]),
        3 => s.name = Some(b"*".to_vec()),
        4 => s.name = Some(b"a@b".to_vec()),
        5 => s.name = Some(vec![b'a', *rng.pick(&[0x20u8, 0x7f, 0x00, 0x80, 0xff, 0x09]), b'b']),
        6 => s.pos = Some(P31 + 1),
        7 => s.mpos = Some(P31 + 1),
        8 => s.pos = Some(*rng.pick(&[1usize << 32, (1 << 32) + 1, (1 << 32) + 5, usize::MAX / 2])),
        9 => s.mpos = Some(*rng.pick(&[1usize << 32, (1 << 32) + 7])),
        10 => s.rid = Some(s.nref),
        11 => s.mrid = Some(s.nref),
        12 => s.rid = Some(s.nref + rng.range(1, 1 << 33) as usize),
        13 => {
            s.cigar = vec![(*rng.pick(NONREAD_KINDS), 1 << 28)];
            s.seq = vec![];
            s.qual = vec![];
        }
        14 => {
            s.cigar = vec![(0, 3), (*rng.pick(NONREAD_KINDS), *rng.pick(&[(1usize << 28) + 1, 1 << 32, (1 << 32) + 16]))];
            s.seq = gen_bases(rng, 3);
            s.qual = vec![];
        }
        15 => {
            s.cigar = vec![(*rng.pick(READ_KINDS), 1 << 28)];
            s.seq = vec![];
            s.qual = vec![];
        }
        16 | 17 => {
            // sequence length != CIGAR read length (by one)
            let k = rng.range(1, 9) as usize;
            s.cigar = vec![(0, k), (2, 2)];
            s.seq = gen_bases(rng, if which % 30 == 16 { k + 1 } else { (k - 1).max(1) + if k == 1 { 1 } else { 0 } });
            s.qual = vec![];
        }
        18 | 19 => {
            let k = rng.range(2, 9) as usize;
            s.cigar = vec![(0, k)];
            s.seq = gen_bases(rng, k);
            s.qual = vec![30; if which % 30 == 18 { k + 1 } else { k - 1 }];
        }
        20 => {
            s.cigar = vec![];
            s.seq = vec![];
            s.qual = vec![10; rng.range(1, 4) as usize];
        }
        21 | 22 => {
            let k = rng.range(1, 9) as usize;
            s.cigar = vec![(0, k)];
            s.seq = gen_bases(rng, k);
            s.qual = vec![20; k];
            let i = rng.below(k as u64) as usize;
            s.qual[i] = if which % 30 == 21 { 94 } else { *rng.pick(&[255u8, 95, 128, 200]) };
        }
        23 => {
            let k = rng.range(1, 9) as usize;
            s.cigar = vec![(0, k)];
            s.seq = gen_bases(rng, k);
            s.qual = vec![255; k];
        }
        24 => {
            s.data.retain(|(t, _)| t != b"ZZ");
            s.data.push((*b"ZZ", Val::Str('Z', vec![b'a', *rng.pick(&[0x1fu8, 0x7f, 0x00, 0x09, 0x80]), b'b'])));
        }
        25 => {
            s.data.retain(|(t, _)| t != b"ZZ");
            let v = match rng.below(4) {
                0 => b"A".to_vec(),
                1 => b"1G".to_vec(),
                2 => b"ab".to_vec(),
                _ => b"12\x003".to_vec(),
            };
            s.data.push((*b"ZZ", Val::Str('H', v)));
        }
        26 => return gen_overflow_span(rng),
        27 => {
            s.nref = 0;
            s.rid = Some(0);
        }
        28 => {
            s.nref = 0;
            s.mrid = Some(rng.below(3) as usize);
        }
        _ => {
            let k = rng.range(1, 5) as usize;
            s.cigar = vec![(4, k + 1), (0, 0)];
            s.seq = gen_bases(rng, k);
            s.qual = vec![];
        }
    }
    (s, None)
}

/// > 65535 ops whose reference span does not fit a single placeholder op
fn gen_overflow_span(rng: &mut Rng) -> (Spec, Option<String>) {
    let (mut s, _) = gen_valid(rng);
    let segs = vec![(32768usize, vec![(2u8, 8192usize), (6u8, 1usize)])];
    s.cigar = expand_segs(&segs);
    s.seq = vec![];
    s.qual = vec![];
    s.pos = Some(1);
    (s, Some(fmt_cigar_rle(&segs)))
}

/// mutated encodings of valid records for the decoder
fn gen_dec(rng: &mut Rng, w: &mut CaseWriter) {
    if let Some(body) = gen_dec_body(rng) {
        w.push("dec", vec![hex(&body)]);
    }
}

fn gen_dec_body(rng: &mut Rng) -> Option<Vec<u8>> {
    let (s, _) = gen_valid(rng);
    if reject_reason(&s).is_some() {
        return None;
    }
    let header = header_with(s.nref);
    let Ok(block) = write_raw(&header, &to_record_buf(&s)) else { return None };
    let mut body = block[4..].to_vec();
    if body.len() > 500 {
        return None;
    }
    match rng.below(10) {
        0 => {} // untouched
        1 => {
            let n = rng.below(body.len() as u64 + 1) as usize;
            body.truncate(n);
        }
        2 => {
            let k = rng.range(1, 6) as usize;
            body.extend(rng.bytes(k));
        }
        3 | 4 => {
            // a head field
            let i = rng.below(32.min(body.len() as u64)) as usize;
            let r = rng.next() as u8;
            body[i] = *rng.pick(&[0u8, 1, 2, 0xff, 0x7f, 0x80, r]);
        }
        5 => {
            // l_read_name / n_cigar_op / l_seq off by one
            let i = *rng.pick(&[8usize, 12, 16]);
            body[i] = if rng.chance(1, 2) { body[i].wrapping_add(1) } else { body[i].wrapping_sub(1) };
        }
        _ => {
            let k = rng.range(1, 3);
            for _ in 0..k {
                let i = rng.below(body.len() as u64) as usize;
                body[i] = match rng.below(4) {
                    0 => 0,
                    1 => 0xff,
                    2 => body[i] ^ (1 << rng.below(8)),
                    _ => rng.next() as u8,
                };
            }
        }
    }
    if body.is_empty() {
        return None;
    }
    Some(body)
}

/// hand-made placeholder-shaped bodies: kS mN + CG of various types
fn gen_dec_cg(rng: &mut Rng, w: &mut CaseWriter) {
    let body = gen_dec_cg_body(rng);
    w.push("dec", vec![hex(&body)]);
}

fn gen_dec_cg_body(rng: &mut Rng) -> Vec<u8> {
    let k = rng.range(0, 4) as usize;
    let mut s = Spec::default_unmapped();
    s.name = Some(b"q".to_vec());
    s.cigar = vec![(4, k), (3, rng.range(0, 50) as usize)];
    s.seq = gen_bases(rng, k);
    s.data = vec![(*b"NM", Val::Num('C', 1))];
    let header = header_with(0);
    let block = write_raw(&header, &to_record_buf(&s)).expect("write");
    let mut body = block[4..].to_vec();
    // append a raw CG field
    body.extend_from_slice(b"CG");
    match rng.below(5) {
        0 | 1 => {
            body.extend_from_slice(b"BI");
            let ops: Vec<u32> = (0..rng.range(0, 4))
                .map(|_| {
                    let lim = if rng.chance(1, 6) { 16 } else { 9 };
                    ((rng.range(0, 9) as u32) << 4) | rng.below(lim) as u32
                })
                .collect();
            body.extend_from_slice(&(ops.len() as u32).to_le_bytes());
            for o in ops {
                body.extend_from_slice(&o.to_le_bytes());
            }
        }
        2 => {
            body.extend_from_slice(b"Bi");
            body.extend_from_slice(&1u32.to_le_bytes());
            body.extend_from_slice(&((5u32 << 4) | 0).to_le_bytes());
        }
        3 => {
            body.extend_from_slice(b"BC");
            body.extend_from_slice(&4u32.to_le_bytes());
            body.extend_from_slice(&[0x10, 0, 0, 0]);
        }
        _ => {
            body.extend_from_slice(b"Zabc\0");
        }
    }
    if rng.chance(1, 3) {
        body.extend_from_slice(b"XXC\x07");
    }
    body
}

/// bodies for the lazy view: placeholder-shaped records whose data block is a random sequence of
/// raw fields of every type (CG of every type/subtype and length among them, before or after other
/// fields), optionally cut or extended
fn gen_lz_cg_body(rng: &mut Rng) -> Vec<u8> {
    let k = rng.range(0, 4) as usize;
    let mut s = Spec::default_unmapped();
    s.name = Some(b"q".to_vec());
    s.cigar = if rng.chance(5, 6) { vec![(4, k), (3, rng.range(0, 50) as usize)] } else { vec![(4, k), (2, 3)] };
    s.seq = gen_bases(rng, k);
    let block = write_raw(&header_with(0), &to_record_buf(&s)).expect("write");
    let mut body = block[4..].to_vec();
    let n_fields = rng.range(1, 4);
    let cg_at = rng.below(n_fields + 1);
    for i in 0..n_fields {
        if i == cg_at {
            body.extend_from_slice(b"CG");
        } else {
            body.extend_from_slice(&[b'X', b'a' + i as u8]);
        }
        match rng.below(8) {
            0..=3 => {
                let st = *rng.pick(b"cCsSiIf");
                let w = match st { b'c' | b'C' => 1, b's' | b'S' => 2, _ => 4 };
                let n = rng.range(0, 5) as usize;
                body.push(b'B');
                body.push(if rng.chance(1, 12) { b'A' } else { st });
                body.extend_from_slice(&(n as u32).to_le_bytes());
                for _ in 0..n * w {
                    let lim = if rng.chance(1, 8) { 256 } else { 9 };
                    body.push(rng.below(lim) as u8);
                }
            }
            4 => {
                body.push(*rng.pick(b"ZH"));
                body.extend_from_slice(b"4142");
                if rng.chance(7, 8) {
                    body.push(0);
                }
            }
            5 => {
                body.push(*rng.pick(b"AcCsSiIf"));
                let n = rng.range(1, 4) as usize;
                body.extend(rng.bytes(n));
            }
            6 => {
                body.push(b'i');
                body.extend(rng.bytes(4));
            }
            _ => {
                body.push(*rng.pick(b"Bq\0"));
            }
        }
    }
    match rng.below(8) {
        0 => {
            let n = rng.below(body.len() as u64 + 1) as usize;
            body.truncate(n);
        }
        1 => {
            let n = rng.range(1, 3) as usize;
            body.extend(rng.bytes(n));
        }
        _ => {}
    }
    body
}

fn gen_header_text(rng: &mut Rng) -> (String, usize) {
    let mut t = String::new();
    if rng.chance(2, 3) {
        t.push_str(match rng.below(3) {
            0 => "@HD\tVN:1.6\n",
            1 => "@HD\tVN:1.6\tSO:coordinate\n",
            _ => "@HD\tVN:1.5\tSO:unsorted\tGO:none\n",
        });
    }
    let nref = *rng.pick(&[0usize, 1, 2, 3, 5]);
    for i in 0..nref {
        let name = match rng.below(4) {
            0 => format!("chr{i}"),
            1 => format!("r{i}_{}", rng.below(1000)),
            2 => format!("{i}"),
            _ => format!("HLA-A*01:0{i}"),
        };
        let len = match rng.below(4) {
            0 => (1u64 << 31) - 1,
            1 => 1,
            _ => rng.range(1, 300_000_000),
        };
        t.push_str(&format!("@SQ\tSN:{name}\tLN:{len}"));
        if rng.chance(1, 4) {
            t.push_str("\tM5:d41d8cd98f00b204e9800998ecf8427e");
        }
        t.push('\n');
    }
    if rng.chance(1, 3) {
        t.push_str("@RG\tID:rg0\tSM:s\n");
    }
    if rng.chance(1, 3) {
        t.push_str("@PG\tID:pg0\tPN:nv\n");
    }
    if rng.chance(1, 3) {
        t.push_str("@CO\tfile level case\n");
    }
    (t, nref)
}

/// a record that is "poor" in a random subset of its heap fields (name, CIGAR, sequence, qualities,
/// data): interleaved with rich records so that every field decoder meets a destination that still
/// holds more than it is about to write
fn gen_poor(rng: &mut Rng, nref: usize) -> Spec {
    let mut s = Spec::default_unmapped();
    s.nref = nref;
    s.flags = *rng.pick(&[4u16, 0, 77, 141]);
    match rng.below(6) {
        0 => {} // everything missing: l_seq = 0, SEQ and QUAL both `*`
        1 => {
            // sequence without qualities (stored as 0xff), nothing else
            let n = rng.range(1, 6) as usize;
            s.seq = gen_bases(rng, n);
        }
        2 => {
            // short sequence with qualities, shorter than its predecessor's
            let n = rng.range(1, 3) as usize;
            s.seq = gen_bases(rng, n);
            s.qual = (0..n).map(|_| rng.below(94) as u8).collect();
        }
        3 => s.name = Some(vec![b'q']),
        4 => {
            s.data = vec![(*b"NM", Val::Num('C', rng.below(256) as i64))];
        }
        _ => {
            let n = rng.range(1, 4) as usize;
            s.cigar = vec![(0, n)];
            s.seq = gen_bases(rng, n);
            if rng.chance(1, 2) {
                s.qual = vec![255u8.min(93); n];
            }
        }
    }
    s
}

/// the 12 record fields of a `file` case
fn rec_args(s: &Spec, rle: Option<String>) -> Vec<String> {
    s.to_args("raw", rle)[2..].to_vec()
}

fn gen_file(rng: &mut Rng, w: &mut CaseWriter, idx: usize, big: bool) {
    let (text, nref) = gen_header_text(rng);
    let n = match rng.below(8) {
        0 => 0,
        1 => 1,
        _ => rng.range(2, 12) as usize,
    };
    let mut args = vec![String::new(), hex(text.as_bytes()), String::new()];
    let mut count = 0;
    let mut push = |s: Spec, rle: Option<String>, args: &mut Vec<String>| {
        args.extend(rec_args(&s, rle));
        count += 1;
    };
    let inject_reject = idx % 9 == 4;
    let reject_at = if n > 0 { rng.below(n as u64) as usize } else { 0 };
    for i in 0..n {
        let (mut s, rle) = if inject_reject && i == reject_at { let which = rng.below(26) as usize; gen_reject(rng, which) } else { gen_valid(rng) };
        // the file's header decides the number of reference sequences
        let fix = |id: Option<usize>, rng: &mut Rng| match id {
            Some(_) if nref == 0 => None,
            Some(x) if x >= nref && !(inject_reject && i == reject_at) => Some(rng.below(nref as u64) as usize),
            other => other,
        };
        s.rid = fix(s.rid, rng);
        s.mrid = fix(s.mrid, rng);
        if rng.chance(1, 3) && nref > 0 {
            s.rid = Some(rng.below(nref as u64) as usize);
        }
        s.nref = nref;
        push(s, rle, &mut args);
        // rich then poor, in every field
        if rng.chance(1, 2) {
            push(gen_poor(rng, nref), None, &mut args);
        }
    }
    if big {
        let nops = *rng.pick(&[65536usize, 65537, 66000]);
        let (mut s, rle) = gen_big_cigar(rng, nops);
        s.nref = nref;
        if nref == 0 {
            s.rid = None;
            s.mrid = None;
        } else {
            s.rid = s.rid.map(|x| x % nref);
            s.mrid = s.mrid.map(|x| x % nref);
        }
        push(s, rle, &mut args);
        let (mut s, rle) = gen_valid(rng);
        s.nref = nref;
        s.rid = None;
        s.mrid = None;
        push(s, rle, &mut args);
    }
    args[0] = if idx % 3 == 0 && !big { "bgzf0".into() } else { "raw".into() };
    args[2] = count.to_string();
    w.push("file", args);
}

/// a written stream, then cut / extended / mutated / with a zero block_size inserted
fn gen_fread(rng: &mut Rng, w: &mut CaseWriter) {
    let (text, nref) = gen_header_text(rng);
    let Ok(header) = text.parse::<sam::Header>() else { return };
    let mut wr = bam::io::Writer::from(Vec::new());
    if wr.write_header(&header).is_err() {
        return;
    }
    let hdr_len = wr.get_ref().len();
    let n = rng.range(0, 5) as usize;
    let mut starts = vec![hdr_len];
    for _ in 0..n {
        let (mut s, _) = gen_valid(rng);
        s.nref = nref;
        if nref == 0 {
            s.rid = None;
            s.mrid = None;
        }
        if reject_reason(&s).is_some() {
            continue;
        }
        if wr.write_alignment_record(&header, &to_record_buf(&s)).is_err() {
            return;
        }
        starts.push(wr.get_ref().len());
        if rng.chance(1, 2) {
            let p = gen_poor(rng, nref);
            if wr.write_alignment_record(&header, &to_record_buf(&p)).is_err() {
                return;
            }
            starts.push(wr.get_ref().len());
        }
    }
    let mut stream = wr.into_inner();
    match rng.below(10) {
        0 | 1 => {
            // cut inside the record part
            let at = rng.range(hdr_len as u64, stream.len() as u64) as usize;
            stream.truncate(at);
        }
        2 => {
            // cut just after a block_size / a few bytes into a block
            let st = *rng.pick(&starts);
            let at = (st + rng.range(1, 40) as usize).min(stream.len());
            stream.truncate(at);
        }
        3 => {
            // a zero block_size before some record: the readers report the end of the stream
            let st = *rng.pick(&starts);
            stream.splice(st..st, [0u8; 4]);
        }
        4 => {
            let k = rng.range(1, 6) as usize;
            stream.extend(rng.bytes(k));
        }
        5 => {
            // cut inside the header block
            let at = rng.below(hdr_len as u64 + 1) as usize;
            stream.truncate(at);
        }
        6 | 7 => {
            if stream.len() > hdr_len {
                let at = rng.range(hdr_len as u64, stream.len() as u64 - 1) as usize;
                stream[at] = rng.below(256) as u8;
            }
        }
        8 => {
            // a block_size that promises more than the stream holds / less than the layout needs
            let st = *rng.pick(&starts);
            if st + 4 <= stream.len() {
                let v: u32 = *rng.pick(&[1u32, 31, 32, 33, 1 << 20, u32::MAX]);
                stream[st..st + 4].copy_from_slice(&v.to_le_bytes());
            }
        }
        _ => {}
    }
    w.push("fread", vec![hex(&stream)]);
}

fn generate(rng: &mut Rng, tier: &str, w: &mut CaseWriter) {
    let thorough = tier == "thorough";
    for t in ["bases", "nibbles", "kinds"] {
        w.push("tab", vec![t.into()]);
    }
    // fixed corner cases first
    {
        let s = Spec::default_unmapped();
        w.push("rec", s.to_args("raw", None));
        let mut s2 = Spec::default_unmapped();
        s2.pos = Some(1);
        s2.flags = 4; // placed unmapped: reg2bin(pos-1, pos)
        w.push("rec", s2.to_args("bgzf", None));
    }
    let n_valid = if thorough { 120000 } else { 1500 };
    for i in 0..n_valid {
        let (s, rle) = gen_valid(rng);
        let mode = if i % 16 == 0 { "bgzf" } else { "raw" };
        w.push("rec", s.to_args(mode, rle));
    }
    let bigs: &[usize] = if thorough {
        &[65534, 65535, 65536, 65537, 65538, 66000, 70000, 65535, 65536, 69999, 70000, 131072]
    } else {
        &[65535, 65536, 65537, 70000]
    };
    for (i, n) in bigs.iter().enumerate() {
        let (s, rle) = gen_big_cigar(rng, *n);
        w.push("rw", s.to_args("raw", rle.clone()));
        w.push("rec", s.to_args(if i % 2 == 0 { "raw" } else { "bgzf" }, rle));
    }
    let n_rej = if thorough { 6000 } else { 240 };
    for i in 0..n_rej {
        if i % 30 == 26 && !thorough && i > 30 {
            continue; // the 65536-op reject is expensive: once in the quick tier
        }
        let (s, rle) = gen_reject(rng, i);
        w.push("rec", s.to_args("raw", rle));
    }
    let n_sub = if thorough { 1500 } else { 120 };
    for i in 0..n_sub {
        let n = if i < 24 { i } else { *rng.pick(&[25usize, 31, 32, 33, 100, 101, 1000, 1001]) };
        w.push("sub", vec![hex(&gen_bases(rng, n))]);
    }
    let n_dec = if thorough { 60000 } else { 1200 };
    for i in 0..n_dec {
        if i % 6 == 0 {
            gen_dec_cg(rng, w);
        } else {
            gen_dec(rng, w);
        }
    }
    // lazy views (appended last so that the cases above keep their ids and random draws)
    let n_lz = if thorough { 60000 } else { 1500 };
    for i in 0..n_lz {
        let body = match i % 6 {
            0 | 1 => Some(gen_lz_cg_body(rng)),
            2 => Some(gen_dec_cg_body(rng)),
            _ => gen_dec_body(rng),
        };
        if let Some(body) = body {
            w.push("lz", vec![hex(&body)]);
        }
    }
    // whole files (appended last: the cases above keep their ids and random draws)
    let n_file = if thorough { 6000 } else { 160 };
    for i in 0..n_file {
        gen_file(rng, w, i, false);
    }
    for i in 0..(if thorough { 6 } else { 1 }) {
        gen_file(rng, w, i, true);
    }
    let n_fread = if thorough { 12000 } else { 400 };
    for _ in 0..n_fread {
        gen_fread(rng, w);
    }
    // direct lazy re-write (wave 9; appended last)
    let n_rwz = if thorough { 30000 } else { 900 };
    for i in 0..n_rwz {
        let body = match i % 6 {
            0 => Some(gen_lz_cg_body(rng)),
            1 => Some(gen_dec_cg_body(rng)),
            2 | 3 => {
                // an untouched written record
                let (s, _) = gen_valid(rng);
                if reject_reason(&s).is_some() {
                    None
                } else {
                    write_raw(&header_with(s.nref), &to_record_buf(&s)).ok().filter(|b| b.len() <= 600).map(|b| b[4..].to_vec())
                }
            }
            _ => gen_dec_body(rng),
        };
        if let Some(body) = body {
            let nref = *rng.pick(&[3usize, 3, 3, 1, 0]);
            w.push("rwz", vec![nref.to_string(), hex(&body)]);
        }
    }
    for n in if thorough { vec![65535usize, 65536, 65537, 70000] } else { vec![65536] } {
        let (s, _) = gen_big_cigar(rng, n);
        if let Ok(b) = write_raw(&header_with(s.nref), &to_record_buf(&s)) {
            w.push("rwz", vec!["3".to_string(), hex(&b[4..])]);
        }
    }
    // hostile blocks (wave 9; appended last)
    let n_hb = if thorough { 12000 } else { 400 };
    for _ in 0..n_hb {
        gen_hb(rng, w);
    }
    // sequence iterator schedules (wave 10; appended last)
    let n_sqi = if thorough { 6000 } else { 300 };
    for i in 0..n_sqi {
        let n = if i < 40 { i % 20 } else { *rng.pick(&[0usize, 1, 2, 3, 4, 5, 6, 7, 8, 9, 15, 16, 17, 31, 32, 33, 100, 101, 300]) };
        let bases = gen_bases(rng, n);
        let mid = rng.below(n as u64 + 3) as usize;
        let len = match rng.below(4) {
            0 => n + 2,
            1 => n,
            _ => rng.below(n as u64 + 3) as usize,
        };
        let style = rng.below(6);
        let sched: String = (0..len)
            .map(|k| match style {
                0 => 'f',
                1 => 'b',
                2 => if k % 2 == 0 { 'f' } else { 'b' },
                3 => if k % 2 == 0 { 'b' } else { 'f' },
                _ => if rng.chance(1, 2) { 'f' } else { 'b' },
            })
            .collect();
        let fa = "f".repeat(mid.min(n).min(30) + 1);
        let fb = "f".repeat(n.saturating_sub(mid).min(30) + 1);
        w.push("sqi", vec![hex(&bases), mid.to_string(), if sched.is_empty() { "_".into() } else { sched }, fa, fb]);
    }
}

// -------------------------------------------------------------------------------------------
// `sqi` (wave 10): record/sequence/iter.rs as a state machine -- Sequence::iter() driven by an arbitrary
// schedule of next / next_back with size_hint observed after every call, and the iterators of both
// halves of split_at_checked driven by next with size_hint.  Model: NV.Bam.SeqIter.seq_iter_run.
fn run_sqi(c: &Case) -> Obs {
    let header = sam::Header::default();
    let mut s = Spec::default_unmapped();
    s.seq = c.b(0);
    let mid = c.u(1) as usize;
    let sched: Vec<u8> = c.args[2].bytes().filter(|b| *b == b'f' || *b == b'b').collect();
    let (fa, fb) = (c.args[3].len(), c.args[4].len());
    let block = write_raw(&header, &to_record_buf(&s)).expect("write");
    let eg = read_raw_eager(&header, &block).expect("read");
    let es: Vec<u8> = { let x: &[u8] = eg.sequence().as_ref(); x.to_vec() };
    let lz = match read_raw_lazy(&block) {
        Ok(l) => l,
        Err(e) => return Obs::ok("-", false).with_verdict(bad("lazy-read", format!("{e}"))),
    };
    // one run: "P" or "h0;o1:h1.o2:h2..."; the bool says size_hint was (n, Some(n)) throughout
    fn drive<I: Iterator<Item = u8>>(mk: impl FnOnce() -> I, ops: &[u8], step: impl Fn(&mut I, u8) -> Option<u8>) -> (String, bool, Vec<Option<u8>>) {
        match guarded(std::panic::AssertUnwindSafe(|| {
            let mut it = mk();
            let mut exact = true;
            let mut items = Vec::new();
            let (lo, hi) = it.size_hint();
            exact &= hi == Some(lo);
            let mut out = format!("{lo};");
            let mut parts = Vec::new();
            for op in ops {
                let o = step(&mut it, *op);
                let (lo, hi) = it.size_hint();
                exact &= hi == Some(lo);
                parts.push(format!("{}:{}", o.map(|b| b.to_string()).unwrap_or_else(|| "-".into()), lo));
                items.push(o);
            }
            out.push_str(&parts.join("."));
            (out, exact, items)
        })) {
            Outcome::Done(r) => r,
            Outcome::Panicked(_) => ("P".to_string(), true, Vec::new()),
        }
    }
    let ls = lz.sequence();
    let n = ls.len();
    let (whole, exact_w, items) = drive(|| ls.iter(), &sched, |it, op| if op == b'b' { it.next_back() } else { it.next() });
    let fs_a = vec![b'f'; fa];
    let fs_b = vec![b'f'; fb];
    let (halves, exact_h) = match guarded(std::panic::AssertUnwindSafe(|| ls.split_at_checked(mid))) {
        Outcome::Done(Some((a, b))) => {
            let (oa, ea, _) = drive(|| a.iter(), &fs_a, |it, _| it.next());
            let (ob, eb, _) = drive(|| b.iter(), &fs_b, |it, _| it.next());
            (format!("{oa}/{ob}"), ea && eb)
        }
        Outcome::Done(None) => ("None".to_string(), true),
        Outcome::Panicked(_) => ("P".to_string(), true),
    };
    // L3 oracle, stated independently on the eagerly decoded bases: the lazy iterator is a
    // double-ended queue over them, and ExactSizeIterator's contract holds
    let mut v: V = Ok(());
    if whole == "P" || halves.contains('P') {
        v = bad("lazy-sequence-iter-panic", format!("n={n} mid={mid}"));
    } else if !(exact_w && exact_h) {
        v = bad("lazy-sequence-iter-size-hint-not-exact", format!("n={n} mid={mid}"));
    } else {
        let mut dq: std::collections::VecDeque<u8> = es.iter().copied().collect();
        for (k, op) in sched.iter().enumerate() {
            let want = if *op == b'b' { dq.pop_back() } else { dq.pop_front() };
            if items.get(k).copied().flatten() != want || items.get(k).is_none() {
                v = bad("lazy-sequence-iter-double-ended-differs-from-eager", format!("n={n} step={k} op={}", *op as char));
                break;
            }
        }
    }
    let obs = short_or_digest(format!("{whole}|{halves}"));
    Obs::ok(obs, n >= 2 && sched.len() >= 2).with_verdict(v)
}

/// `hb`: one whole block (block_size + body) with a hostile count: l_seq / n_cigar_op / l_read_name /
/// block_size / an array count far beyond the bytes present, or a cut.  Model: NV.Bam.Decode.decode
/// (its counts are binary numbers, never converted to unary: no fuel or stack depends on them).
fn gen_hb(rng: &mut Rng, w: &mut CaseWriter) {
    let body = loop {
        let (s, _) = gen_valid(rng);
        if reject_reason(&s).is_some() {
            continue;
        }
        let header = header_with(s.nref);
        if let Ok(block) = write_raw(&header, &to_record_buf(&s)) {
            if block.len() <= 600 {
                break block[4..].to_vec();
            }
        }
    };
    let mut body = body;
    let mut bsize = body.len() as u32;
    let huge = |rng: &mut Rng| -> u32 { *rng.pick(&[0xffff_ffffu32, 0x7fff_ffff, 0x8000_0000, 0x4000_0000, 0x0100_0000, 0x0001_0000]) };
    match rng.below(9) {
        0 => {
            let v = huge(rng);
            body[16..20].copy_from_slice(&v.to_le_bytes());
        }
        1 => {
            let v = *rng.pick(&[0xffffu16, 0x8000, 0x7fff, 0x4000]);
            body[12..14].copy_from_slice(&v.to_le_bytes());
        }
        2 => body[8] = *rng.pick(&[0u8, 255, 254, 128]),
        3 => bsize = huge(rng),
        4 => bsize = (bsize as i64 + *rng.pick(&[-33i64, -5, -1, 1, 2, 40])).max(1) as u32,
        5 | 6 => {
            // an array field whose count promises far more than is there
            let sub = *rng.pick(b"cCsSiIfx");
            let cnt = huge(rng);
            body.extend_from_slice(b"XB");
            body.push(b'B');
            body.push(sub);
            body.extend_from_slice(&cnt.to_le_bytes());
            let k = rng.below(9) as usize;
            body.extend(rng.bytes(k));
            bsize = body.len() as u32;
        }
        7 => {
            // all three counts at their maximum
            body[8] = 255;
            body[12..14].copy_from_slice(&0xffffu16.to_le_bytes());
            body[16..20].copy_from_slice(&0xffff_ffffu32.to_le_bytes());
        }
        _ => {
            let n = rng.below(body.len() as u64) as usize;
            body.truncate(n);
        }
    }
    let mut block = bsize.to_le_bytes().to_vec();
    block.extend_from_slice(&body);
    w.push("hb", vec![hex(&block)]);
}

fn main() {
    nv::main_with(generate, run)
}
