//! C17: binning soundness, chunk-list optimisation, index round trips.
//!
//! Modelled kinds (obs compared with the extracted Coq model):
//!   r2b   ms d fs fe            -> bin id chosen by Indexer::add_record (reg2bin)
//!   r2bs  ms d rs re            -> ids selected by ReferenceSequence::query (reg2bins)
//!   sweep ms d                  -> digest of reg2bin and reg2bins over *all* intervals of the geometry
//!   opt   m  s:e,s:e,...        -> optimize_chunks
//!   addc  s:e,s:e,...           -> Bin::add_chunk applied left to right
//!   opta  m  s:e,...            -> optimize_chunks on ARBITRARY chunk lists: duplicates, nested/overlapping chunks,
//!                                  equal starts, empty chunks (s = e), inverted chunks (e < s; with a start of their own)
//!   optp  m  cs  sorted         -> model: merge_sorted on `sorted`, a permutation of the retained chunks sorted by start
//!                                  with ties in a random order; impl: optimize_chunks(cs, m) (no inverted chunks: every
//!                                  tie order must give the same list)
//!   csih  ms d id=loff=chunks;... qs:qe,...  -> hostile but well-formed CSI reference (bin ids inside AND outside the
//!                                  geometry, duplicate/nested/overlapping chunks, any loffsets, depth 0 included):
//!                                  answers of the real Index::query before and after csi write + read, against the
//!                                  model's query on the index and on its re-read (reread_loffs)
//! Implementation-only oracles:
//!   pairs ms d                  -> reg2bin(f) in reg2bins(r) for all (or sampled) intersecting pairs
//!   idxrt kind seed             -> write/read round trip of a generated BAI/CSI/tabix index

use std::io::Cursor;

use indexmap::IndexMap;
use noodles_bam::bai;
use noodles_bgzf::VirtualPosition as VP;
use noodles_core::Position;
use noodles_csi::{
    self as csi,
    binning_index::{
        self, BinningIndex, Indexer,
        index::{
            Header, ReferenceSequence,
            reference_sequence::{Bin, bin::Chunk, index::BinnedIndex, index::LinearIndex},
        },
    },
};
use noodles_tabix as tabix;
use nv::{Case, CaseWriter, Obs, Rng};

#[path = "../shared/c17_layout.rs"]
mod c17_layout;

fn pos(n: u64) -> Position {
    Position::try_from(n as usize).expect("position >= 1")
}

fn max_position(ms: u64, d: u64) -> u64 {
    (1u64 << (ms + 3 * d)) - 1
}

fn impl_reg2bin(ms: u8, d: u8, fs: u64, fe: u64) -> u64 {
    let mut ix = Indexer::<BinnedIndex>::new(ms, d);
    ix.add_record(
        Some((0, pos(fs), pos(fe), true)),
        Chunk::new(VP::from(1), VP::from(2)),
    )
    .unwrap();
    let index = ix.build(1);
    let rs = &index.reference_sequences()[0];
    assert_eq!(rs.bins().len(), 1);
    *rs.bins().keys().next().unwrap() as u64
}

fn full_refseq(d: u8) -> ReferenceSequence<BinnedIndex> {
    let max_id = Bin::max_id(d);
    let bins: IndexMap<usize, Bin> = (0..max_id)
        .map(|id| {
            (
                id,
                Bin::new(vec![Chunk::new(VP::from(id as u64), VP::from(id as u64 + 1))]),
            )
        })
        .collect();
    ReferenceSequence::new(bins, BinnedIndex::default(), None)
}

/// A bin map holding every bin within three bin-widths of [rs, re] at every level (so bins that
/// must *not* be selected are present too), for geometries whose full bin set is too large.
fn window_refseq(ms: u64, d: u64, rs: u64, re: u64) -> ReferenceSequence<BinnedIndex> {
    let mut ids = Vec::new();
    let mut t = 0u64;
    for l in 0..=d {
        let s = ms + 3 * (d - l);
        let n_level = 1u64 << (3 * l);
        let lo = ((rs - 1) >> s).saturating_sub(3);
        let hi = (((re - 1) >> s) + 3).min(n_level - 1);
        for x in lo..=hi {
            ids.push(t + x);
        }
        t += n_level;
    }
    let bins: IndexMap<usize, Bin> = ids
        .into_iter()
        .map(|id| (id as usize, Bin::new(vec![Chunk::new(VP::from(id), VP::from(id + 1))])))
        .collect();
    ReferenceSequence::new(bins, BinnedIndex::default(), None)
}

fn impl_reg2bins(full: &ReferenceSequence<BinnedIndex>, ms: u8, d: u8, rs: u64, re: u64) -> Vec<u64> {
    let bins = full.query(ms, d, pos(rs)..=pos(re)).unwrap();
    let mut ids: Vec<u64> = bins.iter().map(|b| u64::from(b.chunks()[0].start())).collect();
    ids.sort_unstable();
    ids
}

const MASK: u64 = (1 << 62) - 1;
fn mix(h: u64, v: u64) -> u64 {
    h.wrapping_mul(1_000_003).wrapping_add(v).wrapping_add(1) & MASK
}

fn parse_chunks(s: &str) -> Vec<(u64, u64)> {
    if s == "_" {
        return vec![];
    }
    s.split(',')
        .map(|p| {
            let (a, b) = p.split_once(':').unwrap();
            (a.parse().unwrap(), b.parse().unwrap())
        })
        .collect()
}

fn fmt_chunks(cs: &[(u64, u64)]) -> String {
    if cs.is_empty() {
        return "_".into();
    }
    cs.iter()
        .map(|(a, b)| format!("{a}:{b}"))
        .collect::<Vec<_>>()
        .join(",")
}

fn to_chunks(cs: &[(u64, u64)]) -> Vec<Chunk> {
    cs.iter().map(|&(a, b)| Chunk::new(VP::from(a), VP::from(b))).collect()
}
fn from_chunks(cs: &[Chunk]) -> Vec<(u64, u64)> {
    cs.iter().map(|c| (u64::from(c.start()), u64::from(c.end()))).collect()
}

// -------------------------------------------------------------------------------------------
// generation

const GEOMS_SMALL: &[(u64, u64)] = &[(1, 1), (2, 1), (3, 1), (1, 2), (2, 2), (3, 2)];
const GEOMS_BIG: &[(u64, u64)] = &[(1, 3), (2, 3), (3, 3)];
const GEOMS_SAMPLED: &[(u64, u64)] = &[(14, 5), (14, 6), (12, 4), (16, 4), (10, 7), (14, 2), (20, 3), (7, 8)];

fn gen_interval(rng: &mut Rng, ms: u64, d: u64) -> (u64, u64) {
    let maxp = max_position(ms, d);
    // boundary-dense: pick a bin edge at a random level and wiggle around it
    let lvl = rng.below(d + 1);
    let w = 1u64 << (ms + 3 * lvl);
    let edge = (rng.below(maxp / w + 1)) * w;
    let mut s = match rng.below(4) {
        0 => rng.range(1, maxp),
        _ => (edge as i64 + rng.range(0, 4) as i64 - 2).clamp(1, maxp as i64) as u64,
    };
    let len = match rng.below(5) {
        0 => 0,
        1 => rng.below(4),
        2 => w - 1 + rng.below(3),
        3 => rng.below(w + 1),
        _ => rng.below(maxp),
    };
    if s > maxp {
        s = maxp;
    }
    let e = (s + len).min(maxp);
    (s, e)
}

fn gen_chunk_list(rng: &mut Rng, n: usize, span: u64) -> Vec<(u64, u64)> {
    (0..n)
        .map(|_| {
            let s = rng.below(span);
            let l = match rng.below(4) {
                0 => 1,
                1 => rng.range(1, 3),
                _ => rng.range(1, span / 2 + 1),
            };
            (s, s + l)
        })
        .collect()
}

/// arbitrary chunk lists: duplicates, nested chunks, equal starts, empty and (optionally) inverted chunks
fn gen_chunk_list_any(rng: &mut Rng, n: usize, span: u64, inverted: bool) -> Vec<(u64, u64)> {
    let mut cs: Vec<(u64, u64)> = Vec::new();
    for _ in 0..n {
        let s = rng.below(span);
        let l = if rng.chance(1, 2) { rng.range(1, 3) } else { rng.range(1, span / 2 + 1) };
        let c = match rng.below(20) {
            0..=7 => (s, s + l),
            8 | 9 => (s, s),
            10 | 11 if inverted => (s + l, s),
            12..=14 if !cs.is_empty() => *rng.pick(&cs),
            15 | 16 if !cs.is_empty() => {
                // nested in (or equal to) an earlier chunk
                let (a, b) = *rng.pick(&cs);
                let (a, b) = (a.min(b), a.max(b));
                let x = a + rng.below(b - a + 1);
                (x, x + rng.below(b - x + 1))
            }
            17 | 18 if !cs.is_empty() => {
                // same start as an earlier chunk, another end
                let (a, _) = *rng.pick(&cs);
                (a, a + rng.below(l + 1))
            }
            _ => (s, s + l),
        };
        cs.push(c);
    }
    // an inverted chunk keeps a start of its own (sort_unstable leaves the order of equal starts open,
    // and with an inverted chunk that order shows in the output: c17_optimize_any_example)
    // (turning a chunk round gives it a new start: repeat until nothing changes; every round removes an inverted chunk)
    loop {
        let mut changed = false;
        for i in 0..cs.len() {
            let (a, b) = cs[i];
            if b < a && cs.iter().enumerate().any(|(j, c)| j != i && c.0 == a) {
                cs[i] = (b, a);
                changed = true;
            }
        }
        if !changed {
            break;
        }
    }
    cs
}

fn generate(rng: &mut Rng, tier: &str, w: &mut CaseWriter) {
    let thorough = tier == "thorough";
    // exhaustive sweeps over small geometries
    for &(ms, d) in GEOMS_SMALL {
        w.push("sweep", vec![ms.to_string(), d.to_string()]);
        // exhaustive pair enumeration where it is affordable, sampled pairs otherwise
        let exhaustive = ms + 3 * d <= 7 || (thorough && ms + 3 * d <= 8);
        let seed = if exhaustive { 0 } else { rng.next() | 1 };
        w.push("pairs", vec![ms.to_string(), d.to_string(), seed.to_string()]);
    }
    if thorough {
        for &(ms, d) in GEOMS_BIG {
            w.push("sweep", vec![ms.to_string(), d.to_string()]);
            w.push("pairs", vec![ms.to_string(), d.to_string(), rng.next().to_string()]);
        }
    } else {
        for &(ms, d) in GEOMS_BIG {
            w.push("pairs", vec![ms.to_string(), d.to_string(), rng.next().to_string()]);
        }
    }
    let n = if thorough { 8000 } else { 400 };
    for i in 0..n {
        let &(ms, d) = rng.pick(if i % 4 == 0 { GEOMS_BIG } else { GEOMS_SAMPLED });
        let (s, e) = gen_interval(rng, ms, d);
        // reg2bins allocates a bit per bin id: keep it to depth <= 6
        let kind = if i % 2 == 0 || d > 6 { "r2b" } else { "r2bs" };
        // keep reg2bins lists printable: bound the region width at the finest level
        let (s, e) = if kind == "r2bs" {
            (s, e.min(s + (1u64 << ms) * 40))
        } else {
            (s, e)
        };
        w.push(kind, vec![ms.to_string(), d.to_string(), s.to_string(), e.to_string()]);
    }
    for &(ms, d) in GEOMS_SAMPLED.iter().filter(|g| g.1 <= 6) {
        w.push("pairs", vec![ms.to_string(), d.to_string(), rng.next().to_string()]);
    }
    let n = if thorough { 6000 } else { 300 };
    for i in 0..n {
        let k = match i % 5 {
            0 => rng.below(3),
            1 => rng.range(2, 6),
            _ => rng.range(1, 14),
        } as usize;
        let span = *rng.pick(&[6u64, 12, 40, 1000, 1 << 40]);
        let cs = gen_chunk_list(rng, k, span);
        let m = if rng.chance(1, 3) { 0 } else { rng.below(span + 2) };
        w.push("opt", vec![m.to_string(), fmt_chunks(&cs)]);
    }
    let n = if thorough { 6000 } else { 300 };
    for i in 0..n {
        let k = match i % 5 {
            0 => rng.below(3),
            1 => rng.range(2, 6),
            _ => rng.range(1, 14),
        } as usize;
        let span = *rng.pick(&[4u64, 8, 16, 60, 1 << 40]);
        let cs = gen_chunk_list_any(rng, k, span, true);
        let m = match rng.below(4) {
            0 => 0,
            1 if !cs.is_empty() => rng.pick(&cs).1.saturating_sub(rng.below(2)),
            _ => rng.below(span + 2),
        };
        w.push("opta", vec![m.to_string(), fmt_chunks(&cs)]);
    }
    let n = if thorough { 4000 } else { 200 };
    for _ in 0..n {
        let k = rng.range(1, 14) as usize;
        let span = *rng.pick(&[4u64, 8, 16, 60]);
        let cs = gen_chunk_list_any(rng, k, span, false);
        let m = if rng.chance(1, 3) { 0 } else { rng.below(span + 2) };
        // the retained chunks sorted by start, equal starts in a random order
        let mut keyed: Vec<(u64, u64, (u64, u64))> =
            cs.iter().filter(|c| c.1 > m).map(|&c| (c.0, rng.next(), c)).collect();
        keyed.sort();
        let sorted: Vec<(u64, u64)> = keyed.into_iter().map(|k| k.2).collect();
        w.push("optp", vec![m.to_string(), fmt_chunks(&cs), fmt_chunks(&sorted)]);
    }
    let n = if thorough { 3000 } else { 150 };
    for _ in 0..n {
        // file-order chunk sequences: starts and ends non-decreasing
        let k = rng.range(0, 12) as usize;
        let mut cs = Vec::new();
        let (mut s, mut e) = (rng.below(5), 0u64);
        for _ in 0..k {
            s += rng.below(6);
            e = e.max(s) + rng.range(1, 5);
            cs.push((s, e));
            if rng.chance(1, 2) {
                s = e + rng.below(3); // adjacent or gap
            }
        }
        w.push("addc", vec![fmt_chunks(&cs)]);
    }
    // hostile but well-formed CSI references
    let n = if thorough { 3000 } else { 200 };
    for i in 0..n {
        let &(ms, d) = rng.pick(&[(14u64, 5u64), (14, 1), (4, 2), (14, 0), (1, 0), (3, 3), (20, 4)]);
        let lim = ((1u64 << ((d + 1) * 3)) - 1) / 7; // max_id: ids below it are in the scheme
        let mut ids: Vec<u64> = Vec::new();
        let outside = i % 3 != 0;
        for _ in 0..rng.range(1, 5) {
            let mut id = match rng.below(6) {
                0 => rng.below(lim.min(10)),
                1 => lim - 1 - rng.below(lim.min(3)),
                // outside the geometry: max_id itself, beyond the metadata id, a "child" of a leaf bin
                2 if outside => {
                    let opts = [lim, lim + 2, lim + 2 + rng.below(40), 8 * (lim - 1 - rng.below(lim.min(8))) + 1 + rng.below(8)];
                    *rng.pick(&opts)
                }
                3 if outside => lim + 2 + rng.below(8 * lim + 8),
                _ => rng.below(lim),
            };
            loop {
                if id != lim + 1 && !ids.contains(&id) {
                    ids.push(id);
                }
                if id == 0 || rng.chance(1, 3) {
                    break;
                }
                id = (id - 1) / 8;
            }
        }
        for k in (1..ids.len()).rev() {
            let j = rng.below(k as u64 + 1) as usize;
            ids.swap(k, j);
        }
        let span = *rng.pick(&[40u64, 400, 4000]);
        let bins: Vec<String> = ids
            .iter()
            .map(|id| {
                let k = rng.below(4) as usize;
                let cs = gen_chunk_list_any(rng, k, span, false);
                format!("{id}={}={}", rng.below(span), fmt_chunks(&cs))
            })
            .collect();
        let qs: Vec<String> = (0..6)
            .map(|_| {
                let (s, e) = gen_interval(rng, ms, d);
                format!("{s}:{e}")
            })
            .collect();
        w.push("csih", vec![ms.to_string(), d.to_string(), if bins.is_empty() { "_".into() } else { bins.join(";") }, qs.join(",")]);
    }
    let n = if thorough { 600 } else { 60 };
    for i in 0..n {
        let kind = ["bai", "csi", "tbi"][i % 3];
        w.push("idxrt", vec![kind.into(), rng.next().to_string()]);
    }
    // CSI loffsets after write+read vs the model of the writer's ancestor-chain minimum
    let n = if thorough { 3000 } else { 150 };
    for _ in 0..n {
        let &(ms, d) = rng.pick(&[(14u64, 5u64), (14, 5), (12, 4), (3, 2), (2, 3), (16, 3)]);
        let maxp = max_position(ms, d);
        let k = rng.range(0, 14);
        let mut recs = Vec::new();
        let mut off = if rng.chance(1, 3) { 0 } else { rng.below(1000) };
        let mut s0 = rng.range(1, maxp);
        if rng.chance(1, 2) {
            s0 = rng.range(1, (1u64 << ms) * 3).min(maxp);
        }
        for _ in 0..k {
            let sh = rng.below(ms + 3 * d);
            s0 = (s0 + rng.below(1 + (maxp >> sh))).min(maxp);
            let sh2 = rng.below(ms + 3 * d);
            let e = (s0 + rng.below(1 + (maxp >> sh2))).min(maxp);
            let a = off;
            off += rng.range(1, 5000);
            recs.push(format!("{s0}:{e}:{a}:{off}"));
        }
        w.push("csil", vec![ms.to_string(), d.to_string(), if recs.is_empty() { "_".into() } else { recs.join(",") }]);
    }
    // arbitrary structurally valid BAI / gzi indexes (modelled byte for byte), fai / crai (oracle)
    let n = if thorough { 3000 } else { 150 };
    for _ in 0..n {
        gen_bai_case(rng, w);
    }
    for _ in 0..n {
        let k = rng.range(0, 8) as usize;
        let big = rng.chance(1, 4);
        let cs: Vec<(u64, u64)> = (0..k)
            .map(|_| if big { (rng.next(), rng.next()) } else { (rng.below(1 << 20), rng.below(1 << 24)) })
            .collect();
        w.push("gzi", vec![fmt_chunks(&cs)]);
    }
    // gzik: ARBITRARY bytes through the gzi readers (sync + async), exact io::ErrorKind compared with
    // the model: declared count equal to / below / above / far above (up to u64::MAX) the number of
    // 16-byte entries present, partial entries, partial count field, empty input, trailing bytes
    for _ in 0..(if thorough { 4000 } else { 250 }) {
        let k = rng.below(7);
        let declared: u64 = match rng.below(8) {
            0 | 1 | 2 => k,
            3 => k + rng.range(1, 3),
            4 => k.saturating_sub(rng.range(1, 2)),
            5 => rng.next(),
            6 => u64::MAX - rng.below(3),
            _ => (1u64 << (8 * rng.range(1, 7))) | k,
        };
        let mut bs = declared.to_le_bytes().to_vec();
        let big = rng.chance(1, 3);
        for _ in 0..(2 * k) {
            let v = if big { rng.next() } else { rng.below(1 << 24) };
            bs.extend_from_slice(&v.to_le_bytes());
        }
        match rng.below(6) {
            0 => {
                let m = rng.range(1, 15) as usize; // partial entry or trailing data
                bs.extend(rng.bytes(m));
            }
            1 => {
                let m = rng.range(16, 40) as usize;
                bs.extend(rng.bytes(m));
            }
            2 => {
                let cut = rng.below(bs.len() as u64 + 1) as usize; // truncation anywhere (incl. inside the count)
                bs.truncate(cut);
            }
            _ => {}
        }
        w.push("gzik", vec![nv::hex(&bs)]);
    }
    for i in 0..n {
        w.push(if i % 2 == 0 { "fai" } else { "crai" }, vec![rng.next().to_string()]);
    }
    // CSI / tabix byte layouts: structured indexes through the real writer and reader, and raw
    // payloads (with anomalies) through the real reader; all compared with NV.Index.CsiLayout
    let n = if thorough { 4000 } else { 200 };
    for _ in 0..n {
        c17_layout::gen_csiw(rng, w);
        c17_layout::gen_tbiw(rng, w);
        c17_layout::gen_csir(rng, w);
        c17_layout::gen_tbir(rng, w);
    }
    // fai / crai text layouts: records through the real writer and reader, and raw texts (with
    // anomalies) through the real reader; compared with NV.Index.TextIndex
    for _ in 0..n {
        c17_layout::gen_faiw(rng, w);
        c17_layout::gen_fair(rng, w);
        c17_layout::gen_craiw(rng, w);
        c17_layout::gen_crair(rng, w);
    }
}

fn gen_u64(rng: &mut Rng) -> u64 {
    match rng.below(5) {
        0 => rng.below(100),
        1 => rng.below(1 << 32),
        2 => u64::MAX - rng.below(3),
        3 => 1u64 << rng.below(64),
        _ => rng.next(),
    }
}

fn gen_bai_case(rng: &mut Rng, w: &mut CaseWriter) {
    let nref = rng.range(0, 3);
    let mut refs = Vec::new();
    for _ in 0..nref {
        let nb = rng.range(0, 5);
        let mut ids: Vec<u64> = Vec::new();
        while (ids.len() as u64) < nb {
            let id = match rng.below(4) {
                0 => rng.below(10),
                1 => 37449 - rng.below(3),
                2 => 4681 + rng.below(32768),
                _ => rng.below(37450),
            };
            if !ids.contains(&id) {
                ids.push(id);
            }
        }
        let bins: Vec<String> = ids
            .iter()
            .map(|id| {
                let k = rng.range(0, 3) as usize;
                let cs: Vec<(u64, u64)> = (0..k)
                    .map(|i| if i == 0 && rng.chance(1, 4) { (0, gen_u64(rng)) } else { (gen_u64(rng), gen_u64(rng)) })
                    .collect();
                format!("{id}={}", fmt_chunks(&cs))
            })
            .collect();
        let meta = if rng.chance(1, 2) {
            format!("{}:{}:{}:{}", gen_u64(rng), gen_u64(rng), gen_u64(rng), gen_u64(rng))
        } else {
            "-".into()
        };
        let ni = rng.range(0, 5);
        let ivs: Vec<String> = (0..ni).map(|_| gen_u64(rng).to_string()).collect();
        refs.push(format!(
            "{}|{}|{}",
            if bins.is_empty() { "_".into() } else { bins.join(";") },
            meta,
            if ivs.is_empty() { "_".into() } else { ivs.join(",") }
        ));
    }
    let unplaced = if rng.chance(1, 2) { gen_u64(rng).to_string() } else { "-".into() };
    w.push("bai", vec![unplaced, if refs.is_empty() { "_".into() } else { refs.join("/") }]);
}

// -------------------------------------------------------------------------------------------
// running

fn run_sweep(ms: u64, d: u64) -> Obs {
    let maxp = max_position(ms, d);
    let full = full_refseq(d as u8);
    let (mut h1, mut h2, mut n) = (0u64, 0u64, 0u64);
    for s in 1..=maxp {
        for e in s..=maxp {
            h1 = mix(h1, impl_reg2bin(ms as u8, d as u8, s, e));
            for id in impl_reg2bins(&full, ms as u8, d as u8, s, e) {
                h2 = mix(h2, id);
            }
            h2 = mix(h2, MASK);
            n += 1;
        }
    }
    Obs::ok(format!("{n} {h1} {h2}"), true)
}

fn run_pairs(ms: u64, d: u64, seed: u64) -> Obs {
    let maxp = max_position(ms, d);
    let full = full_refseq(d.min(3) as u8);
    let exhaustive = seed == 0;
    let check = |fs: u64, fe: u64, rs: u64, re: u64| -> Result<(), (String, String)> {
        let b = impl_reg2bin(ms as u8, d as u8, fs, fe);
        // the feature's bin must be present in the map for the query to be able to select it
        let mut w = window_refseq(ms, d, rs, re);
        if d <= 3 {
            w = full.clone();
        } else if !w.bins().contains_key(&(b as usize)) {
            let mut bins = w.bins().clone();
            bins.insert(b as usize, Bin::new(vec![Chunk::new(VP::from(b), VP::from(b + 1))]));
            w = ReferenceSequence::new(bins, BinnedIndex::default(), None);
        }
        let bins = impl_reg2bins(&w, ms as u8, d as u8, rs, re);
        if bins.binary_search(&b).is_err() {
            return Err((
                "reg2bin-not-in-reg2bins".into(),
                format!("ms={ms} d={d} feature={fs}-{fe} bin={b} region={rs}-{re} bins={bins:?}"),
            ));
        }
        Ok(())
    };
    let mut n = 0u64;
    if exhaustive {
        // all feature intervals x all region intervals that intersect them (bounded enumeration)
        let mut tbl: Vec<Vec<u64>> = Vec::new(); // reg2bin per (s,e)
        for s in 1..=maxp {
            tbl.push((s..=maxp).map(|e| impl_reg2bin(ms as u8, d as u8, s, e)).collect());
        }
        for rs in 1..=maxp {
            for re in rs..=maxp {
                let bins = impl_reg2bins(&full, ms as u8, d as u8, rs, re);
                let max_id = Bin::max_id(d as u8);
                let mut set = vec![false; max_id + 1];
                for &b in &bins {
                    set[b as usize] = true;
                }
                for fs in 1..=re {
                    for fe in fs.max(rs)..=maxp {
                        n += 1;
                        let b = tbl[(fs - 1) as usize][(fe - fs) as usize];
                        if !set[b as usize] {
                            return Obs::fail(
                                "-",
                                "reg2bin-not-in-reg2bins",
                                format!("ms={ms} d={d} feature={fs}-{fe} bin={b} region={rs}-{re}"),
                            );
                        }
                    }
                }
            }
        }
    } else {
        let mut rng = Rng::new(seed);
        for _ in 0..(if d >= 6 { 60 } else { 300 }) {
            let (fs, fe) = gen_interval(&mut rng, ms, d);
            // a region that intersects: choose a point inside the feature and grow around it
            let p = rng.range(fs, fe);
            let (qs, qe) = gen_interval(&mut rng, ms, d);
            let rs = qs.min(p);
            let re = qe.max(p).min(rs + (1u64 << ms) * 2000);
            let re = re.max(p);
            n += 1;
            if let Err((t, m)) = check(fs, fe, rs, re) {
                return Obs::fail("-", &t, m);
            }
        }
    }
    let mut o = Obs::ok("-", true);
    o.verdict = "ok".into();
    let _ = n;
    o
}

/// c17_optimize_chunks_any, the shape part: every output start / end is the start / end of a retained
/// input chunk, and the output is not longer than the retained list
fn check_opt_shape(input: &[(u64, u64)], m: u64, out: &[(u64, u64)]) -> Result<(), (String, String)> {
    let kept: Vec<(u64, u64)> = input.iter().copied().filter(|c| c.1 > m).collect();
    for o in out {
        if !kept.iter().any(|c| c.0 == o.0) || !kept.iter().any(|c| c.1 == o.1) {
            return Err(("optimize-invents-endpoint".into(), format!("m={m} in={input:?} out={out:?}")));
        }
    }
    if out.len() > kept.len() {
        return Err(("optimize-longer-than-input".into(), format!("m={m} in={input:?} out={out:?}")));
    }
    Ok(())
}

fn check_opt(input: &[(u64, u64)], m: u64, out: &[(u64, u64)]) -> Result<(), (String, String)> {
    // (1) nothing retained is uncovered; (2) nothing new is covered; (3) sorted and separated
    let pts: Vec<u64> = input
        .iter()
        .flat_map(|&(a, b)| [a, b.saturating_sub(1), b, a.saturating_sub(1), (a + b) / 2])
        .collect();
    let cov = |cs: &[(u64, u64)], v: u64, m: Option<u64>| {
        cs.iter().any(|&(a, b)| a <= v && v < b && m.is_none_or(|m| b > m))
    };
    for &v in &pts {
        let want = cov(input, v, Some(m));
        let got = cov(out, v, None);
        if want && !got {
            return Err(("optimize-uncovers".into(), format!("m={m} in={input:?} out={out:?} v={v}")));
        }
        if got && !want {
            return Err(("optimize-adds-coverage".into(), format!("m={m} in={input:?} out={out:?} v={v}")));
        }
    }
    for w in out.windows(2) {
        if !(w[0].1 < w[1].0) {
            return Err(("optimize-not-separated".into(), format!("m={m} in={input:?} out={out:?}")));
        }
    }
    Ok(())
}

/// An arbitrary tabix / CSI-aux header: any format, column indices in any order, any comment
/// prefix and skip count, names with any bytes except NUL.
fn gen_header(rng: &mut Rng, nref: usize) -> Header {
    use noodles_csi::binning_index::index::header::{Builder as HB, Format, format::CoordinateSystem};
    let names: Vec<Vec<u8>> = (0..nref)
        .map(|i| {
            let k = rng.range(0, 6) as usize;
            let mut n: Vec<u8> = rng.bytes(k).into_iter().filter(|&b| b != 0).collect();
            n.extend_from_slice(format!("r{i}").as_bytes());
            n
        })
        .collect();
    let fmt = match rng.below(4) {
        0 => Format::Sam,
        1 => Format::Vcf,
        2 => Format::Generic(CoordinateSystem::Gff),
        _ => Format::Generic(CoordinateSystem::Bed),
    };
    let generic = matches!(fmt, Format::Generic(_));
    let seq_col = rng.below(12) as usize;
    let start_col = rng.below(12) as usize;
    // SAM and VCF have no end column; for generic formats the end column may come before or
    // after the start column (tabix -s 1 -b 5 -e 3). An end column equal to the start column is
    // the format's own encoding of "none", so it is not generated as Some.
    let end_col = if generic && rng.chance(3, 4) {
        let mut e = rng.below(12) as usize;
        if e == start_col {
            e = (e + 1 + rng.below(5) as usize) % 12;
            if e == start_col {
                e = (e + 1) % 13;
            }
        }
        Some(e)
    } else {
        None
    };
    HB::default()
        .set_format(fmt)
        .set_reference_sequence_name_index(seq_col)
        .set_start_position_index(start_col)
        .set_end_position_index(end_col)
        .set_line_comment_prefix(*rng.pick(&[b'#', b'@', b'>', 0x01, 0xff, b' ']))
        .set_line_skip_count(*rng.pick(&[0u32, 1, 2, 100, i32::MAX as u32]))
        .set_reference_sequence_names(names.into_iter().map(|n| n.into()).collect())
        .build()
}

fn run_idxrt(kind: &str, seed: u64) -> Obs {
    let mut rng = Rng::new(seed);
    let nref = rng.range(0, 3) as usize;
    let (ms, d) = if kind == "csi" && rng.chance(1, 2) {
        *rng.pick(&[(14u8, 5u8), (12, 4), (14, 6), (3, 2), (16, 3)])
    } else {
        (14u8, 5u8)
    };
    let maxp = max_position(ms as u64, d as u64);
    // build through the indexer with file-ordered records
    fn build<I>(rng: &mut Rng, ms: u8, d: u8, nref: usize, maxp: u64, hdr: Option<Header>) -> binning_index::Index<I>
    where
        I: binning_index::index::reference_sequence::Index + Default,
    {
        let mut ix = Indexer::<I>::new(ms, d);
        if let Some(h) = hdr {
            ix = ix.set_header(h);
        }
        // first record at virtual position 0 in a third of the cases
        let mut off = if rng.chance(1, 3) { 0 } else { rng.below(1 << 20) };
        for r in 0..nref {
            if rng.chance(1, 5) {
                continue; // empty reference
            }
            let mut s = rng.range(1, 1000.min(maxp));
            for _ in 0..rng.range(1, 12) {
                s = (s + rng.below(1 + maxp / 8)).min(maxp);
                let sh = rng.below(20);
                let e = (s + rng.below(1 + (maxp >> sh))).min(maxp);
                let a = off;
                off += rng.range(1, 70000);
                ix.add_record(
                    Some((r, pos(s), pos(e), rng.chance(9, 10))),
                    Chunk::new(VP::from(a), VP::from(off)),
                )
                .unwrap();
            }
        }
        for _ in 0..rng.below(4) {
            ix.add_record(None, Chunk::new(VP::from(off), VP::from(off + 1))).unwrap();
        }
        ix.build(nref)
    }
    let queries = |rng: &mut Rng| -> Vec<(usize, u64, u64)> {
        (0..12)
            .map(|_| {
                let (s, e) = gen_interval(rng, ms as u64, d as u64);
                (rng.below(nref.max(1) as u64) as usize, s, e)
            })
            .collect()
    };
    fn answers<X: BinningIndex>(ix: &X, qs: &[(usize, u64, u64)]) -> Vec<String> {
        qs.iter()
            .map(|&(r, s, e)| match ix.query(r, (pos(s)..=pos(e)).into()) {
                Ok(cs) => format!("{:?}", from_chunks(&cs)),
                Err(e) => format!("err {:?}", e.kind()),
            })
            .collect()
    }
    match kind {
        "bai" => {
            let index: bai::Index = build::<LinearIndex>(&mut rng, ms, d, nref, maxp, None);
            let mut buf = Vec::new();
            if let Err(e) = bai::io::Writer::new(&mut buf).write_index(&index) {
                return Obs::fail("-", "bai-write-error", format!("{e}"));
            }
            let back = match bai::io::Reader::new(&buf[..]).read_index() {
                Ok(i) => i,
                Err(e) => return Obs::fail("-", "bai-read-error", format!("seed={seed} {e}")),
            };
            let qs = queries(&mut rng);
            // the async reader: the same index (all fields) and the same query answers
            match c17_layout::async_bai(buf.clone()) {
                Ok(a) if a == back && answers(&a, &qs) == answers(&back, &qs) => {}
                Ok(_) => return Obs::fail("-", "bai-async-reader-differs-from-sync", format!("seed={seed}")),
                Err(e) => return Obs::fail("-", "bai-async-read-error", format!("seed={seed} {e}")),
            }
            if back != index && answers(&back, &qs) != answers(&index, &qs) {
                return Obs::fail("-", "bai-roundtrip-differs", format!("seed={seed}"));
            }
            if back != index {
                return Obs::fail("-", "bai-roundtrip-not-equal", format!("seed={seed}"));
            }
            Obs::ok("-", nref > 0)
        }
        "csi" => {
            let hdr = match rng.below(3) {
                0 => Some(csi::binning_index::index::header::Builder::vcf().build()),
                1 => Some(gen_header(&mut rng, nref)),
                _ => None,
            };
            let index: csi::Index = build::<BinnedIndex>(&mut rng, ms, d, nref, maxp, hdr);
            let mut w = csi::io::Writer::new(Vec::new());
            if let Err(e) = w.write_index(&index) {
                return Obs::fail("-", "csi-write-error", format!("{e}"));
            }
            let buf = w.into_inner().finish().unwrap();
            let back = match csi::io::Reader::new(Cursor::new(buf.clone())).read_index() {
                Ok(i) => i,
                Err(e) => return Obs::fail("-", "csi-read-error", format!("seed={seed} {e}")),
            };
            let qs = queries(&mut rng);
            // the async reader: the same index (all fields, loffsets equal to 0 included) and the
            // same query answers
            match c17_layout::async_csi(buf) {
                Ok(x) if x == back && answers(&x, &qs) == answers(&back, &qs) => {}
                Ok(x) => {
                    return Obs::fail(
                        "-",
                        "csi-async-reader-differs-from-sync",
                        format!("seed={seed} sync={} async={}", c17_layout::fmt_csi_res(&Ok(back)), c17_layout::fmt_csi_res(&Ok(x))),
                    );
                }
                Err(e) => return Obs::fail("-", "csi-async-read-error", format!("seed={seed} {e}")),
            }
            let (a, b) = (answers(&index, &qs), answers(&back, &qs));
            if a != b {
                // Is this exactly the known cause?  The CSI writer stores, for each bin, the minimum
                // loffset over the bin and its chain of present ancestors instead of the bin's own
                // value (io/writer/index/reference_sequences/bins.rs::first_record_start_position).
                // Recompute that on the original index here; if that alone explains the new
                // answers the failure is of the known class, otherwise it is a different one.
                use binning_index::ReferenceSequence as _;
                let rss: Vec<ReferenceSequence<BinnedIndex>> = index
                    .reference_sequences()
                    .iter()
                    .map(|rs| {
                        let old = rs.index();
                        let new: BinnedIndex = rs
                            .bins()
                            .keys()
                            .map(|&id| {
                                let mut m = old.get(&id).copied().unwrap_or_default();
                                let mut cur = id;
                                while cur > 0 {
                                    let p = (cur - 1) / 8;
                                    match old.get(&p) {
                                        Some(v) => {
                                            if *v < m {
                                                m = *v;
                                            }
                                        }
                                        None => break,
                                    }
                                    cur = p;
                                }
                                (id, m)
                            })
                            .collect();
                        ReferenceSequence::new(rs.bins().clone(), new, rs.metadata().cloned())
                    })
                    .collect();
                let chain_min: csi::Index = binning_index::Index::builder()
                    .set_min_shift(ms)
                    .set_depth(d)
                    .set_reference_sequences(rss)
                    .build();
                let tag = if answers(&chain_min, &qs) == b {
                    "csi-writer-chain-min-loffset"
                } else {
                    "csi-roundtrip-query-differs"
                };
                return Obs::fail("-", tag, format!("seed={seed} before={a:?} after={b:?}"));
            }
            // everything but the per-bin loffsets must be equal
            let same_shape = index.min_shift() == back.min_shift()
                && index.depth() == back.depth()
                && index.header() == back.header()
                && index.unplaced_unmapped_record_count() == back.unplaced_unmapped_record_count()
                && index.reference_sequences().len() == back.reference_sequences().len()
                && index
                    .reference_sequences()
                    .iter()
                    .zip(back.reference_sequences())
                    .all(|(x, y)| {
                        use binning_index::ReferenceSequence as _;
                        x.bins() == y.bins() && x.metadata() == y.metadata()
                    });
            if !same_shape {
                return Obs::fail("-", "csi-roundtrip-shape-differs", format!("seed={seed}"));
            }
            Obs::ok("-", nref > 0)
        }
        _ => {
            // tabix: arbitrary header (format, columns in any order, names with any bytes except NUL)
            let hdr = gen_header(&mut rng, nref);
            let index: tabix::Index = build::<LinearIndex>(&mut rng, ms, d, nref, maxp, Some(hdr));
            let mut w = tabix::io::Writer::new(Vec::new());
            if let Err(e) = w.write_index(&index) {
                return Obs::fail("-", "tbi-write-error", format!("seed={seed} {e}"));
            }
            let buf = w.into_inner().finish().unwrap();
            let back = match tabix::io::Reader::new(Cursor::new(buf.clone())).read_index() {
                Ok(i) => i,
                Err(e) => return Obs::fail("-", "tbi-read-error", format!("seed={seed} {e}")),
            };
            let qs = queries(&mut rng);
            match c17_layout::async_tbi(buf) {
                Ok(a) if a == back && answers(&a, &qs) == answers(&back, &qs) => {}
                Ok(_) => return Obs::fail("-", "tbi-async-reader-differs-from-sync", format!("seed={seed}")),
                Err(e) => return Obs::fail("-", "tbi-async-read-error", format!("seed={seed} {e}")),
            }
            if answers(&back, &qs) != answers(&index, &qs) {
                return Obs::fail("-", "tbi-roundtrip-differs", format!("seed={seed}"));
            }
            if back != index {
                return Obs::fail("-", "tbi-roundtrip-not-equal", format!("seed={seed}"));
            }
            Obs::ok("-", nref > 0)
        }
    }
}

/// CSI loffsets as they read back: records s:e:a:b (one reference, file order) through the
/// Indexer, the CSI writer and the CSI reader; obs = id=loffset per bin in bin order.
fn run_csil(c: &Case) -> Obs {
    let (ms, d) = (c.u(0) as u8, c.u(1) as u8);
    let recs: Vec<Vec<u64>> = if c.args[2] == "_" {
        vec![]
    } else {
        c.args[2].split(',').map(|r| r.split(':').map(|x| x.parse().unwrap()).collect()).collect()
    };
    let mut ix = Indexer::<BinnedIndex>::new(ms, d);
    for r in &recs {
        ix.add_record(Some((0, pos(r[0]), pos(r[1]), true)), Chunk::new(VP::from(r[2]), VP::from(r[3]))).unwrap();
    }
    let index: csi::Index = ix.build(1);
    let mut w = csi::io::Writer::new(Vec::new());
    if let Err(e) = w.write_index(&index) {
        return Obs::fail(format!("Err:{:?}", e.kind()), "csi-write-error", format!("{e}"));
    }
    let buf = w.into_inner().finish().unwrap();
    let back = match csi::io::Reader::new(Cursor::new(buf.clone())).read_index() {
        Ok(i) => i,
        Err(e) => return Obs::fail("Err", "csi-read-error", format!("{e} {}", c.line())),
    };
    match c17_layout::async_csi(buf) {
        Ok(x) if x == back => {}
        other => {
            return Obs::fail(
                "-",
                "csi-async-reader-differs-from-sync",
                format!("sync={} async={} {}", c17_layout::fmt_csi_res(&Ok(back)), c17_layout::fmt_csi_res(&other), c.line()),
            );
        }
    }
    let rs = &back.reference_sequences()[0];
    let obs: Vec<String> = rs
        .bins()
        .keys()
        .map(|id| format!("{id}={}", rs.index().get(id).map(|v| u64::from(*v)).unwrap_or(0)))
        .collect();
    Obs::ok(if obs.is_empty() { "_".into() } else { obs.join(",") }, recs.len() >= 3)
}

fn run_csih(c: &Case) -> Obs {
    let (ms, d) = (c.u(0) as u8, c.u(1) as u8);
    let mut bins: IndexMap<usize, Bin> = IndexMap::new();
    let mut loffs = BinnedIndex::new();
    if c.args[2] != "_" {
        for b in c.args[2].split(';') {
            let f: Vec<&str> = b.split('=').collect();
            let id: usize = f[0].parse().unwrap();
            bins.insert(id, Bin::new(to_chunks(&parse_chunks(f[2]))));
            loffs.insert(id, VP::from(f[1].parse::<u64>().unwrap()));
        }
    }
    let lim = ((1u64 << ((d as u64 + 1) * 3)) - 1) / 7;
    let outside = bins.keys().any(|&id| id as u64 >= lim);
    let qs = parse_chunks(&c.args[3]);
    let index: csi::Index = binning_index::Index::<BinnedIndex>::builder()
        .set_min_shift(ms)
        .set_depth(d)
        .set_reference_sequences(vec![ReferenceSequence::new(bins, loffs, None)])
        .build();
    let answers = |ix: &csi::Index| -> Vec<Option<Vec<(u64, u64)>>> {
        qs.iter().map(|&(s, e)| ix.query(0, (pos(s)..=pos(e)).into()).ok().map(|cs| from_chunks(&cs))).collect()
    };
    let mut w = csi::io::Writer::new(Vec::new());
    if let Err(e) = w.write_index(&index) {
        return Obs::fail(format!("Err:{:?}", e.kind()), "csi-write-error", format!("{e} {}", c.line()));
    }
    let buf = w.into_inner().finish().unwrap();
    let back = match csi::io::Reader::new(Cursor::new(buf.clone())).read_index() {
        Ok(i) => i,
        Err(e) => return Obs::fail("Err", "csi-read-error", format!("{e} {}", c.line())),
    };
    match c17_layout::async_csi(buf) {
        Ok(x) if x == back => {}
        other => {
            return Obs::fail(
                "-",
                "csi-async-reader-differs-from-sync",
                format!("sync={} async={} {}", c17_layout::fmt_csi_res(&Ok(back)), c17_layout::fmt_csi_res(&other), c.line()),
            );
        }
    }
    let (before, after) = (answers(&index), answers(&back));
    let f = |a: &Option<Vec<(u64, u64)>>| a.as_ref().map(|cs| fmt_chunks(cs)).unwrap_or_else(|| "Err".into());
    let obs: Vec<String> = before.iter().zip(&after).map(|(b, a)| format!("{}>{}", f(b), f(a))).collect();
    let obs = Obs::ok(obs.join("|"), index.reference_sequences()[0].bins().len() >= 2);
    for (b, a) in before.iter().zip(&after) {
        match (b, a) {
            (Some(b), Some(a)) => {
                // nothing the original answer covered is lost (c17_csi_reread_query_covers_any)
                let cov = |cs: &[(u64, u64)], v: u64| cs.iter().any(|&(x, y)| x <= v && v < y);
                for &(x, y) in b {
                    for v in [x, y.saturating_sub(1), (x + y) / 2] {
                        if cov(b, v) && !cov(a, v) {
                            return obs.with_verdict(Err(("csi-reread-query-loses-coverage".into(), c.line())));
                        }
                    }
                }
                if b != a {
                    let tag = if outside { "csi-bin-outside-geometry-reread-query-grows" } else { "csi-reread-query-differs" };
                    return obs.with_verdict(Err((tag.into(), format!("before={b:?} after={a:?} {}", c.line()))));
                }
            }
            (None, None) => {}
            _ => return obs.with_verdict(Err(("csi-reread-query-error-differs".into(), c.line()))),
        }
    }
    obs
}

fn run_bai(c: &Case) -> Obs {
    use noodles_csi::binning_index::index::reference_sequence::Metadata;
    let unplaced: Option<u64> = if c.args[0] == "-" { None } else { Some(c.args[0].parse().unwrap()) };
    let mut rss: Vec<ReferenceSequence<LinearIndex>> = Vec::new();
    if c.args[1] != "_" {
        for r in c.args[1].split('/') {
            let f: Vec<&str> = r.split('|').collect();
            let bins: IndexMap<usize, Bin> = if f[0] == "_" {
                IndexMap::new()
            } else {
                f[0].split(';')
                    .map(|b| {
                        let (id, cs) = b.split_once('=').unwrap();
                        (id.parse().unwrap(), Bin::new(to_chunks(&parse_chunks(cs))))
                    })
                    .collect()
            };
            let meta = if f[1] == "-" {
                None
            } else {
                let m: Vec<u64> = f[1].split(':').map(|x| x.parse().unwrap()).collect();
                Some(Metadata::new(VP::from(m[0]), VP::from(m[1]), m[2], m[3]))
            };
            let ivs: LinearIndex = if f[2] == "_" { vec![] } else { f[2].split(',').map(|x| VP::from(x.parse::<u64>().unwrap())).collect() };
            rss.push(ReferenceSequence::new(bins, ivs, meta));
        }
    }
    let nontrivial = !rss.is_empty();
    let mut b = binning_index::Index::<LinearIndex>::builder().set_reference_sequences(rss);
    if let Some(n) = unplaced {
        b = b.set_unplaced_unmapped_record_count(n);
    }
    let index: bai::Index = b.build();
    let mut buf = Vec::new();
    if let Err(e) = bai::io::Writer::new(&mut buf).write_index(&index) {
        return Obs::fail(format!("Err:{:?}", e.kind()), "bai-write-error", format!("{e}"));
    }
    match c17_layout::async_bai(buf.clone()) {
        Ok(a) if a == index => {}
        Ok(_) => return Obs::fail(format!("{} same", nv::hex(&buf)), "bai-async-roundtrip-not-equal", c.line()),
        Err(e) => return Obs::fail(format!("{} same", nv::hex(&buf)), "bai-async-read-error", format!("{e} {}", c.line())),
    }
    match bai::io::Reader::new(&buf[..]).read_index() {
        Ok(back) if back == index => Obs::ok(format!("{} same", nv::hex(&buf)), nontrivial),
        Ok(_) => Obs::fail(format!("{} different", nv::hex(&buf)), "bai-roundtrip-not-equal", c.line()),
        Err(e) => Obs::fail(format!("{} Err", nv::hex(&buf)), "bai-read-error", format!("{e} {}", c.line())),
    }
}

fn run_gzi(c: &Case) -> Obs {
    use noodles_bgzf::gzi;
    let cs = parse_chunks(&c.args[0]);
    let index = gzi::Index::from(cs.clone());
    let mut buf = Vec::new();
    if let Err(e) = gzi::io::Writer::new(&mut buf).write_index(&index) {
        return Obs::fail(format!("Err:{:?}", e.kind()), "gzi-write-error", format!("{e}"));
    }
    let back = gzi::io::Reader::new(&buf[..]).read_index();
    let mut with_trailing = buf.clone();
    with_trailing.push(0);
    let trailing = match gzi::io::Reader::new(&with_trailing[..]).read_index() {
        Ok(_) => "accepted",
        Err(_) => "Err",
    };
    match c17_layout::async_gzi(buf.clone()) {
        Ok(a) if a == index => {}
        Ok(_) => return Obs::fail("-", "gzi-async-roundtrip-not-equal", c.line()),
        Err(e) => return Obs::fail("-", "gzi-async-read-error", format!("{e} {}", c.line())),
    }
    match back {
        Ok(b) if b == index => Obs::ok(format!("{} same {trailing}", nv::hex(&buf)), !cs.is_empty()),
        Ok(_) => Obs::fail(format!("{} different {trailing}", nv::hex(&buf)), "gzi-roundtrip-not-equal", c.line()),
        Err(e) => Obs::fail(format!("{} Err {trailing}", nv::hex(&buf)), "gzi-read-error", format!("{e} {}", c.line())),
    }
}

/// arbitrary bytes through gzi::io::Reader::read_index and the async reader: the entries or the exact
/// io::ErrorKind, compared with the model's read_gzi_k; oracle: the closed form of c17_read_gzi_k_total
fn run_gzik(c: &Case) -> Obs {
    use noodles_bgzf::gzi;
    let bs = c.b(0);
    let show = |r: Result<gzi::Index, String>| match r {
        Ok(i) => format!("Ok {}", fmt_chunks(i.as_ref())),
        Err(k) => k,
    };
    let sync = match nv::guarded(|| gzi::io::Reader::new(&bs[..]).read_index()) {
        nv::Outcome::Panicked(m) => return Obs::fail("Panic", "gzi-reader-panic", format!("{m} {}", c.line())),
        nv::Outcome::Done(r) => show(r.map_err(|e| format!("Err:{:?}", e.kind()))),
    };
    let asy = show(c17_layout::async_gzi_kind(bs.clone()));
    if asy != sync {
        return Obs::fail(sync.clone(), "gzi-async-reader-differs-from-sync", format!("sync {sync} async {asy} {}", c.line()));
    }
    // oracle (closed form): length vs 8 + 16 * declared count
    let expect = if bs.len() < 8 {
        "Err:UnexpectedEof"
    } else {
        let n = u64::from_le_bytes(bs[..8].try_into().unwrap()) as u128;
        let need = 8 + 16 * n;
        match (bs.len() as u128).cmp(&need) {
            std::cmp::Ordering::Less => "Err:UnexpectedEof",
            std::cmp::Ordering::Equal => "Ok",
            std::cmp::Ordering::Greater => "Err:InvalidData",
        }
    };
    let verdict = if sync.starts_with(expect) { Ok(()) } else { Err(("gzi-reader-error-kind-not-closed-form".to_string(), format!("expected {expect} got {sync} {}", c.line()))) };
    Obs::ok(sync, bs.len() >= 8).with_verdict(verdict)
}

fn run_fai(seed: u64) -> Obs {
    use noodles_fasta::fai;
    use std::num::NonZero;
    let mut rng = Rng::new(seed);
    let n = rng.range(0, 5);
    let recs: Vec<fai::Record> = (0..n)
        .map(|i| {
            // names: any bytes except TAB / LF / CR (the line and column separators of the format)
            let k = rng.range(1, 6) as usize;
            let mut name: Vec<u8> = if rng.chance(1, 4) {
                // any bytes
                rng.bytes(k).into_iter().filter(|b| !matches!(b, b'\t' | b'\n' | b'\r')).collect()
            } else {
                // printable ASCII and some multi-byte UTF-8
                let mut v = Vec::new();
                for _ in 0..k {
                    match rng.below(8) {
                        0 => v.extend_from_slice("é".as_bytes()),
                        1 => v.extend_from_slice("染".as_bytes()),
                        _ => v.push(rng.range(0x20, 0x7e) as u8),
                    }
                }
                v
            };
            name.extend_from_slice(format!("s{i}").as_bytes());
            let lb = gen_u64(&mut rng).max(1);
            let lw = gen_u64(&mut rng).max(1);
            fai::Record::new(name, gen_u64(&mut rng), gen_u64(&mut rng), NonZero::new(lb).unwrap(), NonZero::new(lw).unwrap())
        })
        .collect();
    let non_utf8 = recs.iter().any(|r| std::str::from_utf8(r.name()).is_err());
    let index = fai::Index::from(recs);
    let mut buf = Vec::new();
    if let Err(e) = fai::io::Writer::new(&mut buf).write_index(&index) {
        return Obs::fail("-", "fai-write-error", format!("seed={seed} {e}"));
    }
    // the async reader must read the written index back equal as well (tagged like the sync
    // reader's class when the name is not UTF-8, so that a recurrence of that defect is one class)
    match c17_layout::async_fai(buf.clone()) {
        Ok(a) if a == index => {}
        Ok(_) => return Obs::fail("-", "fai-async-roundtrip-not-equal", format!("seed={seed}")),
        Err(e) if non_utf8 => return Obs::fail("-", "fai-non-utf8-name", format!("seed={seed} async {e}")),
        Err(e) => return Obs::fail("-", "fai-async-read-error", format!("seed={seed} {e}")),
    }
    match fai::io::Reader::new(&buf[..]).read_index() {
        Ok(back) if back == index => Obs::ok("-", n > 0),
        Ok(_) => Obs::fail("-", "fai-roundtrip-not-equal", format!("seed={seed} text={:?}", String::from_utf8_lossy(&buf))),
        // known class: the fai reader reads lines as UTF-8 `String`s while names are arbitrary bytes
        Err(e) if non_utf8 && e.kind() == std::io::ErrorKind::InvalidData => {
            Obs::fail("-", "fai-non-utf8-name", format!("seed={seed} {e} text={:?}", String::from_utf8_lossy(&buf)))
        }
        Err(e) => Obs::fail("-", "fai-read-error", format!("seed={seed} {e} text={:?}", String::from_utf8_lossy(&buf))),
    }
}

fn run_crai(seed: u64) -> Obs {
    use noodles_cram::crai;
    let mut rng = Rng::new(seed);
    let n = rng.range(0, 6);
    let recs: Vec<crai::Record> = (0..n)
        .map(|_| {
            let (sh1, sh2) = (rng.below(31), rng.below(32));
            let (rid, start, span) = match rng.below(4) {
                0 => (None, None, 0usize),
                _ => (
                    Some(rng.below(1 << sh1) as usize),
                    Position::new(rng.range(1, 1 << 31) as usize),
                    rng.below(1 << sh2) as usize,
                ),
            };
            crai::Record::new(rid, start, span, gen_u64(&mut rng) >> 1, gen_u64(&mut rng) >> 1, gen_u64(&mut rng) >> 1)
        })
        .collect();
    let mut w = crai::io::Writer::new(Vec::new());
    if let Err(e) = w.write_index(&recs) {
        return Obs::fail("-", "crai-write-error", format!("seed={seed} {e}"));
    }
    let buf = match w.finish() {
        Ok(b) => b,
        Err(e) => return Obs::fail("-", "crai-finish-error", format!("seed={seed} {e}")),
    };
    match c17_layout::async_crai(buf.clone()) {
        Ok(a) if a == recs => {}
        Ok(a) => return Obs::fail("-", "crai-async-roundtrip-not-equal", format!("seed={seed} wrote={recs:?} read={a:?}")),
        Err(e) => return Obs::fail("-", "crai-async-read-error", format!("seed={seed} {e} wrote={recs:?}")),
    }
    match crai::io::Reader::new(&buf[..]).read_index() {
        Ok(back) if back == recs => Obs::ok("-", n > 0),
        Ok(back) => Obs::fail("-", "crai-roundtrip-not-equal", format!("seed={seed} wrote={recs:?} read={back:?}")),
        Err(e) => Obs::fail("-", "crai-read-error", format!("seed={seed} {e} wrote={recs:?}")),
    }
}

fn run(c: &Case) -> Obs {
    match c.kind.as_str() {
        "r2b" => {
            let (ms, d, s, e) = (c.u(0), c.u(1), c.u(2), c.u(3));
            Obs::ok(impl_reg2bin(ms as u8, d as u8, s, e).to_string(), s != e)
        }
        "r2bs" => {
            let (ms, d, s, e) = (c.u(0), c.u(1), c.u(2), c.u(3));
            let full = if d <= 3 { full_refseq(d as u8) } else { window_refseq(ms, d, s, e) };
            let ids = impl_reg2bins(&full, ms as u8, d as u8, s, e);
            Obs::ok(ids.iter().map(|i| i.to_string()).collect::<Vec<_>>().join(","), ids.len() > d as usize + 1)
        }
        "sweep" => run_sweep(c.u(0), c.u(1)),
        "pairs" => run_pairs(c.u(0), c.u(1), c.u(2)),
        "opt" => {
            let m = c.u(0);
            let cs = parse_chunks(&c.args[1]);
            let out = from_chunks(&binning_index::optimize_chunks(&to_chunks(&cs), VP::from(m)));
            Obs::ok(fmt_chunks(&out), cs.len() >= 2).with_verdict(check_opt(&cs, m, &out))
        }
        "opta" => {
            let m = c.u(0);
            let cs = parse_chunks(&c.args[1]);
            let out = from_chunks(&binning_index::optimize_chunks(&to_chunks(&cs), VP::from(m)));
            let r = check_opt(&cs, m, &out).and_then(|_| check_opt_shape(&cs, m, &out));
            Obs::ok(fmt_chunks(&out), cs.len() >= 2).with_verdict(r)
        }
        "optp" => {
            let m = c.u(0);
            let cs = parse_chunks(&c.args[1]);
            let sorted = parse_chunks(&c.args[2]);
            // the case is well formed: `sorted` is a permutation of the retained chunks, sorted by start
            let mut a: Vec<_> = cs.iter().copied().filter(|c| c.1 > m).collect();
            let mut b = sorted.clone();
            a.sort();
            b.sort();
            if a != b || sorted.windows(2).any(|w| w[0].0 > w[1].0) || cs.iter().any(|c| c.1 < c.0) {
                return Obs::ok("-", false).with_verdict(Err(("optp-malformed-case".into(), c.args.join(" "))));
            }
            let out = from_chunks(&binning_index::optimize_chunks(&to_chunks(&cs), VP::from(m)));
            let r = check_opt(&cs, m, &out).and_then(|_| check_opt_shape(&cs, m, &out));
            Obs::ok(fmt_chunks(&out), cs.len() >= 2).with_verdict(r)
        }
        "addc" => {
            let cs = parse_chunks(&c.args[0]);
            let mut bin = Bin::new(Vec::new());
            for c in to_chunks(&cs) {
                bin.add_chunk(c);
            }
            let out = from_chunks(bin.chunks());
            // oracle: coverage preserved exactly (inputs are in file order)
            let r = check_opt(&cs, 0, &from_chunks(&binning_index::merge_chunks(bin.chunks())));
            Obs::ok(fmt_chunks(&out), cs.len() >= 2).with_verdict(r)
        }
        "idxrt" => run_idxrt(&c.args[0], c.u(1)),
        "csil" => run_csil(c),
        "csih" => run_csih(c),
        "bai" => run_bai(c),
        "gzi" => run_gzi(c),
        "gzik" => run_gzik(c),
        "fai" => run_fai(c.u(0)),
        "crai" => run_crai(c.u(0)),
        "csiw" => c17_layout::run_csiw(c),
        "csir" => c17_layout::run_csir(c),
        "tbiw" => c17_layout::run_tbiw(c),
        "tbir" => c17_layout::run_tbir(c),
        "faiw" => c17_layout::run_faiw(c),
        "fair" => c17_layout::run_fair(c),
        "craiw" => c17_layout::run_craiw(c),
        "crair" => c17_layout::run_crair(c),
        k => Obs::fail("-", "harness-unknown-kind", k),
    }
}

fn main() {
    nv::main_with(generate, run);
}
