//! C15: corrupt or hostile input is reported as an error, never a panic / hang / abort.
//!
//! Case kinds
//!   mut   <fmt> <op> <a> <b>      base file of <fmt> (c15_files), one mutation of its PAYLOAD, re-sealed
//!                                 (BGZF re-compressed / gzip / CRAM CRC32s recomputed), every reader +
//!                                 every accessor of every Ok record                       (L3 oracle)
//!         ops: sub pos val | trunc len 0 | u32 off val | u16 off val | u64 off val | del pos len |
//!              ins pos val | tok k j | dup pos len
//!   raw   <fmt> <hex payload>     the same with an explicit payload (corpus / minimised cases)
//!   cmut  <codec> <op> <a> <b>    mutation of a valid encoding fed to a CRAM block codec decoder
//!   craw  <codec> <usize> <hex>   arbitrary bytes fed to a CRAM block codec decoder
//!   iq    <kind> <op> <a> <b>     valid BAM / VCF.gz queried through a mutated BAI / CSI / tabix index
//!   iqraw <kind> <hex payload>
//!   seek  <coffset> <uoffset> <how>   BGZF seek to an arbitrary virtual position, then read
//! Modelled kinds (obs compared with coq/theories/Hostile):
//!   dref  <len> <pos>             Data::as_ref after seek: block of <len> bytes, in-block offset <pos>
//!   csiq  <ms> <depth> <binid> <start> <end>   ReferenceSequence::query on an arbitrary geometry / bin id
//!   rfreq <hex>                   rANS 4x8 order-0 frequency table + cumulative table (through decode)
//!
//! Every decode runs on its own thread under catch_unwind with a 5 s watchdog and an allocation
//! guard (a single request above 256 MiB parks the thread and is reported); `run` itself is a
//! supervisor that re-runs chunks of cases in child processes so that an abort cannot take the
//! run down.

use std::{
    alloc::{GlobalAlloc, Layout, System},
    cell::{Cell, RefCell},
    collections::HashMap,
    panic::{self, AssertUnwindSafe},
    sync::{
        Arc, Mutex, Once, OnceLock,
        atomic::{AtomicUsize, Ordering},
        mpsc,
    },
    time::{Duration, Instant},
};

use nv::{Case, CaseWriter, Obs, Rng, hex, unhex};

#[path = "../shared/c15_files.rs"]
mod c15_files;
#[path = "../shared/c15_decode.rs"]
mod c15_decode;
#[path = "../shared/c15_cmate.rs"]
mod c15_cmate;

use c15_files as files;

// ---------------------------------------------------------------------------------------------
// allocation guard

const ALLOC_LIMIT: usize = 256 << 20;

thread_local! {
    static GUARD_FLAG: Cell<*const AtomicUsize> = const { Cell::new(std::ptr::null()) };
}

struct GuardAlloc;

#[inline]
fn check_size(size: usize) {
    if size > ALLOC_LIMIT {
        let p = GUARD_FLAG.with(|c| c.get());
        if !p.is_null() {
            // a decoder thread asked for an absurd amount of memory: report and never return
            unsafe { (*p).store(size, Ordering::SeqCst) };
            loop {
                std::thread::park();
            }
        }
    }
}

unsafe impl GlobalAlloc for GuardAlloc {
    unsafe fn alloc(&self, l: Layout) -> *mut u8 {
        check_size(l.size());
        unsafe { System.alloc(l) }
    }
    unsafe fn alloc_zeroed(&self, l: Layout) -> *mut u8 {
        check_size(l.size());
        unsafe { System.alloc_zeroed(l) }
    }
    unsafe fn realloc(&self, p: *mut u8, l: Layout, n: usize) -> *mut u8 {
        check_size(n);
        unsafe { System.realloc(p, l, n) }
    }
    unsafe fn dealloc(&self, p: *mut u8, l: Layout) {
        unsafe { System.dealloc(p, l) }
    }
}

#[global_allocator]
static ALLOC: GuardAlloc = GuardAlloc;

// ---------------------------------------------------------------------------------------------
// panic site capture

thread_local! {
    static LAST_PANIC: RefCell<Option<(String, u32, String)>> = const { RefCell::new(None) };
}

static HOOK: Once = Once::new();

fn install_hook() {
    HOOK.call_once(|| {
        panic::set_hook(Box::new(|info| {
            let (file, line) = info.location().map(|l| (l.file().to_string(), l.line())).unwrap_or_default();
            let msg = if let Some(s) = info.payload().downcast_ref::<&str>() {
                (*s).to_string()
            } else if let Some(s) = info.payload().downcast_ref::<String>() {
                s.clone()
            } else {
                "panic".to_string()
            };
            if std::env::var("NV_SHOW_PANICS").is_ok() {
                eprintln!("panic at {file}:{line}: {msg}");
            }
            LAST_PANIC.with(|c| *c.borrow_mut() = Some((file, line, msg)));
        }));
    });
}

fn slug(s: &str, max: usize) -> String {
    let mut out = String::new();
    let mut dash = true;
    for ch in s.chars() {
        if ch.is_ascii_alphanumeric() {
            out.push(ch.to_ascii_lowercase());
            dash = false;
        } else if !dash {
            out.push('-');
            dash = true;
        }
        if out.len() >= max {
            break;
        }
    }
    while out.ends_with('-') {
        out.pop();
    }
    out
}

fn source_lines(path: &str) -> Option<Arc<Vec<String>>> {
    static CACHE: OnceLock<Mutex<HashMap<String, Option<Arc<Vec<String>>>>>> = OnceLock::new();
    let m = CACHE.get_or_init(|| Mutex::new(HashMap::new()));
    let mut g = m.lock().unwrap();
    g.entry(path.to_string())
        .or_insert_with(|| std::fs::read_to_string(path).ok().map(|s| Arc::new(s.lines().map(|l| l.to_string()).collect())))
        .clone()
}

/// A stable name for a panic site: crate, file, enclosing fn and the text of the panicking source
/// line (not its number, so that edits elsewhere in the file do not rename the site).
fn site_tag(fmt: &str, file: &str, line: u32, msg: &str) -> String {
    let msg_class: String = msg.chars().filter(|c| !c.is_ascii_digit()).collect();
    if let Some(i) = file.find("noodles-") {
        let rel = &file[i..];
        let (krate, path) = rel.split_once("/src/").unwrap_or((rel, ""));
        let krate = krate.trim_start_matches("noodles-");
        let stem = path.trim_end_matches(".rs").replace('/', "-");
        let mut what = format!("L{line}");
        if let Some(lines) = source_lines(file) {
            let idx = (line as usize).saturating_sub(1);
            if let Some(text) = lines.get(idx) {
                let text = text.trim();
                // enclosing fn and ordinal among identical lines inside it
                let mut fname = "top".to_string();
                let mut fstart = 0;
                for j in (0..=idx).rev() {
                    let l = lines[j].trim_start();
                    let l = l.strip_prefix("pub(crate) ").or(l.strip_prefix("pub(super) ")).or(l.strip_prefix("pub ")).unwrap_or(l);
                    let l = l.strip_prefix("const ").unwrap_or(l);
                    if let Some(rest) = l.strip_prefix("fn ") {
                        fname = rest.chars().take_while(|c| c.is_alphanumeric() || *c == '_').collect();
                        fstart = j;
                        break;
                    }
                }
                let ord = lines[fstart..idx].iter().filter(|l| l.trim() == text).count();
                what = format!("{}-{}", fname, slug(text, 48));
                if ord > 0 {
                    what.push_str(&format!("-{}", ord + 1));
                }
            }
        }
        format!("panic-{krate}-{stem}-{what}")
    } else {
        // a panic raised inside a dependency or std (not #[track_caller]): name the crate + message class
        let dep = file
            .rsplit_once("/src/")
            .map(|(a, _)| a.rsplit('/').next().unwrap_or(a).to_string())
            .unwrap_or_else(|| file.to_string());
        let tail = file.rsplit('/').next().unwrap_or(file).trim_end_matches(".rs");
        let fam = if fmt.starts_with("codec-") { "cram-codec" } else { fmt };
        format!("panic-{fam}-dep-{}-{}-{}", slug(&dep, 24), slug(tail, 16), slug(&msg_class, 40))
    }
}

// ---------------------------------------------------------------------------------------------
// watchdog

enum Ran {
    Done(String),
    Panic { file: String, line: u32, msg: String },
    Hang(&'static str),
    TooLarge(usize, &'static str),
}

type Job = Box<dyn FnOnce() -> String + Send + 'static>;

/// A reusable decoder thread (one per harness thread); abandoned and replaced after a hang or an
/// oversized allocation (the stuck thread cannot be killed).
struct Worker {
    tx: mpsc::Sender<Job>,
    rx: mpsc::Receiver<Ran>,
    flag: Arc<AtomicUsize>,
    stage: Arc<AtomicUsize>,
}

/// number of decoder threads of this process that never came back (spinning or parked)
static STUCK: AtomicUsize = AtomicUsize::new(0);
static SPINNING: AtomicUsize = AtomicUsize::new(0);

fn spawn_worker() -> Option<Worker> {
    install_hook();
    let flag = Arc::new(AtomicUsize::new(0));
    let stage = Arc::new(AtomicUsize::new(0));
    let (flag2, stage2) = (flag.clone(), stage.clone());
    let (jtx, jrx) = mpsc::channel::<Job>();
    let (rtx, rrx) = mpsc::sync_channel::<Ran>(1);
    std::thread::Builder::new()
        .stack_size(8 << 20)
        .spawn(move || {
            GUARD_FLAG.with(|c| c.set(Arc::as_ptr(&flag2)));
            c15_decode::STAGE_PTR.with(|c| c.set(Arc::as_ptr(&stage2)));
            while let Ok(job) = jrx.recv() {
                LAST_PANIC.with(|c| *c.borrow_mut() = None);
                let r = match panic::catch_unwind(AssertUnwindSafe(job)) {
                    Ok(s) => Ran::Done(s),
                    Err(_) => {
                        let (file, line, msg) = LAST_PANIC.with(|c| c.borrow_mut().take()).unwrap_or_default();
                        Ran::Panic { file, line, msg }
                    }
                };
                if rtx.send(r).is_err() {
                    break;
                }
            }
            GUARD_FLAG.with(|c| c.set(std::ptr::null()));
            c15_decode::STAGE_PTR.with(|c| c.set(std::ptr::null()));
            drop((flag2, stage2));
        })
        .ok()?;
    Some(Worker { tx: jtx, rx: rrx, flag, stage })
}

thread_local! {
    static WORKER: RefCell<Option<Worker>> = const { RefCell::new(None) };
}

fn watchdog(f: impl FnOnce() -> String + Send + 'static) -> Ran {
    let w = WORKER.with(|c| c.borrow_mut().take()).or_else(spawn_worker);
    let Some(w) = w else { return Ran::Done("spawn-failed".into()) };
    w.flag.store(0, Ordering::SeqCst);
    w.stage.store(0, Ordering::SeqCst);
    if w.tx.send(Box::new(f)).is_err() {
        return Ran::Done("lost".into());
    }
    let t0 = Instant::now();
    loop {
        match w.rx.recv_timeout(Duration::from_millis(20)) {
            Ok(r) => {
                WORKER.with(|c| *c.borrow_mut() = Some(w));
                return r;
            }
            Err(mpsc::RecvTimeoutError::Timeout) => {
                let n = w.flag.load(Ordering::SeqCst);
                let st = c15_decode::STAGES[w.stage.load(Ordering::Relaxed).min(c15_decode::STAGES.len() - 1)];
                if n != 0 {
                    STUCK.fetch_add(1, Ordering::SeqCst);
                    std::mem::forget(w);
                    return Ran::TooLarge(n, st);
                }
                if t0.elapsed() > Duration::from_secs(5) {
                    STUCK.fetch_add(1, Ordering::SeqCst);
                    SPINNING.fetch_add(1, Ordering::SeqCst);
                    std::mem::forget(w);
                    return Ran::Hang(st);
                }
            }
            Err(mpsc::RecvTimeoutError::Disconnected) => return Ran::Done("lost".into()),
        }
    }
}

fn verdict(fmt: &str, ran: Ran, detail: &dyn Fn() -> String) -> Obs {
    match ran {
        Ran::Done(s) if s.starts_with("runaway:") => Obs::fail(
            "-",
            &format!("hang-{fmt}-{}", &s[8..]),
            format!("a lazy iterator of a record that was returned Ok never ends (more than 16 x input length items) | {}", detail()),
        ),
        Ran::Done(s) => Obs::ok("-", s.starts_with("err") || !s.ends_with(":0")),
        Ran::Panic { file, line, msg } => {
            let tag = site_tag(fmt, &file, line, &msg);
            Obs::fail("-", &tag, format!("{file}:{line}: {} | {}", msg.replace(['\t', '\n'], " "), detail()))
        }
        Ran::Hang(st) => Obs::fail("-", &format!("hang-{fmt}-{st}"), format!("no result after 5 s | {}", detail())),
        Ran::TooLarge(n, st) => Obs::fail(
            "-",
            &format!("alloc-{fmt}-{st}"),
            format!("a single allocation of {n} bytes was requested (limit {ALLOC_LIMIT}) | {}", detail()),
        ),
    }
}

// ---------------------------------------------------------------------------------------------
// base payloads, mutation, sealing

fn base(fmt: &str) -> Arc<Vec<u8>> {
    static CACHE: OnceLock<Mutex<HashMap<String, Arc<Vec<u8>>>>> = OnceLock::new();
    let m = CACHE.get_or_init(|| Mutex::new(HashMap::new()));
    if let Some(v) = m.lock().unwrap().get(fmt) {
        return v.clone();
    }
    let v = Arc::new(match fmt {
        "bgzf" => files::bgzip_blocks(&files::sam_text()[..300], 120),
        "bam" => files::bam_raw(),
        "bcf" => files::bcf_raw(),
        "vcfgz" | "vcf" => files::vcf_text(),
        "vcf42" | "vcf44" | "vcf45" | "vcf41" => {
            let v = format!("VCFv4.{}", &fmt[4..]);
            String::from_utf8(files::vcf_text()).unwrap().replace("VCFv4.3", &v).into_bytes()
        }
        "samcrlf" => String::from_utf8(files::sam_text()).unwrap().replace('\n', "\r\n").into_bytes(),
        "bedcrlf" => String::from_utf8(files::bed_text()).unwrap().replace('\n', "\r\n").into_bytes(),
        "cram" => files::cram_file(),
        "sam" => files::sam_text(),
        "fasta" => files::fasta_text(),
        "fastq" => files::fastq_text(),
        "gff" => files::gff_text(),
        "gtf" => files::gtf_text(),
        "bed" => files::bed_text(),
        "bai" => files::bai_file(),
        "csi" => files::csi_raw(),
        "tabix" => files::tabix_raw(),
        "gzi" => files::gzi_file(),
        "fai" => files::fai_file(),
        "crai" => files::crai_text(),
        // indexes of the valid data files of the `iq` kinds
        "iq-bai" => files::bam_bai(),
        "iq-bamcsi" => files::bam_csi_raw(),
        "iq-vcftbi" => files::vcf_tbi_raw(),
        f if f.starts_with("codec-") => files::codec_base(&f[6..]).0,
        _ => panic!("unknown format {fmt}"),
    });
    m.lock().unwrap().insert(fmt.to_string(), v.clone());
    v
}

fn is_text(fmt: &str) -> bool {
    matches!(fmt, "vcfgz" | "vcf" | "sam" | "fasta" | "fastq" | "gff" | "gtf" | "bed" | "fai" | "crai")
        || structured_only(fmt)
}

/// text variants that only get the structured (column / boundary / token) mutations
fn structured_only(fmt: &str) -> bool {
    matches!(fmt, "vcf41" | "vcf42" | "vcf44" | "vcf45" | "samcrlf" | "bedcrlf")
}

/// the reader set used for a format name
fn decoder_of(fmt: &str) -> &str {
    match fmt {
        "vcf41" | "vcf42" | "vcf44" | "vcf45" => "vcf",
        "samcrlf" => "sam",
        "bedcrlf" => "bed",
        f => f,
    }
}

fn seal(fmt: &str, mut payload: Vec<u8>) -> Vec<u8> {
    match fmt {
        "bam" | "bcf" | "vcfgz" | "csi" | "tabix" | "iq-bamcsi" | "iq-vcftbi" => files::bgzip(&payload),
        "crai" => files::gzip(&payload),
        "cram" => {
            files::cram_reseal(&mut payload);
            payload
        }
        _ => payload,
    }
}

const HOSTILE_TOKENS: &[&str] = &[
    "", "0", "-1", "1", "2147483647", "2147483648", "-2147483649", "4294967296", "18446744073709551615",
    "18446744073709551616", "99999999999999999999999", ".", "*", "=", "nan", "1e400", "-", "%", "%4", "\u{e9}", "\"", "A", ",", ";",
    "0/9", "|", "<", "255", "256", "65536", "-0", "+1", "0x10", " ",
];

fn is_delim(b: u8) -> bool {
    matches!(b, b'\t' | b'\n' | b'\r' | b';' | b':' | b',' | b'=' | b' ' | b'|' | b'/' | b'<' | b'>' | b'"')
}

/// token spans (maximal runs of non-delimiter bytes)
fn tokens(p: &[u8]) -> Vec<(usize, usize)> {
    let mut v = Vec::new();
    let mut i = 0;
    while i < p.len() {
        if is_delim(p[i]) {
            i += 1;
            continue;
        }
        let s = i;
        while i < p.len() && !is_delim(p[i]) {
            i += 1;
        }
        v.push((s, i));
    }
    v
}

fn mutate(p: &[u8], op: &str, a: u64, b: u64) -> Option<Vec<u8>> {
    let mut v = p.to_vec();
    let a_us = a as usize;
    match op {
        "sub" => {
            if a_us >= v.len() {
                return None;
            }
            v[a_us] = b as u8;
        }
        "trunc" => {
            if a_us > v.len() {
                return None;
            }
            v.truncate(a_us);
        }
        "u16" | "u32" | "u64" => {
            let w = match op {
                "u16" => 2,
                "u32" => 4,
                _ => 8,
            };
            if a_us + w > v.len() {
                return None;
            }
            v[a_us..a_us + w].copy_from_slice(&b.to_le_bytes()[..w]);
        }
        "neg32" => {
            if a_us + 4 > v.len() {
                return None;
            }
            let x = i32::from_le_bytes(v[a_us..a_us + 4].try_into().unwrap());
            let y = match b {
                0 => x.wrapping_neg(),
                1 => x ^ i32::MIN,
                2 => x.wrapping_add(1),
                _ => x.wrapping_sub(1),
            };
            v[a_us..a_us + 4].copy_from_slice(&y.to_le_bytes());
        }
        "del" => {
            let e = a_us.checked_add(b as usize)?;
            if e > v.len() {
                return None;
            }
            v.drain(a_us..e);
        }
        "ins" => {
            if a_us > v.len() {
                return None;
            }
            v.insert(a_us, b as u8);
        }
        "dup" => {
            let e = a_us.checked_add(b as usize)?;
            if e > v.len() {
                return None;
            }
            let c = v[a_us..e].to_vec();
            v.splice(e..e, c);
        }
        "tok" => {
            let t = tokens(p);
            let &(s, e) = t.get(a_us)?;
            let r = HOSTILE_TOKENS.get(b as usize)?;
            v.splice(s..e, r.bytes());
        }
        "col" => {
            // replace a whole column (the bytes between two TAB / LF separators), keeping the separators
            let c = columns(p);
            let &(s0, e0) = c.get(a_us)?;
            let r = COLUMN_VALUES.get(b as usize)?;
            v.splice(s0..e0, r.bytes());
        }
        "bnd" => {
            // edit around the a-th separator (TAB or LF)
            let seps: Vec<usize> = p.iter().enumerate().filter(|(_, x)| matches!(**x, b'\t' | b'\n')).map(|(i, _)| i).collect();
            let &i = seps.get(a_us)?;
            let next_end = p[i + 1..].iter().position(|x| matches!(*x, b'\t' | b'\n')).map_or(p.len(), |k| i + 1 + k);
            let prev_start = p[..i].iter().rposition(|x| matches!(*x, b'\t' | b'\n')).map_or(0, |k| k + 1);
            match b {
                0 => drop(v.splice(i..i, *b"\r")),
                1 => drop(v.splice(i..i, *b"\t")),
                2 => drop(v.splice(i..i, *b"\r\t")),
                3 => drop(v.splice(i..i + 1, [])),
                4 => drop(v.splice(i + 1..next_end, [])),
                5 => {
                    // CR before the separator and an empty following column
                    v.splice(i + 1..next_end, []);
                    v.splice(i..i, *b"\r");
                }
                6 => drop(v.splice(prev_start..i, [])),
                7 => drop(v.splice(i + 1..i + 1, *b"\t")),
                8 => drop(v.splice(i..i, *b" ")),
                9 => drop(v.splice(i + 1..i + 1, *b"\r")),
                10 => drop(v.splice(i + 1..i + 1, *b"\tX")),
                11 => drop(v.splice(i..i, *b"\tX")),
                _ => return None,
            }
        }
        "bamrec" | "bcfrec" => {
            let recs = if op == "bamrec" { bam_records(p) } else { bcf_records(p) };
            let (r, sub) = (a_us / 16, a_us % 16);
            let &(start, len) = recs.get(r)?; // start of the length prefix, length of the whole unit
            v = if op == "bamrec" { bam_record_edit(p, start, len, sub, b)? } else { bcf_record_edit(p, start, len, sub, b)? };
        }
        "id" => {}
        _ => return None,
    }
    Some(v)
}

const COLUMN_VALUES: &[&str] = &["", "\r", ".", "*", "0", "-1", " ", "=", ",", ";", ":", "\u{0}", "2147483648", "x", "\r.", ".\r"];
const N_BND: u64 = 12;

/// column spans: maximal runs between TAB / LF separators (possibly empty)
fn columns(p: &[u8]) -> Vec<(usize, usize)> {
    let mut v = Vec::new();
    let mut s = 0;
    for (i, b) in p.iter().enumerate() {
        if matches!(*b, b'\t' | b'\n') {
            v.push((s, i));
            s = i + 1;
        }
    }
    if s < p.len() {
        v.push((s, p.len()));
    }
    v
}

fn le32(p: &[u8], o: usize) -> Option<usize> {
    Some(u32::from_le_bytes(p.get(o..o + 4)?.try_into().ok()?) as usize)
}

/// (offset of block_size, 4 + block_size) of every record of an uncompressed BAM stream
fn bam_records(p: &[u8]) -> Vec<(usize, usize)> {
    let mut v = Vec::new();
    let Some(l_text) = le32(p, 4) else { return v };
    let mut o = 8 + l_text;
    let Some(n_ref) = le32(p, o) else { return v };
    o += 4;
    for _ in 0..n_ref {
        let Some(l_name) = le32(p, o) else { return v };
        o += 4 + l_name + 4;
    }
    while let Some(bs) = le32(p, o) {
        if o + 4 + bs > p.len() {
            break;
        }
        v.push((o, 4 + bs));
        o += 4 + bs;
    }
    v
}

/// (offset of l_shared, 8 + l_shared + l_indiv) of every record of an uncompressed BCF stream
fn bcf_records(p: &[u8]) -> Vec<(usize, usize)> {
    let mut v = Vec::new();
    let Some(l_text) = le32(p, 5) else { return v };
    let mut o = 9 + l_text;
    while let (Some(ls), Some(li)) = (le32(p, o), le32(p, o + 4)) {
        if o + 8 + ls + li > p.len() {
            break;
        }
        v.push((o, 8 + ls + li));
        o += 8 + ls + li;
    }
    v
}

fn delta(code: u64) -> i64 {
    [1i64, -1, 2, -2, 3, -3, 4, -4][code as usize % 8]
}

fn add_le(v: &mut [u8], o: usize, w: usize, d: i64) {
    let mut x = 0u64;
    for i in 0..w {
        x |= (v[o + i] as u64) << (8 * i);
    }
    let y = (x as i64).wrapping_add(d) as u64;
    for i in 0..w {
        v[o + i] = (y >> (8 * i)) as u8;
    }
}

/// framing-consistent edits of one BAM record.
/// sub 0: block_size += d and d tail bytes added (zeros) / removed, so the next record still frames;
/// sub 1: l_read_name += d; 2: n_cigar_op += d; 3: l_seq += d; (block_size untouched)
/// sub 4: l_seq += d and block grown/shrunk by the matching number of seq+qual bytes at the tail;
/// sub 5: remove d bytes just before the quality scores' end, block_size adjusted (tail = aux)
fn bam_record_edit(p: &[u8], start: usize, len: usize, sub: usize, code: u64) -> Option<Vec<u8>> {
    let mut v = p.to_vec();
    let d = delta(code);
    let end = start + len;
    let resize_tail = |v: &mut Vec<u8>, d: i64| -> Option<()> {
        if d >= 0 {
            v.splice(end..end, std::iter::repeat(0u8).take(d as usize));
        } else {
            let k = (-d) as usize;
            if k + 36 > len {
                return None;
            }
            v.splice(end - k..end, []);
        }
        add_le(v, start, 4, d);
        Some(())
    };
    match sub {
        0 => resize_tail(&mut v, d)?,
        1 => add_le(&mut v, start + 4 + 8, 1, d),
        2 => add_le(&mut v, start + 4 + 12, 2, d),
        3 => add_le(&mut v, start + 4 + 16, 4, d),
        4 => {
            let l_seq = le32(p, start + 4 + 16)? as i64;
            let n = l_seq + d;
            if n < 0 {
                return None;
            }
            let bytes = |l: i64| (l + 1) / 2 + l;
            add_le(&mut v, start + 4 + 16, 4, d);
            resize_tail(&mut v, bytes(n) - bytes(l_seq))?;
        }
        5 => {
            // shrink / grow in the middle of the variable part: every later field shifts
            let mid = start + 36 + (len - 36) / 2;
            if d >= 0 {
                v.splice(mid..mid, std::iter::repeat(0x41u8).take(d as usize));
            } else {
                v.splice(mid - (-d) as usize..mid, []);
            }
            add_le(&mut v, start, 4, d);
        }
        _ => return None,
    }
    Some(v)
}

/// framing-consistent edits of one BCF record.
/// sub 0: l_shared += d with bytes added/removed at the end of the shared part; 1: same for l_indiv;
/// sub 2: n_allele += d; 3: n_info += d; 4: n_fmt += d; 5: n_sample += d; 6: rlen += d; 7: l_shared += d, l_indiv -= d
fn bcf_record_edit(p: &[u8], start: usize, len: usize, sub: usize, code: u64) -> Option<Vec<u8>> {
    let mut v = p.to_vec();
    let d = delta(code);
    let ls = le32(p, start)?;
    let li = le32(p, start + 4)?;
    let _ = len;
    let resize = |v: &mut Vec<u8>, at: usize, avail: usize, d: i64| -> Option<()> {
        if d >= 0 {
            v.splice(at..at, std::iter::repeat(0u8).take(d as usize));
        } else {
            let k = (-d) as usize;
            if k > avail {
                return None;
            }
            v.splice(at - k..at, []);
        }
        Some(())
    };
    match sub {
        0 => {
            resize(&mut v, start + 8 + ls, ls.saturating_sub(24), d)?;
            add_le(&mut v, start, 4, d);
        }
        1 => {
            resize(&mut v, start + 8 + ls + li, li, d)?;
            add_le(&mut v, start + 4, 4, d);
        }
        2 => add_le(&mut v, start + 8 + 18, 2, d), // n_allele (upper 16 bits of n_allele_info)
        3 => add_le(&mut v, start + 8 + 16, 2, d), // n_info
        4 => add_le(&mut v, start + 8 + 23, 1, d), // n_fmt
        5 => add_le(&mut v, start + 8 + 20, 3, d), // n_sample
        6 => add_le(&mut v, start + 8 + 8, 4, d),  // rlen
        7 => {
            add_le(&mut v, start, 4, d);
            add_le(&mut v, start + 4, 4, -d);
        }
        _ => return None,
    }
    Some(v)
}

// ---------------------------------------------------------------------------------------------
// generation

const SUB_VALUES: &[u8] = &[0x00, 0xff, 0x7f, 0x80, 0x01, 0x0a, 0x09, 0x20, 0x2e, 0x3a];
const U32_VALUES: &[u64] = &[0, 1, 0x7fff_ffff, 0x7fff_fffe, 0xffff_ffff, 0xffff_fffe, 0x8000_0000, 0x0100_0000, 0x1000_0001];
const U16_VALUES: &[u64] = &[0, 1, 0xffff, 0xfffe, 0x8000, 0x7fff];
const U64_VALUES: &[u64] = &[0, u64::MAX, u64::MAX - 1, 1 << 63, (1 << 63) - 1, 1 << 32, 0xffff_ffff_0000_ffff];

fn push_mut(w: &mut CaseWriter, kind: &str, fmt: &str, op: &str, a: u64, b: u64) {
    w.push(kind, vec![fmt.into(), op.into(), a.to_string(), b.to_string()]);
}

fn gen_mutations(rng: &mut Rng, thorough: bool, div: u64, w: &mut CaseWriter, kind: &str, fmt: &str, key: &str) {
    let q = |x: u64| (x / div).max(1);
    let p = base(key);
    let n = p.len() as u64;
    if n == 0 {
        return;
    }
    if div == 1 {
        push_mut(w, kind, fmt, "id", 0, 0);
    }
    let text = is_text(fmt);
    // column / separator edits of text formats and framing-consistent record edits of BAM / BCF:
    // exhaustive in both tiers (part of the fixed sweep only)
    if div == 1 {
        if text {
            let ncol = columns(&p).len() as u64;
            for k in 0..ncol {
                for j in 0..COLUMN_VALUES.len() as u64 {
                    if !thorough && j >= 4 && (k + j) % 3 != 0 {
                        continue;
                    }
                    push_mut(w, kind, fmt, "col", k, j);
                }
            }
            let nsep = p.iter().filter(|x| matches!(**x, b'\t' | b'\n')).count() as u64;
            for k in 0..nsep {
                for j in 0..N_BND {
                    push_mut(w, kind, fmt, "bnd", k, j);
                }
            }
        }
        if kind == "mut" && (fmt == "bam" || fmt == "bcf") {
            let (op, nrec) = if fmt == "bam" { ("bamrec", bam_records(&p).len()) } else { ("bcfrec", bcf_records(&p).len()) };
            for r in 0..nrec as u64 {
                for sub in 0..8u64 {
                    for code in 0..8u64 {
                        push_mut(w, kind, fmt, op, r * 16 + sub, code);
                    }
                }
            }
        }
    }
    if structured_only(fmt) {
        return;
    }
    // (a) single-byte substitutions
    if thorough && n <= 1600 && fmt != "vcfgz" {
        for pos in 0..n {
            for val in 0..=255u64 {
                if val != p[pos as usize] as u64 {
                    push_mut(w, kind, fmt, "sub", pos, val);
                }
            }
        }
    } else {
        let npos = q(if thorough { 1200 } else { 140 });
        for _ in 0..npos {
            let pos = rng.below(n);
            let cur = p[pos as usize];
            let mut vals: Vec<u8> = vec![cur.wrapping_add(1), cur.wrapping_sub(1), cur ^ 0x80, rng.next() as u8];
            let extra = if thorough { SUB_VALUES.len() } else { 4 };
            for _ in 0..extra {
                vals.push(*rng.pick(SUB_VALUES));
            }
            vals.sort_unstable();
            vals.dedup();
            for v in vals {
                if v != cur {
                    push_mut(w, kind, fmt, "sub", pos, v as u64);
                }
            }
        }
    }
    // (b) structured mutations of length / count fields
    if !text {
        let offs: Vec<u64> = if thorough && n <= 4000 {
            (0..n).collect()
        } else {
            (0..q(if thorough { 1500 } else { 120 })).map(|_| rng.below(n)).collect()
        };
        for &o in &offs {
            let full = thorough || rng.chance(1, 3);
            for &v in U32_VALUES {
                if full || rng.chance(1, 3) {
                    push_mut(w, kind, fmt, "u32", o, v);
                }
            }
            for k in 0..4 {
                if full || rng.chance(1, 4) {
                    push_mut(w, kind, fmt, "neg32", o, k);
                }
            }
            if full || rng.chance(1, 2) {
                for &v in U16_VALUES {
                    if full || rng.chance(1, 3) {
                        push_mut(w, kind, fmt, "u16", o, v);
                    }
                }
                for &v in U64_VALUES {
                    if full || rng.chance(1, 4) {
                        push_mut(w, kind, fmt, "u64", o, v);
                    }
                }
            }
        }
    } else {
        let nt = tokens(&p).len() as u64;
        if thorough {
            for k in 0..nt {
                for j in 0..HOSTILE_TOKENS.len() as u64 {
                    push_mut(w, kind, fmt, "tok", k, j);
                }
            }
        } else {
            for _ in 0..q(260) {
                push_mut(w, kind, fmt, "tok", rng.below(nt.max(1)), rng.below(HOSTILE_TOKENS.len() as u64));
            }
        }
    }
    // deletions, insertions, duplications
    let nd = q(if thorough { 1500 } else { 90 });
    for _ in 0..nd {
        let pos = rng.below(n);
        match rng.below(4) {
            0 => push_mut(w, kind, fmt, "del", pos, 1),
            1 => push_mut(w, kind, fmt, "del", pos, rng.range(1, 8).min(n - pos)),
            2 => push_mut(w, kind, fmt, "ins", pos, *rng.pick(&[0u64, 9, 10, 13, 0x3b, 0x3d, 0x2c, 0x3a, 0xff, 0x41, 0x25, 0x22])),
            _ => push_mut(w, kind, fmt, "dup", pos, rng.range(1, 40).min(n - pos)),
        }
    }
    // (c) truncations
    if div == 1 && (thorough || n <= 300) {
        for l in 0..n {
            push_mut(w, kind, fmt, "trunc", l, 0);
        }
    } else {
        for _ in 0..q(100) {
            push_mut(w, kind, fmt, "trunc", rng.below(n), 0);
        }
        for l in n.saturating_sub(if div == 1 { 12 } else { 0 })..n {
            push_mut(w, kind, fmt, "trunc", l, 0);
        }
    }
}

/// The bulk of both tiers is a FIXED sweep (its generator state does not depend on VERIF_SEED), so
/// that which panic sites a run reaches does not depend on the seed; the seed only drives a
/// smaller extra random sample appended to it.
fn generate(rng: &mut Rng, tier: &str, w: &mut CaseWriter) {
    let thorough = tier == "thorough";
    let mut fixed = Rng::new(0x00C1_5C15);
    gen_all(&mut fixed, thorough, 1, w);
    gen_all(rng, false, 4, w);
}

fn fixed_dummy() -> Rng {
    Rng::new(0x00C1_5B0A)
}

fn gen_all(rng: &mut Rng, thorough: bool, div: u64, w: &mut CaseWriter) {
    let q = |x: u64| (x / div).max(1);
    {
        // fused lazy iterator (modelled): the GFF attributes column
        const ALPHA: &[u8] = b"==;;,,%%.*aZ09 fF2\t&_-";
        if div == 1 {
            for c in ["", ".", "*", "=", ";", ",", "a", "a=", "=b", "a=b", "a=b;", "a=b;c", "a=b;c;d=e", "ID=1;Name", "a=1,2;b",
                      "a=b;;c=d", "a=%41,%2C;x", "%3D=1", "a=b=c;=;", ";a=b", "a==;b", "..", ".;", "a=.;.", "a=1,,2", "a=%;b=%4", "a=%zz;q"] {
                w.push("gffit", vec![hex(c.as_bytes())]);
            }
        }
        for _ in 0..q(if thorough { 6000 } else { 500 }) {
            let n = rng.below(25) as usize;
            let mut col: Vec<u8> = (0..n).map(|_| ALPHA[rng.below(ALPHA.len() as u64) as usize]).collect();
            if rng.chance(1, 16) && !col.is_empty() {
                let i = rng.below(col.len() as u64) as usize;
                col[i] = [0u8, 0x80, 0xff, 0x0d, 0x7f][rng.below(5) as usize];
            }
            while col.last() == Some(&0x0d) {
                col.pop();
            }
            w.push("gffit", vec![hex(&col)]);
        }
    }
    {
        // bam read_record validate boundary (modelled, NV.Hostile.BamAcc): bodies whose length sits
        // at, one below and one above every slice end of record_ref.rs, odd and even l_seq
        let mk = |ln: u8, nc: u16, ls: u32, tail: &[u8]| -> Vec<u8> {
            let mut b = vec![0xff, 0xff, 0xff, 0xff, 0xff, 0xff, 0xff, 0xff, ln, 0xff, 0x48, 0x12];
            b.extend_from_slice(&nc.to_le_bytes());
            b.extend_from_slice(&[4, 0]);
            b.extend_from_slice(&ls.to_le_bytes());
            b.extend_from_slice(&[0xff; 8]);
            b.extend_from_slice(&[0, 0, 0, 0]);
            b.extend_from_slice(tail);
            b
        };
        let emit = |w: &mut CaseWriter, rng: &mut Rng, ln: u8, nc: u16, ls: u32, total: usize, style: u64| {
            let tail: Vec<u8> = (0..total).map(|i| match style {
                0 => 0xff,
                1 => 0,
                2 => [b'*', 0, 0x14, 0, 0, 0, 0x73, 0x02, b'C', b'G', b'B', b'I', 1, 0, 0, 0][i % 16],
                _ => rng.below(256) as u8,
            }).collect();
            w.push("bamv", vec![hex(&mk(ln, nc, ls, &tail))]);
        };
        if div == 1 {
            w.push("bamv", vec!["_".to_string()]);
            for n in [1usize, 4, 31] {
                w.push("bamv", vec![hex(&vec![0u8; n])]);
            }
            for ln in [0u8, 1, 2] {
                for nc in [0u16, 1, 2] {
                    for ls in [0u32, 1, 2, 3, 4, 5] {
                        let end = ln as usize + 4 * nc as usize + (ls as usize).div_ceil(2) + ls as usize;
                        for d in -2i64..=2 {
                            let total = end as i64 + d;
                            if total >= 0 {
                                emit(w, &mut fixed_dummy(), ln, nc, ls, total as usize, (ln as u64 + nc as u64 + ls as u64) % 4);
                            }
                        }
                    }
                }
            }
            for ls in [0xffff_ffffu32, 0x8000_0000, 0x7fff_ffff, 65536] {
                emit(w, &mut fixed_dummy(), 1, 0, ls, 3, 1);
            }
        }
        for _ in 0..q(if thorough { 4000 } else { 300 }) {
            let ln = *rng.pick(&[0u8, 1, 2, 3, 7, 255]);
            let nc = *rng.pick(&[0u16, 0, 1, 2, 2, 3]);
            let ls = rng.below(12) as u32;
            let end = ln as i64 + 4 * nc as i64 + (ls as i64 + 1) / 2 + ls as i64;
            let total = (end + rng.below(7) as i64 - 3 + if rng.chance(1, 4) { rng.below(24) as i64 } else { 0 }).max(0);
            let style = rng.below(4);
            emit(w, rng, ln, nc, ls, total as usize, style);
        }
    }
    {
        // CRAM resolve_mates (modelled, NV.Hostile.MatesP): arbitrary DETACHED / MATE_IS_DOWNSTREAM
        // bits and mate distances in the CF / NF series of a sealed container
        use c15_cmate::MRec;
        const MAPPED: [u16; 7] = [0x41, 0x81, 0x51, 0x91, 0x1, 0x0, 0x11];
        const UNPLACED: [u16; 4] = [0x45, 0x85, 0x4, 0x55];
        let place = |k: usize, flag: u16, cf: u8, nf: u32| MRec {
            flag,
            rid: (k % 2) as i64,
            pos: 3 + 11 * k,
            a: 2 + k % 3,
            d: if k % 3 == 1 { 2 } else { 0 },
            b: 1 + k % 4,
            cf,
            nf,
        };
        if div == 1 {
            // every assignment of {detached, attached, downstream with distance 0..n} to n records
            for n in 1..=(if thorough { 4usize } else { 3 }) {
                let choices = n as u64 + 3;
                let total = choices.pow(n as u32);
                for code in 0..total {
                    let mut c = code;
                    let rs: Vec<MRec> = (0..n)
                        .map(|k| {
                            let ch = c % choices;
                            c /= choices;
                            let (cf, nf) = match ch {
                                0 => (2u8, 0u32),
                                1 => (0, 0),
                                x => (4, (x - 2) as u32),
                            };
                            place(k, MAPPED[k % 4], cf, nf)
                        })
                        .collect();
                    w.push("cmate", vec![c15_cmate::fmt_recs(&rs)]);
                }
            }
        }
        for _ in 0..q(if thorough { 4000 } else { 300 }) {
            let n = 1 + rng.below(if thorough { 14 } else { 9 }) as usize;
            let rs: Vec<MRec> = (0..n)
                .map(|i| {
                    let cf = [4u8, 4, 4, 2, 2, 0, 6, 4][rng.below(8) as usize];
                    let left = (n - 1 - i) as u32;
                    let nf = match rng.below(12) {
                        0 => left,                       // one past the slice
                        1 => left.saturating_sub(1),     // the last record
                        2 => [0x7fff_ffffu32, 0x7fff_fffe, 5_000_000, 0x1000_0000, 200][rng.below(5) as usize],
                        3 => left + 1 + rng.below(3) as u32,
                        _ => rng.below(left.max(1) as u64) as u32,
                    };
                    if rng.chance(1, 8) {
                        MRec { flag: UNPLACED[rng.below(4) as usize], rid: -1, pos: 0, a: 0, d: 0, b: 0, cf, nf }
                    } else {
                        let rid = rng.below(2) as i64;
                        let (a, b) = (1 + rng.below(6) as usize, 1 + rng.below(6) as usize);
                        let d = if rng.chance(1, 3) { 1 + rng.below(3) as usize } else { 0 };
                        let lim = if rid == 0 { 185 } else { 100 };
                        MRec { flag: MAPPED[rng.below(7) as usize], rid, pos: 1 + rng.below(lim) as usize, a, d, b, cf, nf }
                    }
                })
                .collect();
            w.push("cmate", vec![c15_cmate::fmt_recs(&rs)]);
        }
    }
    if div == 1 {
        // input-driven recursion depth (each case runs in its own child process)
        for place in ["ids", "fmtkey"] {
            for count in [1u64, 14, 300, 250_000] {
                w.push("nest", vec!["bcf".into(), place.into(), count.to_string()]);
            }
        }
    }
    // modelled kinds -------------------------------------------------------------------------
    {
        let mut push = |lens: &[u64], k: u64, upos: u64, how: u64| {
            let l = if lens.is_empty() { "_".to_string() } else { lens.iter().map(|x| x.to_string()).collect::<Vec<_>>().join(",") };
            w.push("dref", vec![l, k.to_string(), upos.to_string(), how.to_string()])
        };
        for lens in [&[][..], &[0], &[5], &[5, 0], &[0, 5, 0], &[5, 7], &[65280, 1], &[1, 0, 0, 3]].into_iter().take(if div == 1 { 8 } else { 0 }) {
            for k in 0..=lens.len() as u64 {
                for upos in [0u64, 1, 2, 4, 5, 6, 7, 8, 65279, 65280, 65281, 65535] {
                    for how in 0..2 {
                        push(lens, k, upos, how);
                    }
                }
            }
        }
        for _ in 0..q(if thorough { 3000 } else { 250 }) {
            let n = rng.below(5) as usize;
            let lens: Vec<u64> = (0..n)
                .map(|_| match rng.below(4) {
                    0 => 0,
                    1 => rng.range(1, 8),
                    2 => rng.range(1, 300),
                    _ => rng.range(65270, 65280),
                })
                .collect();
            let k = rng.below(n as u64 + 1);
            let cur = lens.iter().skip(k as usize).find(|l| **l > 0).copied().unwrap_or(0);
            let upos = match rng.below(4) {
                0 => rng.below(65536),
                1 => (cur + rng.below(3)).min(65535),
                2 => cur.saturating_sub(rng.below(3)),
                _ => rng.below(10),
            };
            push(&lens, k, upos, rng.below(2));
        }
    }
    {
        let mut push = |ms: u64, d: u64, id: u64, s: u64, e: u64| {
            w.push("csiq", vec![ms.to_string(), d.to_string(), id.to_string(), s.to_string(), e.to_string()])
        };
        for ms in [0u64, 1, 2, 14, 31, 33, 34, 36, 37, 40, 60, 61, 62, 63, 64, 200, 255].into_iter().take(if div == 1 { 17 } else { 0 }) {
            for d in [0u64, 1, 2, 5, 9, 10, 11, 16, 20, 21, 30, 85, 255] {
                for id in [0u64, 1, 8, 9] {
                    push(ms, d, id, 1, 1);
                }
                push(ms, d, 4681, 1, 2);
            }
        }
        let n = q(if thorough { 6000 } else { 500 });
        for _ in 0..n {
            let d = *rng.pick(&[0u64, 1, 2, 3, 4, 5, 5, 5, 6, 7, 8, 9, 10, 11, 12]);
            let ms = match rng.below(4) {
                0 => rng.below(70),
                1 => rng.range(1, 20),
                _ => 14,
            };
            let max_id = if d <= 9 { ((1u64 << (3 * (d + 1))) - 1) / 7 } else { 1 << 20 };
            let id = match rng.below(5) {
                0 => max_id,
                1 => max_id + 1,
                2 => max_id.saturating_sub(1),
                3 => rng.below(max_id + 3),
                _ => *rng.pick(&[0u64, 1, 9, 73, 585, 4681, 37449, 37450, 1 << 31, u32::MAX as u64]),
            };
            let sh = (ms + 3 * d).min(63);
            let maxp = (1u64 << sh).wrapping_sub(1).max(1);
            let s = match rng.below(3) {
                0 => 1,
                1 => rng.range(1, maxp),
                _ => maxp.saturating_sub(rng.below(2)).max(1),
            };
            let e = match rng.below(4) {
                0 => s,
                1 => maxp,
                2 => maxp.saturating_add(1),
                _ => s.saturating_add(rng.below(maxp)).min(maxp),
            };
            // keep the number of bins a query has to set bounded for deep geometries
            let e = if d >= 8 { e.min(s.saturating_add((1u64 << ms.min(40)) * 50_000)) } else { e };
            push(ms, d, id, s, e.max(s));
        }
    }
    {
        // rANS 4x8 order-0 frequency tables in the on-disk syntax: sym f {sym f | sym' len f*len}* 0
        let n = q(if thorough { 6000 } else { 500 });
        for i in 0..n {
            let mut t: Vec<u8> = Vec::new();
            let freq = |rng: &mut Rng| -> u32 {
                (match rng.below(7) {
                    0 => rng.below(128),
                    1 => 4095,
                    2 => rng.range(128, 16383),
                    3 => 16383 + rng.below(50000),
                    4 => 65535 + rng.below(3),
                    5 => rng.next() & 0xffff_ffff,
                    _ => rng.below(20),
                }) as u32
            };
            let mut sym = rng.range(if i % 3 == 0 { 240 } else { 1 }, 255) as u8;
            t.push(sym);
            push_itf8(&mut t, freq(rng));
            for _ in 0..rng.below(5) {
                if rng.chance(1, 2) && sym < 255 {
                    // adjacent symbol: run-length form
                    let next = sym + 1;
                    t.push(next);
                    let room = 255 - next as u64;
                    let run = match rng.below(4) {
                        0 => 0,
                        1 => room.min(2),
                        2 => room,
                        _ => (room + 1 + rng.below(2)).min(255),
                    };
                    t.push(run as u8);
                    for _ in 0..run {
                        push_itf8(&mut t, rng.below(40) as u32);
                    }
                    sym = (next as u64 + run).min(255) as u8;
                    push_itf8(&mut t, freq(rng));
                } else {
                    match sym.checked_add(rng.range(2, 30) as u8) {
                        Some(s2) => {
                            sym = s2;
                            t.push(sym);
                            push_itf8(&mut t, freq(rng));
                        }
                        None => break,
                    }
                }
            }
            t.push(0);
            if rng.chance(1, 6) {
                let l = rng.below(t.len() as u64 + 1) as usize;
                t.truncate(l);
            }
            if rng.chance(1, 5) && !t.is_empty() {
                let p = rng.below(t.len() as u64) as usize;
                t[p] = rng.next() as u8;
            }
            w.push("rfreq", vec![hex(&t)]);
        }
        for t in [
            vec![0xffu8, 0x05, 0x00],
            vec![0xfe, 0x05, 0xff, 0x00, 0x01, 0x00],
            vec![0xfd, 0x01, 0xfe, 0x01, 0x01, 0x01, 0x00],
            vec![0x61, 0xc0, 0xff, 0xff, 0x62, 0x00, 0x01, 0x00],
            vec![0x61, 0x80, 0x00],
            vec![0x00, 0x05, 0x00],
            vec![0x00, 0x05, 0x01, 0xff],
        ] {
            w.push("rfreq", vec![hex(&t)]);
        }
    }
    // L3 mutation engine ---------------------------------------------------------------------
    for fmt in c15_decode::FORMATS {
        gen_mutations(rng, thorough, div, w, "mut", fmt, fmt);
    }
    for fmt in ["vcf41", "vcf42", "vcf44", "vcf45", "samcrlf", "bedcrlf"] {
        gen_mutations(rng, thorough, div, w, "mut", fmt, fmt);
    }
    for kind in ["bai", "bamcsi", "vcftbi"] {
        gen_mutations(rng, thorough && kind == "bai", div, w, "iq", kind, &format!("iq-{kind}"));
    }
    // BGZF member fields: ISIZE / CRC32 / BSIZE / XLEN of EVERY block (the raw file is not
    // re-sealed, so the edit reaches the reader), values around every size the reader compares
    // with (htslib 65280, noodles writer 65495, BGZF_MAX_ISIZE 65536)
    if div == 1 {
        let file = base("bgzf");
        for &c in block_starts(&file).iter() {
            let c = c as usize;
            if c + 18 > file.len() {
                continue;
            }
            let len = u16::from_le_bytes([file[c + 16], file[c + 17]]) as usize + 1;
            if c + len > file.len() || len < 26 {
                continue;
            }
            let isize_off = (c + len - 4) as u64;
            let real = u32::from_le_bytes(file[c + len - 4..c + len].try_into().unwrap()) as u64;
            for val in [0u64, 1, 2, real.saturating_sub(1), real + 1, 65_279, 65_280, 65_281, 65_494, 65_495, 65_496, 65_500, 65_535, 65_536, 65_537,
                        0x0001_0000 | real, 0x7fff_ffff, 0x8000_0000, 0xffff_ffff] {
                if val != real {
                    push_mut(w, "mut", "bgzf", "u32", isize_off, val);
                }
            }
            for val in [0u64, 1, 0xffff_ffff] {
                push_mut(w, "mut", "bgzf", "u32", isize_off - 4, val);
            }
            let bsize = (len - 1) as u64;
            for val in [0u64, 1, 24, 25, 26, 27, bsize - 1, bsize + 1, bsize + 2, 0x7fff, 0xffff] {
                if val != bsize {
                    push_mut(w, "mut", "bgzf", "u16", c as u64 + 16, val);
                }
            }
            for val in [0u64, 1, 5, 7, 8, 0xffff] {
                push_mut(w, "mut", "bgzf", "u16", c as u64 + 10, val);
            }
        }
    }
    // striped codec streams built by hand (rANS Nx16 and the arithmetic coder share the layout:
    // flags = STRIPE, size, chunk count, compressed sizes, chunks): every chunk is a CAT stream
    // that carries ITS OWN size; the sizes are the balanced shares, then every redistribution
    // of 1..2 bytes between two chunks (total kept), one byte more / less in one chunk, a
    // NO_SIZE chunk, a chunk count of 0 / beyond the sizes present -- transpose() trusts each
    // chunk to be exactly its share
    {
        let mut emit = |w: &mut CaseWriter, total: usize, sizes: &[usize], nosize: Option<usize>, count_byte: Option<u8>| {
            let mut chunks: Vec<Vec<u8>> = Vec::new();
            for (i, &sz) in sizes.iter().enumerate() {
                let mut c = Vec::new();
                if nosize == Some(i) {
                    c.push(0x30);
                } else {
                    c.push(0x20);
                    c.push(sz as u8);
                }
                c.extend((0..sz).map(|j| b'a' + ((i * 7 + j) % 26) as u8));
                chunks.push(c);
            }
            let mut t = vec![0x08u8, total as u8, count_byte.unwrap_or(sizes.len() as u8)];
            for c in &chunks {
                t.push(c.len() as u8);
            }
            for c in &chunks {
                t.extend(c);
            }
            for name in ["nx16stripe", "aacstripe"] {
                w.push("craw", vec![name.to_string(), total.to_string(), hex(&t)]);
            }
        };
        let shares = |total: usize, n: usize| -> Vec<usize> { (0..n).map(|i| total / n + usize::from(total % n > i)).collect() };
        if div == 1 {
            for total in 0..=9usize {
                for n in 1..=5usize {
                    let bal = shares(total, n);
                    emit(w, total, &bal, None, None);
                    emit(w, total, &bal, Some(0), None);
                    emit(w, total, &bal, None, Some(0));
                    emit(w, total, &bal, None, Some(n as u8 + 1));
                    for i in 0..n {
                        let mut v = bal.clone();
                        v[i] += 1;
                        emit(w, total, &v, None, None);
                        if bal[i] > 0 {
                            let mut v = bal.clone();
                            v[i] -= 1;
                            emit(w, total, &v, None, None);
                        }
                        for j in 0..n {
                            for k in 1..=2usize {
                                if i != j && bal[j] >= k {
                                    let mut v = bal.clone();
                                    v[i] += k;
                                    v[j] -= k;
                                    emit(w, total, &v, None, None);
                                    emit(w, total, &v, Some(j), None);
                                }
                            }
                        }
                    }
                }
            }
        }
        for _ in 0..q(if thorough { 4000 } else { 300 }) {
            let n = rng.range(1, 6) as usize;
            let total = rng.below(60) as usize;
            let mut v = shares(total, n);
            for _ in 0..rng.below(3) {
                let (i, j) = (rng.below(n as u64) as usize, rng.below(n as u64) as usize);
                let k = rng.range(1, 4) as usize;
                if i != j && v[j] >= k {
                    v[i] += k;
                    v[j] -= k;
                }
            }
            let ns = if rng.chance(1, 5) { Some(rng.below(n as u64) as usize) } else { None };
            emit(w, total, &v, ns, None);
        }
    }
    // BGZF seeks
    {
        let file = base("bgzf");
        let n = file.len() as u64;
        let starts = block_starts(&file);
        for &c in starts.iter().take(if div == 1 { usize::MAX } else { 0 }) {
            for u in [0u64, 1, 119, 120, 121, 200, 65279, 65280, 65535] {
                for how in 0..4 {
                    w.push("seek", vec![c.to_string(), u.to_string(), how.to_string()]);
                }
            }
        }
        for _ in 0..q(if thorough { 3000 } else { 200 }) {
            let c = if rng.chance(1, 2) { *rng.pick(&starts) } else { rng.below(n + 30) };
            w.push("seek", vec![c.to_string(), rng.below(65536).to_string(), rng.below(4).to_string()]);
        }
    }
    // CRAM codecs, flag sweep: a valid encoding under EVERY flag byte the encoder accepts (128
    // combinations of ORDER / N32|EXT / STRIPE / NO_SIZE / CAT / RLE / PACK) x nine plain-input
    // classes, plus fqzcomp / name tokenizer parameter variants.  The decoder models of C08
    // branch on each of these bits; the six + four hand-picked flag bytes above never reach e.g.
    // RLE+PACK+ORDER-1 inside STRIPE or the NO_SIZE paths by single-byte mutation.
    {
        let mut names: Vec<String> = Vec::new();
        for bits in (0..=255u32).filter(|b| b & 0x02 == 0) {
            for k in 0..files::N_PLAINS {
                names.push(format!("nx16x{bits:02x}p{k}"));
                names.push(format!("aacx{bits:02x}p{k}"));
            }
        }
        for k in 0..files::N_FQZ_VARIANTS {
            names.push(format!("fqzv{k}"));
        }
        for k in 0..files::N_TOK_VARIANTS {
            names.push(format!("tokv{k}"));
        }
        for name in &names {
            let p = base(&format!("codec-{name}"));
            let n = p.len() as u64;
            if n == 0 {
                continue; // the encoder refuses this combination
            }
            if div == 1 {
                push_mut(w, "cmut", name, "id", 0, 0);
                // every truncation of a short stream, a spread of a long one
                let step = if thorough { (n / 64).max(1) } else { (n / 6).max(1) };
                let mut l = 0;
                while l < n {
                    push_mut(w, "cmut", name, "trunc", l, 0);
                    l += step;
                }
                // the header bytes (flags, sizes, table heads) exhaustively in the thorough tier
                if thorough {
                    for pos in 0..n.min(6) {
                        for val in [0u64, 1, 0x7f, 0x80, 0xff, p[pos as usize] as u64 ^ 0x08, p[pos as usize] as u64 ^ 0x40, p[pos as usize] as u64 ^ 0x01] {
                            if val != p[pos as usize] as u64 {
                                push_mut(w, "cmut", name, "sub", pos, val);
                            }
                        }
                    }
                }
            }
            for _ in 0..(if thorough { 24 } else if div == 1 { 5 } else { 1 }) {
                let pos = if rng.chance(1, 3) { rng.below(n.min(8)) } else { rng.below(n) };
                let cur = p[pos as usize];
                let val = match rng.below(4) {
                    0 => cur.wrapping_add(1),
                    1 => cur ^ (1 << rng.below(8)),
                    2 => *rng.pick(SUB_VALUES),
                    _ => rng.next() as u8,
                };
                if val != cur {
                    push_mut(w, "cmut", name, "sub", pos, val as u64);
                }
            }
            if rng.chance(1, 4) {
                let o = rng.below(n);
                push_mut(w, "cmut", name, "u32", o, *rng.pick(U32_VALUES));
                push_mut(w, "cmut", name, "del", o, 1);
            }
        }
    }
    // CRAM codecs: mutations of valid encodings, arbitrary bytes
    for name in files::CODECS {
        let key = format!("codec-{name}");
        let p = base(&key);
        let n = p.len() as u64;
        if div == 1 {
            push_mut(w, "cmut", name, "id", 0, 0);
        }
        if thorough && n <= 400 {
            for pos in 0..n {
                for val in 0..=255u64 {
                    if val != p[pos as usize] as u64 {
                        push_mut(w, "cmut", name, "sub", pos, val);
                    }
                }
            }
        } else {
            for _ in 0..q(if thorough { 8000 } else { 500 }) {
                let pos = rng.below(n);
                let cur = p[pos as usize];
                let val = match rng.below(4) {
                    0 => cur.wrapping_add(1),
                    1 => cur.wrapping_sub(1),
                    2 => *rng.pick(SUB_VALUES),
                    _ => rng.next() as u8,
                };
                if val != cur {
                    push_mut(w, "cmut", name, "sub", pos, val as u64);
                }
            }
        }
        for l in 0..(if div == 1 { n } else { 0 }) {
            push_mut(w, "cmut", name, "trunc", l, 0);
        }
        for _ in 0..q(if thorough { 400 } else { 40 }) {
            let o = rng.below(n);
            push_mut(w, "cmut", name, "u32", o, *rng.pick(U32_VALUES));
            push_mut(w, "cmut", name, "u16", o, *rng.pick(U16_VALUES));
            push_mut(w, "cmut", name, "del", o, 1);
            push_mut(w, "cmut", name, "ins", o, rng.below(256));
        }
        // arbitrary bytes
        for i in 0..q(if thorough { 1500 } else { 120 }) {
            let len = match rng.below(4) {
                0 => rng.below(8),
                1 => rng.below(40),
                _ => rng.below(300),
            } as usize;
            let bytes = match i % 8 {
                0 => vec![0u8; len],
                1 => vec![0xffu8; len],
                2 => {
                    // a valid prefix followed by noise
                    let k = rng.below(n + 1) as usize;
                    let mut v = p[..k].to_vec();
                    v.extend(rng.bytes(len));
                    v
                }
                3 => (0..len).map(|_| *rng.pick(&[0u8, 1, 0x7f, 0x80, 0xff, 0x40])).collect(),
                _ => rng.bytes(len),
            };
            let us = *rng.pick(&[0u64, 1, 4, 88, 1000, 65536]);
            w.push("craw", vec![name.to_string(), us.to_string(), hex(&bytes)]);
        }
    }
}

fn push_itf8(t: &mut Vec<u8>, v: u32) {
    if v >= 0x1000_0000 {
        t.extend_from_slice(&[0xf0 | (v >> 28) as u8, (v >> 20) as u8, (v >> 12) as u8, (v >> 4) as u8, v as u8 & 0x0f]);
    } else if v < 0x80 {
        t.push(v as u8);
    } else if v < 0x4000 {
        t.extend_from_slice(&[0x80 | (v >> 8) as u8, v as u8]);
    } else if v < 0x20_0000 {
        t.extend_from_slice(&[0xc0 | (v >> 16) as u8, (v >> 8) as u8, v as u8]);
    } else {
        t.extend_from_slice(&[0xe0 | (v >> 24) as u8, (v >> 16) as u8, (v >> 8) as u8, v as u8]);
    }
}

fn block_starts(file: &[u8]) -> Vec<u64> {
    let mut v = Vec::new();
    let mut p = 0usize;
    while p + 18 <= file.len() {
        v.push(p as u64);
        let bsize = u16::from_le_bytes([file[p + 16], file[p + 17]]) as usize + 1;
        p += bsize;
    }
    v
}

// ---------------------------------------------------------------------------------------------
// running

fn short_hex(b: &[u8]) -> String {
    let h = hex(b);
    if h.len() > 6000 { format!("{}..({} bytes)", &h[..6000], b.len()) } else { h }
}

fn run_payload(fmt: String, payload: Vec<u8>) -> Obs {
    let shown = payload.clone();
    let f2 = fmt.clone();
    let ran = watchdog(move || {
        let file = seal(&f2, payload);
        c15_decode::decode(decoder_of(&f2), &file)
    });
    verdict(decoder_of(&fmt), ran, &|| format!("raw {fmt} {}", short_hex(&shown)))
}

fn run_iq(kind: String, payload: Vec<u8>) -> Obs {
    let shown = payload.clone();
    let k2 = kind.clone();
    let ran = watchdog(move || {
        let file = seal(&format!("iq-{k2}"), payload);
        c15_decode::index_query(&k2, &file)
    });
    verdict(&format!("iq-{kind}"), ran, &|| format!("iqraw {kind} {}", short_hex(&shown)))
}

fn run_codec(name: String, us: usize, bytes: Vec<u8>) -> Obs {
    let shown = bytes.clone();
    let n2 = name.clone();
    let ran = watchdog(move || c15_decode::codec(&n2, &bytes, us));
    let family = if name.starts_with("rans4x8") {
        "rans4x8"
    } else if name.starts_with("nx16") {
        "nx16"
    } else if name.starts_with("aac") {
        "aac"
    } else if name.starts_with("fqz") {
        "fqz"
    } else if name.starts_with("tok") {
        "tok"
    } else {
        name.as_str()
    };
    verdict(&format!("codec-{family}"), ran, &|| format!("craw {name} {us} {}", short_hex(&shown)))
}

// --- modelled kinds

fn run_dref(lens: Vec<u64>, k: usize, upos: u64, how: u64) -> Obs {
    // a BGZF file whose frames carry the given data lengths (0 = the 28-byte empty block); seek to
    // frame k with in-block offset upos, then fill_buf (how = 0) or read_exact of one byte
    use std::io::Write as _;
    let empty = files::bgzip(&[]);
    let mut file = Vec::new();
    let mut starts = Vec::new();
    for &l in &lens {
        starts.push(file.len() as u64);
        if l == 0 {
            file.extend_from_slice(&empty);
        } else {
            let mut w = noodles_bgzf::io::Writer::new(Vec::new());
            w.write_all(&vec![b'x'; l as usize]).unwrap();
            w.flush().unwrap();
            file.extend_from_slice(&w.into_inner());
        }
    }
    starts.push(file.len() as u64);
    let co = starts[k.min(starts.len() - 1)];
    let desc = format!("dref lens={lens:?} k={k} upos={upos} how={how}");
    let ran = watchdog(move || {
        let s = c15_decode::bgzf_seek(&file, co, upos as u16, if how == 0 { 0 } else { 2 });
        if s.starts_with("Err") { "Err".to_string() } else { s }
    });
    match ran {
        Ran::Done(s) => Obs::ok(s, true),
        Ran::Panic { file, line, msg } => {
            let tag = site_tag("bgzf", &file, line, &msg);
            Obs::fail("Panic", &tag, format!("{file}:{line}: {msg} | {desc}"))
        }
        Ran::Hang(_) => Obs::fail("Hang", "hang-bgzf", desc),
        Ran::TooLarge(n, _) => Obs::fail("TooLarge", "alloc-bgzf", format!("{n}")),
    }
}

fn run_csiq(ms: u64, d: u64, id: u64, s: u64, e: u64) -> Obs {
    use noodles_bgzf::VirtualPosition as VP;
    use noodles_core::Position;
    use noodles_csi::binning_index::index::{
        ReferenceSequence,
        reference_sequence::{Bin, bin::Chunk, index::BinnedIndex},
    };
    let ran = watchdog(move || {
        let bins: indexmap::IndexMap<usize, Bin> =
            [(id as usize, Bin::new(vec![Chunk::new(VP::from(1), VP::from(2))]))].into_iter().collect();
        let rs: ReferenceSequence<BinnedIndex> = ReferenceSequence::new(bins, BinnedIndex::default(), None);
        let (Some(a), Some(b)) = (Position::new(s as usize), Position::new(e as usize)) else {
            return "bad".into();
        };
        match rs.query(ms as u8, d as u8, a..=b) {
            Ok(v) => format!("Ok:{}", v.len()),
            Err(_) => "Err".to_string(),
        }
    });
    match ran {
        Ran::Done(s) => Obs::ok(s, true),
        Ran::Panic { file, line, msg } => {
            let tag = site_tag("csi", &file, line, &msg);
            Obs::fail("Panic", &tag, format!("{file}:{line}: {msg} | csiq ms={ms} depth={d} bin={id} {s}-{e}"))
        }
        Ran::Hang(_) => Obs::fail("Hang", "hang-csi", "csiq"),
        Ran::TooLarge(n, _) => Obs::fail("TooLarge", "alloc-csi", format!("{n} bytes | csiq ms={ms} depth={d} bin={id} {s}-{e}")),
    }
}

/// gff Record::attributes().iter() driven to its end (bounded): every item in order.
/// obs = `O<hex tag>:S<hex>` / `O<hex tag>:A<hex>,<hex>..` / `E`, joined by ';' (`_` = no item).
fn run_gffit(col: Vec<u8>) -> Obs {
    use noodles_gff as gff;
    let shown = hex(&col);
    let bound = 16 * (col.len() + 64);
    let ran = watchdog(move || {
        let mut data = b"sq0\t.\tgene\t1\t2\t.\t+\t.\t".to_vec();
        data.extend_from_slice(&col);
        data.push(b'\n');
        let mut r = gff::io::Reader::new(&data[..]);
        let mut line = gff::Line::default();
        match r.read_line(&mut line) {
            Ok(n) if n > 0 => {}
            _ => return "NoLine".to_string(),
        }
        let rec = match line.as_record() {
            Some(Ok(rec)) => rec,
            _ => return "NoRecord".to_string(),
        };
        let attrs = rec.attributes();
        let mut items = Vec::new();
        for (i, x) in attrs.iter().enumerate() {
            if i >= bound {
                return "runaway:attributes-iter".to_string();
            }
            items.push(match x {
                Ok((t, gff::record::attributes::field::Value::String(v))) => format!("O{}:S{}", hex(&t), hex(&v)),
                Ok((t, gff::record::attributes::field::Value::Array(a))) => {
                    format!("O{}:A{}", hex(&t), a.iter().map(|e| hex(&e)).collect::<Vec<_>>().join(","))
                }
                Err(_) => "E".to_string(),
            });
        }
        if items.is_empty() { "_".to_string() } else { items.join(";") }
    });
    match ran {
        Ran::Done(s) if s.starts_with("runaway:") => Obs::fail("Hang", "hang-gff-attributes-iter", format!("gffit {shown}")),
        Ran::Done(s) => {
            // the property on this case: at most one error, and it is the last item
            let errs = s.split(';').filter(|x| *x == "E").count();
            if errs > 1 || (errs == 1 && !s.ends_with('E')) {
                Obs::fail(s, "gff-attributes-iter-not-fused", format!("gffit {shown}"))
            } else {
                Obs::ok(s, true)
            }
        }
        Ran::Panic { file, line, msg } => {
            let tag = site_tag("gff", &file, line, &msg);
            Obs::fail("Panic", &tag, format!("{file}:{line}: {msg} | gffit {shown}"))
        }
        Ran::Hang(_) => Obs::fail("Hang", "hang-gff-attributes-iter", format!("gffit {shown}")),
        Ran::TooLarge(n, _) => Obs::fail("TooLarge", "alloc-gff", format!("{n} bytes | gffit {shown}")),
    }
}

/// ONE bam::io::Reader::read_record call on block_size = |body| + body, then the raw lazy accessors
/// of the bam::Record it filled (model: NV.Hostile.BamAcc.read_record_view). A panic is a failure.
fn run_bamv(body: Vec<u8>) -> Obs {
    use noodles_bam as bam;
    let shown = hex(&body);
    let ran = watchdog(move || {
        let mut data = (body.len() as u32).to_le_bytes().to_vec();
        data.extend_from_slice(&body);
        let mut r = bam::io::Reader::from(&data[..]);
        let mut rec = bam::Record::default();
        match r.read_record(&mut rec) {
            Ok(0) => "Eof".to_string(),
            Err(e) => format!("Err:{}", nv::errkind(&e)),
            Ok(_) => {
                let hx = |b: &[u8]| if b.is_empty() { "-".to_string() } else { hex(b) };
                let name = rec.name().map(|n| hx(n)).unwrap_or_else(|| "*".to_string());
                let cigar = hx(rec.cigar().as_bytes());
                let seq = hx(&rec.sequence().iter().collect::<Vec<u8>>());
                let qual = hx(rec.quality_scores().as_bytes());
                let dat = hx(rec.data().as_bytes());
                format!("Ok {name} {cigar} {seq} {qual} {dat}")
            }
        }
    });
    match ran {
        Ran::Done(s) => Obs::ok(s, true),
        Ran::Panic { file, line, msg } => {
            let tag = site_tag("bam", &file, line, &msg);
            Obs::fail("Panic", &tag, format!("{file}:{line}: {msg} | bamv {shown}"))
        }
        Ran::Hang(_) => Obs::fail("Hang", "hang-bam-read-record", format!("bamv {shown}")),
        Ran::TooLarge(n, _) => Obs::fail("TooLarge", "alloc-bam", format!("{n} bytes | bamv {shown}")),
    }
}

/// CRAM resolve_mates on arbitrary cram flags / mate distances through a sealed container
/// (model: NV.Hostile.MatesP.resolve_view_series)
fn run_cmate(arg: String) -> Obs {
    let Some(rs) = c15_cmate::parse_recs(&arg) else {
        return Obs::fail("-", "harness-cmate-args", &arg);
    };
    if !c15_cmate::writable(&rs) {
        return Obs { obs: "-".into(), verdict: "skip".into(), nontrivial: false };
    }
    let shown = arg.clone();
    let ran = watchdog(move || match c15_cmate::run(&rs) {
        Ok(s) => s,
        Err(e) => format!("Harness:{e}"),
    });
    match ran {
        Ran::Done(s) if s.starts_with("Harness:") => Obs::fail(s.clone(), "harness-cmate", format!("{s} | cmate {shown}")),
        Ran::Done(s) => Obs::ok(s, true),
        Ran::Panic { file, line, msg } => {
            let tag = site_tag("cram", &file, line, &msg);
            Obs::fail("Panic", &tag, format!("{file}:{line}: {msg} | cmate {shown}"))
        }
        Ran::Hang(_) => Obs::fail("Hang", "hang-cram-resolve-mates", format!("cmate {shown}")),
        Ran::TooLarge(n, _) => Obs::fail("TooLarge", "alloc-cram-resolve-mates", format!("{n} bytes | cmate {shown}")),
    }
}

fn run_rfreq(table: Vec<u8>) -> Obs {
    // order 0, compressed size, uncompressed size 1 => decode() reads the table, builds the cumulative
    // table and the lookup table, reads the 4 states (each 2^23) and decodes one symbol
    let mut src = vec![0u8];
    src.extend_from_slice(&((table.len() + 24) as u32).to_le_bytes());
    src.extend_from_slice(&1u32.to_le_bytes());
    src.extend_from_slice(&table);
    for _ in 0..4 {
        src.extend_from_slice(&0x0080_0000u32.to_le_bytes());
    }
    src.extend_from_slice(&[0u8; 8]);
    let shown = hex(&table);
    let ran = watchdog(move || match noodles_cram::verif::rans_4x8_decode(&src) {
        Ok(_) => "Ok".to_string(),
        Err(_) => "Err".to_string(),
    });
    match ran {
        Ran::Done(s) => Obs::ok(s, true),
        Ran::Panic { file, line, msg } => {
            let tag = site_tag("cram", &file, line, &msg);
            Obs::fail("Panic", &tag, format!("{file}:{line}: {msg} | rfreq {shown}"))
        }
        Ran::Hang(_) => Obs::fail("Hang", "hang-rans4x8", shown),
        Ran::TooLarge(n, _) => Obs::fail("TooLarge", "alloc-rans4x8", format!("{n}")),
    }
}

// ---------------------------------------------------------------------------------------------
// nest: recursion driven by the input.  BCF typed descriptors whose length nibble is 15 read the
// real length as a typed integer, through read_value -> read_type -> read_value ...; a run of
// `count` descriptor bytes 0xf1 placed where a typed value is expected (block length adjusted so
// that the record still frames) makes the decoder recurse once per byte.  A stack overflow cannot
// be caught in-process, so the case runs in a child process (`c15 one nest ...`, C15_NEST_CHILD=1).

fn nest_payload(fmt: &str, place: &str, count: usize) -> Option<Vec<u8>> {
    if fmt != "bcf" {
        return None;
    }
    let p = base("bcf");
    let &(start, _len) = bcf_records(&p).first()?;
    let ls = le32(&p, start)?;
    let mut v = p.to_vec();
    let run = std::iter::repeat(0xf1u8).take(count);
    match place {
        // the ID column: the first typed value of the site block, right after the 24 fixed bytes
        "ids" => {
            v.splice(start + 8 + 24..start + 8 + 24, run);
            add_le(&mut v, start, 4, count as i64);
        }
        // the key of the first FORMAT series: the first typed value of the individual block
        "fmtkey" => {
            v.splice(start + 8 + ls..start + 8 + ls, run);
            add_le(&mut v, start + 4, 4, count as i64);
        }
        _ => return None,
    }
    Some(v)
}

fn run_nest(fmt: String, place: String, count: usize) -> Obs {
    if std::env::var("C15_NEST_CHILD").is_ok() {
        return match nest_payload(&fmt, &place, count) {
            Some(m) => run_payload(fmt, m),
            None => Obs { obs: "-".into(), verdict: "skip".into(), nontrivial: false },
        };
    }
    let Ok(exe) = std::env::current_exe() else { return Obs::fail("-", "harness-no-exe", "current_exe") };
    let out = std::process::Command::new(exe)
        .args(["one", "nest", &fmt, &place, &count.to_string()])
        .env("C15_NEST_CHILD", "1")
        .env("C15_INNER", "1")
        .output();
    match out {
        Ok(o) if o.status.success() => {
            let text = String::from_utf8_lossy(&o.stdout);
            let line = text.lines().last().unwrap_or("");
            let verdict = line.split('\t').nth(1).unwrap_or("fail harness-nest-child-output").to_string();
            let nontrivial = verdict != "skip";
            Obs { obs: "-".into(), verdict, nontrivial }
        }
        Ok(o) => {
            let err = String::from_utf8_lossy(&o.stderr);
            let what = if err.contains("overflowed its stack") { "stack" } else { "abort" };
            Obs::fail(
                "-",
                &format!("{what}-{fmt}-typed-length-nesting"),
                format!("the process died ({:?}) on {count} nested length-overflow descriptors (0xf1) at {place} | nest {fmt} {place} {count}", o.status),
            )
        }
        Err(e) => Obs::fail("-", "harness-nest-spawn", e.to_string()),
    }
}

fn run(c: &Case) -> Obs {
    if SPINNING.load(Ordering::SeqCst) >= 3 && std::env::var("C15_INNER").is_ok() {
        // too many runaway decoder threads in this process: let the supervisor run the rest of the
        // chunk in a fresh process (otherwise they starve the watchdog of the remaining cases)
        return Obs { obs: "-".into(), verdict: "retry".into(), nontrivial: false };
    }
    match c.kind.as_str() {
        "mut" | "iq" | "cmut" => {
            let fmt = c.args[0].clone();
            let key = match c.kind.as_str() {
                "mut" => fmt.clone(),
                "iq" => format!("iq-{fmt}"),
                _ => format!("codec-{fmt}"),
            };
            let p = base(&key);
            let Some(m) = mutate(&p, &c.args[1], c.u(2), c.u(3)) else {
                return Obs { obs: "-".into(), verdict: "skip".into(), nontrivial: false };
            };
            match c.kind.as_str() {
                "mut" => run_payload(fmt, m),
                "iq" => run_iq(fmt, m),
                _ => {
                    let us = files::codec_base(&fmt).1;
                    run_codec(fmt, us, m)
                }
            }
        }
        "raw" => run_payload(c.args[0].clone(), c.b(1)),
        "iqraw" => run_iq(c.args[0].clone(), c.b(1)),
        "craw" => run_codec(c.args[0].clone(), c.u(1) as usize, c.b(2)),
        "seek" => {
            let (co, uo, how) = (c.u(0), c.u(1), c.u(2));
            let file = base("bgzf");
            let ran = watchdog(move || c15_decode::bgzf_seek(&file, co, uo as u16, how));
            verdict("bgzf", ran, &|| format!("seek {co} {uo} {how}"))
        }
        "dref" => {
            let lens: Vec<u64> = if c.args[0] == "_" { vec![] } else { c.args[0].split(',').map(|x| x.parse().unwrap()).collect() };
            run_dref(lens, c.u(1) as usize, c.u(2), c.u(3))
        }
        "csiq" => run_csiq(c.u(0), c.u(1), c.u(2), c.u(3), c.u(4)),
        "rfreq" => run_rfreq(c.b(0)),
        "gffit" => run_gffit(c.b(0)),
        "cmate" => run_cmate(c.args[0].clone()),
        "bamv" => run_bamv(if c.args[0] == "_" { Vec::new() } else { c.b(0) }),
        "nest" => run_nest(c.args[0].clone(), c.args[1].clone(), c.u(2) as usize),
        k => Obs::fail("-", "harness-unknown-kind", k),
    }
}

// ---------------------------------------------------------------------------------------------
// supervisor: `run` re-executes itself on chunks so that an abort / stack overflow of one case is
// a verdict, not the end of the run

fn run_chunk(exe: &std::path::Path, dir: &std::path::Path, lines: &[String], depth: usize, out: &mut Vec<String>) {
    if lines.is_empty() {
        return;
    }
    let tag = format!("{}-{}-{}", std::process::id(), depth, out.len());
    let cf = dir.join(format!("chunk-{tag}.cases"));
    let of = dir.join(format!("chunk-{tag}.out"));
    std::fs::write(&cf, lines.join("\n") + "\n").unwrap();
    let st = std::process::Command::new(exe)
        .arg("run")
        .arg(&cf)
        .arg(&of)
        .env("C15_INNER", "1")
        .status();
    let ok = matches!(&st, Ok(s) if s.success());
    let res = if ok { std::fs::read_to_string(&of).ok() } else { None };
    let _ = std::fs::remove_file(&cf);
    let _ = std::fs::remove_file(&of);
    match res {
        Some(text) if text.lines().count() == lines.len() => {
            let mut again = Vec::new();
            for (l, c) in text.lines().zip(lines) {
                if l.split('\t').nth(2) == Some("retry") {
                    again.push(c.clone());
                } else {
                    out.push(l.to_string());
                }
            }
            if !again.is_empty() && again.len() < lines.len() {
                run_chunk(exe, dir, &again, depth + 1, out);
            } else {
                for c in again {
                    let id = c.split('\t').next().unwrap_or("?");
                    out.push(format!("{id}\t-\tfail harness-retry-exhausted\t1"));
                }
            }
        }
        _ => {
            if lines.len() == 1 {
                let mut it = lines[0].split('\t');
                let id = it.next().unwrap_or("?");
                let kind = it.next().unwrap_or("?");
                let fmt = it.next().unwrap_or("?");
                let line = lines[0].chars().take(4000).collect::<String>().replace('\t', " ");
                out.push(format!("{id}\t-\tfail abort-{kind}-{fmt} the process died ({st:?}) | {line}\t1"));
            } else {
                let mid = lines.len() / 2;
                run_chunk(exe, dir, &lines[..mid], depth + 1, out);
                run_chunk(exe, dir, &lines[mid..], depth + 1, out);
            }
        }
    }
}

fn supervise(cases: &str, outp: &str) {
    let exe = std::env::current_exe().expect("current_exe");
    let text = std::fs::read_to_string(cases).expect("cases");
    let lines: Vec<String> = text.lines().filter(|l| !l.is_empty()).map(|l| l.to_string()).collect();
    let dir = std::env::temp_dir().join(format!("c15-{}", std::process::id()));
    std::fs::create_dir_all(&dir).unwrap();
    let mut out = Vec::with_capacity(lines.len());
    for chunk in lines.chunks(60_000) {
        run_chunk(&exe, &dir, chunk, 0, &mut out);
    }
    let _ = std::fs::remove_dir_all(&dir);
    std::fs::write(outp, out.join("\n") + "\n").expect("write out");
}

fn main() {
    let args: Vec<String> = std::env::args().collect();
    if args.get(1).map(|s| s.as_str()) == Some("run") && std::env::var("C15_INNER").is_err() && args.len() >= 4 {
        supervise(&args[2], &args[3]);
        return;
    }
    if args.get(1).map(|s| s.as_str()) == Some("one") {
        // c15 one <kind> <args...> : run a single case in this process, print the verdict
        let c = Case::new("one", &args[2], args[3..].to_vec());
        let o = run(&c);
        println!("{}\t{}", o.obs, o.verdict);
        return;
    }
    let _ = unhex;
    nv::main_with(generate, run);
}
