//! C12: decoded content does not depend on how the underlying stream chunks its reads.
//!
//! Implementation-only oracles (the property itself, L3):
//!   dlv  fmt seed effort filehex   decode the file from a plain slice and through many adversarial
//!                                   deliveries without Interrupted (1-byte, k-byte, a cut at every
//!                                   offset, random cut sets, random scripts, every BufReader capacity);
//!                                   all canonical transcripts must be identical
//!   dlvi fmt seed effort filehex   the same with ErrorKind::Interrupted injected (everywhere, at each
//!                                   offset with and without a cut there, randomly)
//! Modelled kinds (obs compared with the extracted Coq model, L2; verdict = schedule independence
//! of the primitive on this input, checked against the closed-form result):
//!   rx    data script n1,n2,..        std Read::read_exact straight on the scripted source
//!   rxb   data script cap n1,n2,..    the same through std::io::BufReader::with_capacity(cap)
//!   roe   data script                 bam::io::Reader::from(src).read_record: read_exact_or_eof(4) + read_exact(n) + validate
//!   frame data script                 bgzf::io::Reader::new(src).read(): read_frame_into (header/size check/body)
//!   ru    data script cap             BufRead::read_until(b'\n') to the end
//!   gffl  data script cap             gff::io::Reader::read_line (read_until + LF/CRLF strip + blank skipping)
//!   fseq  data cap script             fasta sequence::Reader (read_sequence) fed by BufReader windows
//!   fidx  data cap script             fasta Indexer::index_record fed by BufReader windows
//!   (further whole-file kinds: see shared/c12_l2b.rs)

use std::io::{BufReader, Read};
use std::sync::Arc;

use nv::adversary::{Deliver, ScriptedReader};
use nv::{Case, CaseWriter, Obs, Outcome, Rng, guarded, hex};

#[path = "../shared/c12_adv.rs"]
mod c12_adv;
#[path = "../shared/c12_decode.rs"]
mod c12_decode;
#[path = "../shared/c12_files.rs"]
mod c12_files;
#[path = "../shared/c12_l2b.rs"]
mod c12_l2b;
#[path = "../shared/c12_prog.rs"]
mod c12_prog;
#[path = "../shared/c12_seq.rs"]
mod c12_seq;

use c12_adv::{Delivery, fmt_script, parse_script};
use c12_decode::{T, decode_b, decode_bs, decode_r, is_read_format};
use c12_files as files;

const CAPS: &[usize] = &[1, 2, 3, 5, 7, 16, 64, 4096, 65536];

// ---------------------------------------------------------------------------------------------
// transcripts

fn transcript(fmt: &str, data: &Arc<Vec<u8>>, d: Option<&Delivery>) -> Vec<String> {
    let mut t = T::new();
    let r = guarded(std::panic::AssertUnwindSafe(|| match d {
        _ if fmt == "fastaq" => match d {
            None => decode_bs(fmt, &data[..], &|| std::io::Cursor::new(&data[..]), &mut t),
            Some(d) => decode_bs(fmt, &data[..], &|| BufReader::with_capacity(d.cap.unwrap_or(8192), d.source(data)), &mut t),
        },
        None => {
            if is_read_format(fmt) {
                decode_r(fmt, &|| &data[..], &mut t)
            } else {
                decode_b(fmt, &|| &data[..], &mut t)
            }
        }
        Some(d) => match d.cap {
            None => decode_r(fmt, &|| d.source(data), &mut t),
            Some(c) => {
                if is_read_format(fmt) {
                    decode_r(fmt, &|| BufReader::with_capacity(c, d.source(data)), &mut t)
                } else {
                    decode_b(fmt, &|| BufReader::with_capacity(c, d.source(data)), &mut t)
                }
            }
        },
    }));
    if let Outcome::Panicked(_) = r {
        t.items.push("Panic".into());
    }
    t.items
}

fn bgzf_boundaries(data: &[u8]) -> Vec<usize> {
    let mut v = Vec::new();
    let mut at = 0usize;
    while at + 18 <= data.len() && data[at] == 0x1f && data[at + 1] == 0x8b {
        let bsize = u16::from_le_bytes([data[at + 16], data[at + 17]]) as usize + 1;
        for p in [at + 1, at + 17, at + 18, at + 19, at + bsize - 8, at + bsize - 1, at + bsize, at + bsize + 1] {
            v.push(p);
        }
        at += bsize;
    }
    v
}

fn offsets(data: &[u8], rng: &mut Rng, effort: u64) -> Vec<usize> {
    let len = data.len();
    let exhaustive = if effort == 0 { 2000 } else { 6000 };
    let mut v: Vec<usize> = if len <= exhaustive {
        (1..len).collect()
    } else {
        let mut v = bgzf_boundaries(data);
        let stride = (len / 64).max(1);
        v.extend((1..len).step_by(stride));
        for p in [1, 2, 3, 4, 5, 8, 9, 12, 13, 16, 17, 18, 19, 26, 27, 28, 29] {
            v.push(p);
            v.push(len.saturating_sub(p));
        }
        for _ in 0..(if effort == 0 { 64 } else { 400 }) {
            v.push(rng.below(len as u64) as usize);
        }
        v
    };
    v.retain(|&p| p >= 1 && p < len);
    v.sort_unstable();
    v.dedup();
    v
}

fn rbytes(rng: &mut Rng, lo: u64, hi: u64) -> Vec<u8> {
    let n = rng.range(lo, hi) as usize;
    rng.bytes(n)
}

fn random_script(rng: &mut Rng, len: usize, with_intr: bool) -> Vec<Deliver> {
    let mut s = Vec::new();
    let style = rng.below(4);
    let n = (len + 8).min(4000);
    for _ in 0..n {
        if with_intr && rng.chance(1, 3) {
            s.push(Deliver::Interrupted);
        }
        let k = match style {
            0 => 1,
            1 => rng.range(1, 4),
            2 => rng.range(1, 40),
            _ => {
                if rng.chance(1, 8) {
                    rng.range(1, 70000)
                } else {
                    rng.range(1, 9)
                }
            }
        } as usize;
        s.push(Deliver::Bytes(k));
    }
    s
}

fn deliveries(fmt: &str, data: &[u8], seed: u64, effort: u64, with_intr: bool) -> Vec<Delivery> {
    let mut rng = Rng::new(seed ^ 0xC12);
    let is_read = is_read_format(fmt);
    let len = data.len();
    let mut out = Vec::new();
    let base = Delivery::plain("");
    let named = |name: String, f: &dyn Fn(&mut Delivery)| {
        let mut d = base.clone();
        d.name = name;
        f(&mut d);
        d
    };
    let offs = offsets(data, &mut rng, effort);
    if !with_intr {
        for &c in CAPS {
            out.push(named(format!("cap{c}"), &|d| d.cap = Some(c)));
        }
        if is_read {
            for k in [1usize, 2, 3, 5, 7, 13, 64, 4096] {
                out.push(named(format!("raw/max{k}"), &|d| d.max_read = k));
            }
        }
        for (k, caps) in [(1usize, &[1usize, 3, 64, 65536][..]), (3, &[2, 5, 16]), (7, &[3, 4096]), (64, &[7, 65536])] {
            for &c in caps {
                out.push(named(format!("cap{c}/max{k}"), &|d| {
                    d.cap = Some(c);
                    d.max_read = k
                }));
            }
        }
        for (i, &p) in offs.iter().enumerate() {
            let cuts = Arc::new(vec![p]);
            if is_read {
                out.push(named(format!("raw/cut{p}"), &|d| d.cuts = cuts.clone()));
            }
            let c = [65536usize, 4096, 64, 16][i % 4];
            out.push(named(format!("cap{c}/cut{p}"), &|d| {
                d.cuts = cuts.clone();
                d.cap = Some(c)
            }));
            if c != 65536 && (!is_read || i % 2 == 0) {
                out.push(named(format!("cap65536/cut{p}"), &|d| {
                    d.cuts = cuts.clone();
                    d.cap = Some(65536)
                }));
            }
        }
        let nrand = if effort == 0 { 24 } else { 120 };
        for j in 0..nrand {
            let dens = *rng.pick(&[2u64, 8, 64]);
            let cuts: Vec<usize> = (1..len).filter(|_| rng.chance(1, dens)).collect();
            let cuts = Arc::new(cuts);
            let cap = if is_read && rng.chance(1, 2) { None } else { Some(*rng.pick(CAPS)) };
            out.push(named(format!("{cap:?}/randcuts{j}"), &|d| {
                d.cuts = cuts.clone();
                d.cap = cap
            }));
        }
        for j in 0..nrand {
            let s = Arc::new(random_script(&mut rng, len, false));
            let cap = if is_read && rng.chance(1, 2) { None } else { Some(*rng.pick(CAPS)) };
            out.push(named(format!("{cap:?}/script{j}:{}", fmt_script(&s[..s.len().min(24)])), &|d| {
                d.script = Some(s.clone());
                d.cap = cap
            }));
        }
    } else {
        for &c in CAPS {
            out.push(named(format!("cap{c}/intr-all"), &|d| {
                d.cap = Some(c);
                d.intr_all = true
            }));
        }
        if is_read {
            for k in [1usize, 3, 64, usize::MAX] {
                out.push(named(format!("raw/max{k}/intr-all"), &|d| {
                    d.max_read = k;
                    d.intr_all = true
                }));
            }
        }
        let mut offs_i = offs.clone();
        offs_i.insert(0, 0);
        offs_i.push(len);
        for (i, &p) in offs_i.iter().enumerate() {
            let at = Arc::new(vec![p]);
            let c = [65536usize, 4096, 64, 16][i % 4];
            // Interrupted between the two halves of a split at p
            out.push(named(format!("cap{c}/cut{p}+intr{p}"), &|d| {
                d.cuts = at.clone();
                d.intr = at.clone();
                d.cap = Some(c)
            }));
            if is_read {
                out.push(named(format!("raw/cut{p}+intr{p}"), &|d| {
                    d.cuts = at.clone();
                    d.intr = at.clone()
                }));
                // Interrupted when a read happens to start at p (no forced split)
                out.push(named(format!("raw/max5/intr{p}"), &|d| {
                    d.max_read = 5;
                    d.intr = at.clone()
                }));
            }
        }
        let nrand = if effort == 0 { 24 } else { 120 };
        for j in 0..nrand {
            let s = Arc::new(random_script(&mut rng, len, true));
            let cap = if is_read && rng.chance(1, 2) { None } else { Some(*rng.pick(CAPS)) };
            out.push(named(format!("{cap:?}/iscript{j}:{}", fmt_script(&s[..s.len().min(24)])), &|d| {
                d.script = Some(s.clone());
                d.cap = cap
            }));
        }
    }
    out
}

fn first_diff(a: &[String], b: &[String]) -> String {
    let i = a.iter().zip(b).position(|(x, y)| x != y).unwrap_or(a.len().min(b.len()));
    let cut = |s: Option<&String>| -> String {
        match s {
            None => "<none>".into(),
            Some(s) => s.chars().take(160).collect(),
        }
    };
    format!("item {i}: plain=[{}] adversarial=[{}]", cut(a.get(i)), cut(b.get(i)))
}

/// FASTA input classes with a known cause (re-derived from the input bytes)
fn fasta_class(data: &[u8]) -> Option<&'static str> {
    let bare_cr = data
        .iter()
        .enumerate()
        .any(|(i, &b)| b == b'\r' && i + 1 < data.len() && data[i + 1] != b'\n');
    if bare_cr {
        return Some("fasta-bare-cr-capacity-dependent");
    }
    let mid_gt = data
        .iter()
        .enumerate()
        .any(|(i, &b)| b == b'>' && i > 0 && data[i - 1] != b'\n');
    if mid_gt {
        return Some("fasta-midline-gt-capacity-dependent");
    }
    None
}

/// FASTQ: a definition line without description that ends in CRLF (name taken up to the LF; the CR is
/// stripped only when it is in the same fill_buf window as the LF)
fn fastq_class(data: &[u8]) -> Option<&'static str> {
    data.split(|&b| b == b'\n')
        .any(|l| l.first() == Some(&b'@') && l.last() == Some(&b'\r') && !l.contains(&b' ') && !l.contains(&b'\t'))
        .then_some("fastq-crlf-name-capacity-dependent")
}

/// VCF: a record line (not a '#' line) with a multi-byte UTF-8 character in one of its first eight
/// fields — noodles-vcf io/reader/record.rs read_field validates each fill_buf window on its own
fn vcf_class(data: &[u8]) -> Option<&'static str> {
    data.split(|&b| b == b'\n')
        .filter(|l| l.first() != Some(&b'#'))
        .any(|l| {
            let mut tabs = 0;
            l.iter().any(|&b| {
                if b == b'\t' {
                    tabs += 1;
                }
                tabs < 8 && b >= 0x80
            })
        })
        .then_some("vcf-record-field-utf8-split-capacity-dependent")
}

fn run_dlv(c: &Case, with_intr: bool) -> Obs {
    let fmt = c.args[0].as_str();
    let seed = c.u(1);
    let effort = c.u(2);
    let data = Arc::new(c.b(3));
    let plain = transcript(fmt, &data, None);
    if plain != transcript(fmt, &data, None) {
        return Obs::fail("-", "harness-nondeterministic-transcript", fmt);
    }
    let nontrivial = data.len() >= 2;
    let mut surfaced: Option<String> = None;
    for d in deliveries(fmt, &data, seed, effort, with_intr) {
        let t = transcript(fmt, &data, Some(&d));
        if t == plain {
            continue;
        }
        if with_intr {
            // a top-level call returned ErrorKind::Interrupted (noodles code called fill_buf()/read()
            // without the retry std's own loops perform); whether the retried call then loses data is a
            // consequence of the same cause
            let n = t.iter().filter(|s| s.starts_with("Err:Interrupted")).count();
            if n > 0 {
                if surfaced.is_none() {
                    let filtered: Vec<String> =
                        t.iter().filter(|s| !s.starts_with("Err:Interrupted")).cloned().collect();
                    let after = if filtered == plain {
                        "content-after-retry=same".to_string()
                    } else {
                        format!("content-after-retry=DIFFERENT {}", first_diff(&plain, &filtered))
                    };
                    surfaced = Some(format!("delivery={} interrupted-results={n} len={} {after}", d.name, data.len()));
                }
                continue;
            }
            // no Interrupted reached the caller, yet the content differs: is it the interruption or
            // just the chunking of this delivery?  Re-run the same delivery without the interrupts.
            let mut d2 = d.clone();
            d2.intr_all = false;
            d2.intr = Arc::new(Vec::new());
            if let Some(sc) = &d.script {
                d2.script = Some(Arc::new(sc.iter().copied().filter(|e| *e != Deliver::Interrupted).collect()));
            }
            if transcript(fmt, &data, Some(&d2)) == plain {
                return Obs::fail(
                    "-",
                    &format!("{fmt}-interrupted-changes-content"),
                    format!("delivery={} {}", d.name, first_diff(&plain, &t)),
                );
            }
        }
        let tag = match fmt {
            "fasta" | "fastaidx" => fasta_class(&data).map(|s| s.to_string()),
            "fastq" => fastq_class(&data).map(|s| s.to_string()),
            "vcf" => vcf_class(&data).map(|s| s.to_string()),
            _ => None,
        }
        .unwrap_or_else(|| format!("{fmt}-chunking-dependent"));
        return Obs::fail("-", &tag, format!("delivery={} {}", d.name, first_diff(&plain, &t)));
    }
    if let Some(s) = surfaced {
        return Obs::fail("-", &format!("{fmt}-interrupted-surfaced"), s);
    }
    Obs::ok("-", nontrivial)
}

// ---------------------------------------------------------------------------------------------
// L2: modelled primitives

fn parse_sizes(s: &str) -> Vec<usize> {
    if s == "_" {
        return vec![];
    }
    s.split(',').map(|t| t.parse().unwrap()).collect()
}

fn rk(r: &std::io::Result<()>) -> String {
    match r {
        Ok(()) => "Ok".into(),
        Err(e) => format!("Err:{:?}", e.kind()),
    }
}

/// closed-form expectation for a sequence of read_exact calls (what the theorem says)
fn rx_expected(data: &[u8], sizes: &[usize]) -> String {
    let mut pos = 0;
    let mut out = Vec::new();
    for &n in sizes {
        let avail = data.len() - pos;
        let k = n.min(avail);
        out.push(format!("{}:{}", hex(&data[pos..pos + k]), if n <= avail { "Ok" } else { "Err:UnexpectedEof" }));
        pos += k;
    }
    format!("{}|{pos}", out.join(";"))
}

fn run_rx(c: &Case, buffered: bool) -> Obs {
    let data = c.b(0);
    let script = parse_script(&c.args[1]);
    let (cap, sizes) = if buffered { (c.u(2) as usize, parse_sizes(&c.args[3])) } else { (0, parse_sizes(&c.args[2])) };
    let src = ScriptedReader::new(data.clone(), script);
    let mut out = Vec::new();
    let pos;
    if buffered {
        let mut r = BufReader::with_capacity(cap, src);
        for &n in &sizes {
            let before = r.get_ref().pos - r.buffer().len();
            let mut buf = vec![0u8; n];
            let res = r.read_exact(&mut buf);
            let after = r.get_ref().pos - r.buffer().len();
            out.push(format!("{}:{}", hex(&buf[..after - before]), rk(&res)));
        }
        pos = r.get_ref().pos - r.buffer().len();
    } else {
        let mut r = src;
        for &n in &sizes {
            let before = r.pos;
            let mut buf = vec![0u8; n];
            let res = r.read_exact(&mut buf);
            out.push(format!("{}:{}", hex(&buf[..r.pos - before]), rk(&res)));
        }
        pos = r.pos;
    }
    let obs = format!("{}|{pos}", out.join(";"));
    let exp = rx_expected(&data, &sizes);
    let o = Obs::ok(obs.clone(), sizes.iter().any(|&n| n > 1));
    if obs != exp {
        return Obs::fail(obs, "read-exact-schedule-dependent", format!("expected {exp}"));
    }
    o
}


fn io_kind<X>(r: &std::io::Result<X>) -> Option<String> {
    r.as_ref().err().map(|e| format!("Err:{:?}", e.kind()))
}

/// bgzf::io::Reader::read_exact across block boundaries: noodles' default_read_exact over a reader
/// (the BGZF reader itself) whose read() is short at every block end.  args: payload, block payload
/// sizes, read sizes.  obs: per call the bytes (Ok) or the error kind.
fn run_bxe(c: &Case) -> Obs {
    let payload = c.b(0);
    let blocks = parse_sizes(&c.args[1]);
    let sizes = parse_sizes(&c.args[2]);
    let mut breaks = Vec::new();
    let mut at = 0;
    for b in &blocks {
        at += b;
        breaks.push(at.min(payload.len()));
    }
    let file = files::bgzip(&payload, &breaks, true);
    let mut r = noodles_bgzf::io::Reader::new(&file[..]);
    let mut out = Vec::new();
    let mut pos = 0usize;
    let mut exp = Vec::new();
    for &n in &sizes {
        let mut buf = vec![0u8; n];
        let res = r.read_exact(&mut buf);
        match &res {
            Ok(()) => out.push(format!("{}:Ok", hex(&buf))),
            Err(e) => out.push(format!("_:Err:{:?}", e.kind())),
        }
        if n <= payload.len() - pos {
            exp.push(format!("{}:Ok", hex(&payload[pos..pos + n])));
            pos += n;
        } else {
            exp.push("_:Err:UnexpectedEof".to_string());
            pos = payload.len();
        }
    }
    let obs = out.join(";");
    let exp = exp.join(";");
    if obs != exp {
        return Obs::fail(obs, "bgzf-read-exact-block-layout-dependent", format!("expected {exp}"));
    }
    Obs::ok(obs, blocks.len() >= 2)
}

/// bam::io::Reader::from(src).read_record: read_exact_or_eof(4) / read_exact(n) / validate
fn run_roe(c: &Case) -> Obs {
    let data = c.b(0);
    let script = parse_script(&c.args[1]);
    let run1 = |script: Vec<Deliver>| -> String {
        let mut r = noodles_bam::io::Reader::from(ScriptedReader::new(data.clone(), script));
        let mut rec = noodles_bam::Record::default();
        let mut out = Vec::new();
        for _ in 0..8 {
            match r.read_record(&mut rec) {
                Ok(n) => {
                    out.push(format!("Ok:{n}"));
                    if n == 0 {
                        break;
                    }
                }
                Err(e) => {
                    out.push(format!("Err:{:?}", e.kind()));
                    break;
                }
            }
        }
        format!("{}|{}", out.join(","), r.get_ref().pos)
    };
    let obs = run1(script);
    let plain = run1(Vec::new());
    if obs != plain {
        return Obs::fail(obs, "bam-record-schedule-dependent", format!("plain delivery gives {plain}"));
    }
    Obs::ok(obs, data.len() >= 4)
}

/// bgzf::io::Reader::new(src).read(): read_frame_into + header check
fn run_frame(c: &Case) -> Obs {
    let data = c.b(0);
    let script = parse_script(&c.args[1]);
    let run1 = |script: Vec<Deliver>| -> String {
        let mut r = noodles_bgzf::io::Reader::new(ScriptedReader::new(data.clone(), script));
        let mut buf = [0u8; 16];
        let res = r.read(&mut buf);
        let rs = match &res {
            Ok(0) => "Eof".to_string(),
            Ok(_) => "Data".to_string(),
            Err(e) => format!("Err:{:?}", e.kind()),
        };
        format!("{rs}|{}", r.get_ref().pos)
    };
    let obs = run1(script);
    let plain = run1(Vec::new());
    if obs != plain {
        return Obs::fail(obs, "bgzf-frame-schedule-dependent", format!("plain delivery gives {plain}"));
    }
    Obs::ok(obs, data.len() >= 18)
}

fn bpos(r: &BufReader<ScriptedReader>) -> usize {
    r.get_ref().pos - r.buffer().len()
}

/// BufRead::read_until(b'\n') to the end
fn run_ru(c: &Case) -> Obs {
    use std::io::BufRead;
    let data = c.b(0);
    let script = parse_script(&c.args[1]);
    let cap = c.u(2) as usize;
    let mut r = BufReader::with_capacity(cap, ScriptedReader::new(data.clone(), script));
    let mut lines = Vec::new();
    for _ in 0..64 {
        let mut l = Vec::new();
        match r.read_until(b'\n', &mut l) {
            Ok(0) => break,
            Ok(_) => lines.push(hex(&l)),
            Err(e) => {
                lines.push(format!("Err:{:?}", e.kind()));
                break;
            }
        }
    }
    let obs = format!("{}|{}", lines.join(";"), bpos(&r));
    // closed form: split_inclusive on LF
    let exp: Vec<String> = data.split_inclusive(|&b| b == b'\n').take(64).map(hex).collect();
    let consumed: usize = data.split_inclusive(|&b| b == b'\n').take(64).map(|l| l.len()).sum();
    let exp = format!("{}|{consumed}", exp.join(";"));
    if obs != exp {
        return Obs::fail(obs, "read-until-schedule-dependent", format!("expected {exp}"));
    }
    Obs::ok(obs, data.contains(&b'\n'))
}

/// gff::io::Reader::read_line
fn run_gffl(c: &Case) -> Obs {
    let data = c.b(0);
    let cap = c.u(2) as usize;
    let run1 = |script: Vec<Deliver>, cap: usize| -> String {
        let mut r = noodles_gff::io::Reader::new(BufReader::with_capacity(cap, ScriptedReader::new(data.clone(), script)));
        let mut line = noodles_gff::Line::default();
        let mut out = Vec::new();
        for _ in 0..64 {
            match r.read_line(&mut line) {
                Ok(0) => break,
                Ok(n) => {
                    let raw: &bstr::BStr = line.as_ref();
                    out.push(format!("{n}:{}", hex(raw)));
                }
                Err(e) => {
                    out.push(format!("Err:{:?}", e.kind()));
                    break;
                }
            }
        }
        format!("{}|{}", out.join(";"), bpos(r.get_ref()))
    };
    let obs = run1(parse_script(&c.args[1]), cap);
    let plain = run1(Vec::new(), 8192);
    if obs != plain {
        return Obs::fail(obs, "gff-line-schedule-dependent", format!("plain delivery gives {plain}"));
    }
    Obs::ok(obs, data.contains(&b'\n'))
}

/// closed form of the (repaired) sequence reader — Coq: FastaScan.seq_out BOL
fn seq_closed(data: &[u8]) -> Vec<u8> {
    let mut out = Vec::new();
    let mut bol = true;
    let mut i = 0;
    while i < data.len() {
        let b = data[i];
        if b == b'\n' {
            bol = true;
        } else if bol {
            if b == b'>' {
                break;
            } else if b != b'\r' {
                out.push(b);
                bol = false;
            }
        } else if b == b'\r' {
            // a CR is part of the line terminator only just before LF (or the end of input)
            if i + 1 < data.len() && data[i + 1] != b'\n' {
                out.push(b);
            }
        } else {
            out.push(b);
        }
        i += 1;
    }
    out
}

/// fasta sequence::Reader at its BufRead interface: fill_buf / consume(whole slice)
fn run_fseq(c: &Case) -> Obs {
    use std::io::BufRead;
    let data = c.b(0);
    let cap = c.u(1) as usize;
    let script = parse_script(&c.args[2]);
    let mut r = noodles_fasta::io::Reader::new(BufReader::with_capacity(cap, ScriptedReader::new(data.clone(), script)));
    let mut pieces = Vec::new();
    let mut all = Vec::new();
    let mut status = "Ok".to_string();
    {
        let mut sr = r.sequence_reader();
        for _ in 0..4096 {
            let res = sr.fill_buf().map(|b| b.to_vec());
            match res {
                Ok(p) if p.is_empty() => break,
                Ok(p) => {
                    pieces.push(hex(&p));
                    all.extend_from_slice(&p);
                    sr.consume(p.len());
                }
                Err(e) => {
                    status = format!("Err:{:?}", e.kind());
                    break;
                }
            }
        }
    }
    let obs = format!("{}|{status}|{}", pieces.join(";"), bpos(r.get_ref()));
    let class = |generic: &'static str| fasta_class(&data).unwrap_or(generic);
    if status != "Ok" {
        return Obs::fail(obs, "fasta-sequence-reader-error-surfaced", status);
    }
    let exp = seq_closed(&data);
    if all != exp {
        return Obs::fail(obs, class("fasta-chunking-dependent"), format!("closed form {} got {}", hex(&exp), hex(&all)));
    }
    // read_sequence (read_to_end over the same reader, which consumes slices partially) must agree
    let mut r2 = noodles_fasta::io::Reader::new(BufReader::with_capacity(cap, ScriptedReader::new(data.clone(), parse_script(&c.args[2]))));
    let mut whole = Vec::new();
    let res2 = r2.read_sequence(&mut whole);
    if io_kind(&res2).is_some() || whole != exp {
        return Obs::fail(obs, class("fasta-read-sequence-differs-from-pieces"), format!("read_sequence={} {:?}", hex(&whole), io_kind(&res2)));
    }
    Obs::ok(obs, data.len() >= 2)
}

/// fasta Indexer::index_record on ">x\n" + one sequence line
fn run_fidx(c: &Case) -> Obs {
    let data = c.b(0);
    let cap = c.u(1) as usize;
    let run1 = |script: Vec<Deliver>, cap: usize| -> String {
        let mut ix = noodles_fasta::io::Indexer::new(BufReader::with_capacity(cap, ScriptedReader::new(data.clone(), script)));
        match ix.index_record() {
            Ok(Some(rec)) => format!("{},{}", rec.line_width(), rec.line_bases()),
            Ok(None) => "None".into(),
            Err(e) => {
                let e: std::io::Error = e.into();
                if e.to_string().starts_with("empty sequence") {
                    "Err:EmptySequence".into()
                } else {
                    format!("Err:{:?}", e.kind())
                }
            }
        }
    };
    let obs = run1(parse_script(&c.args[2]), cap);
    let plain = run1(Vec::new(), 1 << 16);
    if obs != plain {
        let tag = fasta_class(&data).unwrap_or("fastaidx-chunking-dependent");
        return Obs::fail(obs, tag, format!("one-window result {plain}"));
    }
    Obs::ok(obs, data.len() >= 5)
}

fn generate(rng: &mut Rng, tier: &str, w: &mut CaseWriter) {
    let thorough = tier == "thorough";
    let effort = if thorough { 1 } else { 0 };
    // ---- L3: one valid file per format and variant, plus malformed ones
    let reps = if thorough { 6 } else { 2 };
    let push = |w: &mut CaseWriter, rng: &mut Rng, fmt: &str, file: &[u8]| {
        let seed = rng.next() >> 1;
        // a corrupted length field can make a reader allocate and zero gigabytes before it notices the
        // truncation (buf.resize(n) then read_exact); such a file is useless for thousands of
        // deliveries, so files whose plain decode is slow are dropped here
        let t0 = std::time::Instant::now();
        let _ = transcript(fmt, &Arc::new(file.to_vec()), None);
        if t0.elapsed() > std::time::Duration::from_millis(40) {
            return;
        }
        w.push("dlv", vec![fmt.into(), seed.to_string(), effort.to_string(), hex(file)]);
        w.push("dlvi", vec![fmt.into(), seed.to_string(), effort.to_string(), hex(file)]);
    };
    for rep in 0..reps {
        let crlf = rep % 2 == 1;
        let mut files_of: Vec<(&str, Vec<u8>)> = Vec::new();
        let sam = files::sam_text(rng, false, crlf);
        let sam_lf = files::sam_text(rng, false, false);
        let raw = files::bam_raw(&sam_lf);
        files_of.push(("sam", sam.clone()));
        files_of.push(("samgz", files::bgzip(&sam, &files::random_breaks(rng, sam.len()), true)));
        files_of.push(("bamraw", raw.clone()));
        {
            // NUL-padded header text (allowed by the format; exercises sam_header::Reader's is_eol state
            // and discard_to_end across windows)
            let l_text = u32::from_le_bytes(raw[4..8].try_into().unwrap()) as usize;
            let pad = rng.range(1, 70) as usize;
            let mut padded = raw[..4].to_vec();
            padded.extend(((l_text + pad) as u32).to_le_bytes());
            padded.extend(&raw[8..8 + l_text]);
            padded.extend(std::iter::repeat_n(0u8, pad));
            padded.extend(&raw[8 + l_text..]);
            files_of.push(("bamraw", padded.clone()));
            files_of.push(("bam", files::bgzip(&padded, &files::random_breaks(rng, padded.len()), true)));
        }
        files_of.push(("bam", files::bgzip(&raw, &files::random_breaks(rng, raw.len()), rng.chance(3, 4))));
        let usam = files::sam_text(rng, true, false);
        files_of.push(("cram", files::cram_file(&usam)));
        let vcf = files::vcf_text(rng, crlf);
        let vcf_lf = files::vcf_text(rng, false);
        let braw = files::bcf_raw(&vcf_lf);
        files_of.push(("vcf", vcf.clone()));
        files_of.push(("vcfgz", files::bgzip(&vcf, &files::random_breaks(rng, vcf.len()), true)));
        files_of.push(("bcfraw", braw.clone()));
        files_of.push(("bcf", files::bgzip(&braw, &files::random_breaks(rng, braw.len()), rng.chance(3, 4))));
        let fa = files::fasta_text(rng, crlf);
        files_of.push(("fasta", fa.clone()));
        files_of.push(("fastaidx", fa.clone()));
        files_of.push(("fastaq", fa));
        files_of.push(("fastq", files::fastq_text(rng, crlf)));
        files_of.push(("gff", files::gff_text(rng, crlf)));
        files_of.push(("gtf", files::gtf_text(rng, crlf)));
        files_of.push(("bed", files::bed_text(rng, crlf)));
        files_of.push(("bai", files::bai_file(rng)));
        files_of.push(("csi", files::csi_file(rng)));
        files_of.push(("tabix", files::tabix_file(rng)));
        files_of.push(("gzi", files::gzi_file(rng)));
        files_of.push(("fai", files::fai_file(rng, crlf)));
        files_of.push(("crai", files::crai_file(rng)));
        // BGZF proper: small multi-block streams with empty blocks in the middle
        let n = rng.range(0, 300) as usize;
        let payload = rng.bytes(n);
        let mut br = files::random_breaks(rng, payload.len());
        if let Some(&b) = br.first() {
            br.insert(0, b); // an empty block
        }
        files_of.push(("bgzf", files::bgzip(&payload, &br, rng.chance(3, 4))));
        for (fmt, file) in &files_of {
            push(w, rng, fmt, file);
            // malformed relatives
            let hows: &[&str] = if thorough { &["trunc", "trunc-tail", "flip", "tail", "garbage"] } else { &["trunc", "flip"] };
            let how = hows[(rep as usize + fmt.len()) % hows.len()];
            let bad = files::malform(rng, file, how);
            push(w, rng, fmt, &bad);
            if thorough {
                let bad = files::malform(rng, file, hows[(rep as usize + fmt.len() + 1) % hows.len()]);
                push(w, rng, fmt, &bad);
            }
        }
    }
    // the two FASTA input classes with a known cause, so that they are reproduced on every run
    for f in [&b">s\nAC\rGT\nAA\n"[..], &b">s\nAC>GT\nAA\n"[..]] {
        push(w, rng, "fasta", f);
        push(w, rng, "fastaidx", f);
    }
    push(w, rng, "fastq", b"@r3\r\nNCG\r\n+\r\n%2O\r\n");
    // multi-byte UTF-8 text in free-text fields: a character can straddle two fill_buf windows
    // (vcf: known class vcf-record-field-utf8-split-capacity-dependent)
    push(w, rng, "vcf", "##fileformat=VCFv4.3\n#CHROM\tPOS\tID\tREF\tALT\tQUAL\tFILTER\tINFO\nsq0\t1\trs\u{e9}\tA\t.\t.\tPASS\t.\n".as_bytes());
    push(w, rng, "sam", "@HD\tVN:1.6\n@CO\tna\u{ef}ve \u{20ac}\nr\u{e9}\t4\t*\t0\t255\t*\t*\t0\t0\t*\t*\tCO:Z:\u{1f600}\n".as_bytes());
    push(w, rng, "fasta", ">s\u{e9}q d\u{20ac}\nACGT\n".as_bytes());
    push(w, rng, "fastaidx", ">s\u{e9}q d\u{20ac}\nACGT\n".as_bytes());
    push(w, rng, "fastq", "@r\u{e9} d\u{20ac}\nAC\n+\n!!\n".as_bytes());
    push(w, rng, "gff", "##gff-version 3\nsq0\t.\tgene\t1\t5\t.\t+\t.\tID=g\u{e9};Note=\u{20ac}\n".as_bytes());
    push(w, rng, "gtf", "sq0\t.\tgene\t1\t5\t.\t+\t.\tgene_id \"g\u{e9}\"; note \"\u{20ac}\";\n".as_bytes());
    push(w, rng, "bed", "sq0\t1\t5\tn\u{e9}\u{20ac}\n".as_bytes());
    // larger BGZF streams: full 64 KiB blocks (read-into-caller-buffer path, many cuts inside a block)
    for _ in 0..(if thorough { 3 } else { 1 }) {
        let n = rng.range(66000, 140000) as usize;
        let payload: Vec<u8> = (0..n).map(|i| if i % 7 == 0 { rng.next() as u8 } else { b'A' + (i % 23) as u8 }).collect();
        let file = files::bgzip(&payload, &[rng.below(n as u64) as usize], true);
        push(w, rng, "bgzf", &file);
    }
    // ---- L2: read_exact on the scripted source, raw and buffered
    let n_rx = if thorough { 3000 } else { 300 };
    for _ in 0..n_rx {
        let len = rng.below(40) as usize;
        let data = rng.bytes(len);
        let slen = len.min(rng.below(50) as usize);
        let script = random_script(rng, slen, true);
        let nsizes = rng.range(1, 5);
        let sizes: Vec<String> = (0..nsizes).map(|_| rng.below(len as u64 / 2 + 6).to_string()).collect();
        if rng.chance(1, 2) {
            w.push("rx", vec![hex(&data), fmt_script(&script), sizes.join(",")]);
        } else {
            let cap = *rng.pick(&[1usize, 2, 3, 5, 7, 16, 64]);
            w.push("rxb", vec![hex(&data), fmt_script(&script), cap.to_string(), sizes.join(",")]);
        }
    }

    // ---- L2: bam record framing (read_exact_or_eof three-way outcome, read_exact, validate)
    let n_roe = if thorough { 2000 } else { 250 };
    for _ in 0..n_roe {
        let mut data = Vec::new();
        for _ in 0..rng.below(3) {
            // a structurally valid record body
            let name_len = rng.range(1, 6) as usize;
            let ncig = rng.below(3) as usize;
            let nb = rng.below(9) as usize;
            let mut body = vec![0u8; 32];
            body[8] = name_len as u8;
            body[12..14].copy_from_slice(&(ncig as u16).to_le_bytes());
            body[16..20].copy_from_slice(&(nb as u32).to_le_bytes());
            body.extend(rng.bytes(name_len + 4 * ncig + nb.div_ceil(2) + nb));
            if rng.chance(1, 6) {
                let k = rng.below(body.len() as u64 + 1) as usize;
                body.truncate(k); // declared sizes no longer fit: validate() fails
            }
            if rng.chance(1, 8) {
                body.extend(rbytes(rng, 0, 4)); // trailing bytes are allowed
            }
            data.extend((body.len() as u32).to_le_bytes());
            data.extend(body);
        }
        match rng.below(6) {
            0 => {
                // partial length field (sometimes all zero: then only the partial/nothing distinction
                // tells it from a clean end)
                let mut p = rbytes(rng, 1, 3);
                if rng.chance(1, 2) {
                    p.iter_mut().for_each(|b| *b = 0);
                }
                data.extend(p)
            }
            1 => {
                // length field promising more than is there
                let have = rng.below(40) as usize;
                data.extend(((have + rng.range(1, 30) as usize) as u32).to_le_bytes());
                data.extend(rng.bytes(have));
            }
            2 => data.extend(0u32.to_le_bytes()),
            _ => {}
        }
        let script = random_script(rng, data.len(), true);
        w.push("roe", vec![hex(&data), fmt_script(&script)]);
    }
    // ---- L2: bgzf read_exact across tiny blocks (default_read_exact; block ends = short reads)
    let n_bx = if thorough { 1500 } else { 150 };
    for _ in 0..n_bx {
        let len = rng.below(40) as usize;
        let payload = rng.bytes(len);
        let nb = rng.below(8);
        let blocks: Vec<String> = (0..nb).map(|_| rng.below(6).to_string()).collect();
        let ns = rng.range(1, 6);
        let sizes: Vec<String> = (0..ns).map(|_| rng.below(len as u64 / 2 + 6).to_string()).collect();
        let j = |v: Vec<String>| if v.is_empty() { "_".to_string() } else { v.join(",") };
        w.push("bxe", vec![hex(&payload), j(blocks), j(sizes)]);
    }
    // ---- L2: bgzf frame reading
    const EOFB: [u8; 28] = [
        0x1f, 0x8b, 0x08, 0x04, 0, 0, 0, 0, 0, 0xff, 0x06, 0, 0x42, 0x43, 0x02, 0, 0x1b, 0, 0x03, 0, 0, 0, 0, 0, 0, 0, 0, 0,
    ];
    let n_fr = if thorough { 2000 } else { 250 };
    for _ in 0..n_fr {
        let mut data = Vec::new();
        for _ in 0..rng.below(3) {
            data.extend(EOFB);
        }
        match rng.below(6) {
            0 => {}
            1 => {
                let k = rng.range(1, 17) as usize;
                data.extend(&EOFB[..k]); // partial header = end of input
            }
            2 => {
                let mut h = EOFB[..18].to_vec();
                h[16..18].copy_from_slice(&(rng.below(25) as u16).to_le_bytes()); // frame too small
                data.extend(h);
                data.extend(rbytes(rng, 0, 9));
            }
            k => {
                // a frame whose header is not a BGZF header (first byte never 0x1f)
                let bsize = rng.range(25, 90) as usize; // total = bsize + 1 >= 26
                let mut f = rng.bytes(bsize + 1);
                f[0] = 0x20 | (f[0] & 0x0f);
                f[16..18].copy_from_slice(&(bsize as u16).to_le_bytes());
                if k == 3 {
                    let cut = rng.range(18, bsize as u64) as usize;
                    f.truncate(cut); // body cut short
                }
                data.extend(f);
            }
        }
        let script = random_script(rng, data.len(), true);
        w.push("frame", vec![hex(&data), fmt_script(&script)]);
    }
    // ---- L2: read_until, gff read_line
    let n_ln = if thorough { 3000 } else { 300 };
    for i in 0..n_ln {
        let len = rng.below(60) as usize;
        let data: Vec<u8> = (0..len)
            .map(|_| match rng.below(8) {
                0 => b'\n',
                1 => b'\r',
                2 => *rng.pick(&[b' ', b'\t', 0x0c]),
                _ => rng.range(33, 126) as u8,
            })
            .collect();
        let script = random_script(rng, len, true);
        let cap = *rng.pick(&[1usize, 2, 3, 5, 7, 16, 64]);
        let kind = if i % 2 == 0 { "ru" } else { "gffl" };
        w.push(kind, vec![hex(&data), fmt_script(&script), cap.to_string()]);
    }
    // ---- L2: fasta scanners (well-formed text, and the bare-CR / mid-line '>' classes)
    let n_fs = if thorough { 4000 } else { 400 };
    for i in 0..n_fs {
        let style = rng.below(10);
        let len = rng.below(40) as usize;
        let mut data: Vec<u8> = Vec::new();
        while data.len() < len {
            match rng.below(10) {
                0 | 1 => data.extend(b"\n"),
                2 => data.extend(b"\r\n"),
                3 if style == 0 => data.push(b'\r'), // bare CR
                4 if style == 1 => data.push(b'>'),  // '>' anywhere
                5 if rng.chance(1, 4) && data.last().is_none_or(|&b| b == b'\n') => data.extend(b">n\n"),
                _ => data.push(*rng.pick(b"ACGTN")),
            }
        }
        if rng.chance(1, 8) {
            data.push(b'\r');
        }
        let with_intr = rng.chance(1, 5);
        let script = random_script(rng, data.len(), with_intr);
        let cap = *rng.pick(&[1usize, 2, 3, 5, 7, 16, 64]);
        if i % 3 != 2 {
            w.push("fseq", vec![hex(&data), cap.to_string(), fmt_script(&script)]);
        } else {
            // ">x\n" + one line
            let line: Vec<u8> = data.iter().copied().filter(|&b| b != b'\n' && b != b'>').collect();
            let mut f = b">x\n".to_vec();
            f.extend(line);
            if rng.chance(3, 4) {
                f.push(b'\n');
            }
            let script = random_script(rng, f.len(), with_intr);
            w.push("fidx", vec![hex(&f), cap.to_string(), fmt_script(&script)]);
        }
    }
    // ---- L2: whole-file readers composed from the primitives (fidxf, fqr, ...)
    c12_l2b::generate(rng, thorough, w);
    c12_prog::generate(rng, thorough, w);
    c12_seq::generate(rng, thorough, w);
}

fn run(c: &Case) -> Obs {
    match c.kind.as_str() {
        "dlv" => run_dlv(c, false),
        "dlvi" => run_dlv(c, true),
        "rx" => run_rx(c, false),
        "rxb" => run_rx(c, true),
        "bxe" => run_bxe(c),
        "roe" => run_roe(c),
        "frame" => run_frame(c),
        "ru" => run_ru(c),
        "gffl" => run_gffl(c),
        "fseq" => run_fseq(c),
        "fidx" => run_fidx(c),
        _ => c12_l2b::run(c).or_else(|| c12_prog::run(c)).or_else(|| c12_seq::run(c)).unwrap_or_else(|| Obs::ok("-", false)),
    }
}

fn main() {
    nv::main_with(generate, run)
}
