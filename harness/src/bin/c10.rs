//! C10: BCF typed encoding round-trips every value and carries the same content as VCF.
//!
//! Modelled kinds (obs = "<write> <readback>", compared byte for byte with the extracted Coq model;
//! <write> = hex of the typed value the real `bcf::io::Writer` emitted for a record holding exactly
//! that one INFO field / FORMAT series, or `Err:<kind>` / `Panic`; <readback> = the value
//! `bcf::io::Reader::read_record_buf` returns for it (canonical text), `Err` or `Panic`):
//!   ii  n                       INFO Integer Number=1
//!   iv  a,.,b                   INFO Integer Number=.   (entries: decimal or `.`)
//!   if  bits                    INFO Float Number=1     (u32 bit pattern, decimal)
//!   ifv b,.,b                   INFO Float Number=.
//!   is  hex                     INFO String Number=1    (descriptor / overflow length)
//!   im  Integer|Float|String    INFO field of that type whose value is missing (`X=.`)
//!   fi  a;.;b                   FORMAT Integer Number=1, one entry per sample
//!   fv  a,b;.;c,.               FORMAT Integer Number=., one vector per sample (`.` = missing
//!                               sample, `e` = empty vector)
//!   ff / ffv                    FORMAT Float Number=1 / Number=.
//!   gt  0u,1p;.u,.p;e           FORMAT GT: per sample alleles `<pos|.><p|u>` (`e` = ploidy 0)
//!   ic  hex                     INFO Character Number=1 (one ASCII byte)
//!   icv 61,.,2c                 INFO Character Number=. (elements: hex byte or `.`)
//!   isv 6162,.,_                INFO String Number=.    (elements: hex, `_` = empty, `.` = missing)
//!   fc / fcv / fs / fsv         FORMAT Character / String, Number=1 / Number=., samples split by `;`
//!                               (for these kinds the read-back observation is `Fail` for a panic
//!                               and for an error alike)
//!   sm  I:K0:3,L:PASS:-,M:Q1:7 c0:1,c1:-   the dictionaries of strings and of contigs built from
//!                               header lines (I = INFO, L = FILTER, M = FORMAT; name; IDX or `-`),
//!                               by the writer (StringMaps::try_from(&Header)) and by the reader
//!                               (BCF header written, read back: header.string_maps()); obs = both
//!                               maps: slots and index of every name
//!   hd  <string lines> <contig lines> chrom pos|. rlen qual|. ids ref alts filters flags n_sample fmt
//!                               a record head: generated dictionaries (as `sm`), site fields, INFO
//!                               flags, FORMAT Integer scalars; obs = the whole record as written and
//!                               chrom|pos|qual|ids|ref|alts|filters|n_info|n_fmt|n_sample read back
//!   blk <info specs> <fmt specs> ns   a record with several INFO fields and FORMAT series
//!                               (`kind~arg|kind~arg`, the micro kinds above; keys X0.. / Y0.. / GT):
//!                               obs = the whole record as written and every field read back
//!   hx  <kind> <ns> <hex>        hostile value bytes: a record is assembled by hand around arbitrary
//!                               bytes standing where the typed value of an INFO field / the series of a
//!                               FORMAT key stands (kind = one of the micro kinds, ns samples) and read
//!                               with read_record_buf; obs = the value read back, `Err` or `Panic`
//!                               (`Fail` for the Character/String kinds), compared with the model's
//!                               decoder on the same bytes
//!   hxr <info kinds> <fmt kinds> <ns> <hex>   a whole record (written by the real writer, then
//!                               mutated: bytes replaced / inserted / deleted, tail cut, lengths
//!                               re-fixed or not) read with read_record_buf under the header those
//!                               kinds define; obs = every field of the RecordBuf, or `Fail`
//!   vb  ver infodefs filters fmtdefs contigs ns rec ftab rlen   ONE RecordBuf through both real
//!                               writers and eager readers (VCF text and BCF) against NV.Bcf.Bridge
//!                               bcf_write / bcf_read and NV.Vcf.Line write_line / read_eager; see
//!                               shared/c10_bridge.rs
//!   bf / bfx                   whole BCF streams: header block (magic, version, l_text, header text,
//!                               NUL) + record loop, eager and lazy, against NV.Bcf.File; see
//!                               shared/c10_file.rs
//! Implementation-only oracle:
//!   mr  seed                    several records (alternating rich / poor in every column) of ONE BCF
//!                               file read with one reused RecordBuf, through record_bufs(), with a
//!                               fresh RecordBuf per record and with one reused lazy bcf::Record
//!                               (shared/c10_bridge.rs)
//!   rec profile seed            a generated header (+IDX assignments) and record, written as BCF,
//!                               read back through read_record_buf and through the lazy bcf::Record,
//!                               compared structurally and as VCF text.

use std::{collections::BTreeSet, panic::AssertUnwindSafe};

use noodles_bcf as bcf;
use noodles_core::Position;
use noodles_vcf::{
    self as vcf,
    variant::{
        RecordBuf,
        io::Write as _,
        record::samples::series::value::genotype::Phasing,
        record_buf::{
            AlternateBases, Filters, Ids, Info, Samples,
            info::field::{Value as IV, value::Array as IA},
            samples::{
                Keys,
                sample::{
                    Value as SV,
                    value::{Array as SA, Genotype, genotype::Allele},
                },
            },
        },
    },
};
use nv::{Case, CaseWriter, Obs, Outcome, Rng, errkind, guarded, hex, unhex};

#[path = "../shared/c10_bridge.rs"]
mod bridge;
#[path = "../shared/c10_lazy.rs"]
mod lazy;
#[path = "../shared/c10_file.rs"]
mod file;

// ---------------------------------------------------------------------------------------------
// Plain description of headers and records (what the generator produces and what both read
// paths are converted back to).

#[derive(Clone, Copy, Debug, PartialEq, Eq)]
enum Ty {
    Int,
    Float,
    Flag,
    Char,
    Str,
}

#[derive(Clone, Copy, Debug, PartialEq, Eq)]
enum Num {
    Count(usize),
    A,
    R,
    G,
    Dot,
}

#[derive(Clone, Debug)]
struct Def {
    id: String,
    num: Num,
    ty: Ty,
    idx: Option<usize>,
}

#[derive(Clone, Debug, Default)]
struct Hdr {
    ff: (u32, u32),
    contigs: Vec<(String, Option<usize>)>,
    infos: Vec<Def>,
    filters: Vec<(String, Option<usize>)>,
    formats: Vec<Def>,
    samples: Vec<String>,
}

#[derive(Clone, Debug, PartialEq)]
enum V {
    I(i32),
    F(u32),
    Flag,
    C(char),
    S(String),
    AI(Vec<Option<i32>>),
    AF(Vec<Option<u32>>),
    AC(Vec<Option<char>>),
    AS(Vec<Option<String>>),
    GT(Vec<(Option<usize>, bool)>),
}

#[derive(Clone, Debug, Default)]
struct Rec {
    chrom: String,
    pos: usize,
    ids: Vec<String>,
    refb: String,
    alts: Vec<String>,
    qual: Option<u32>,
    filters: Vec<String>,
    info: Vec<(String, Option<V>)>,
    keys: Vec<String>,
    samples: Vec<Vec<Option<V>>>,
}

fn num_text(n: Num) -> String {
    match n {
        Num::Count(k) => k.to_string(),
        Num::A => "A".into(),
        Num::R => "R".into(),
        Num::G => "G".into(),
        Num::Dot => ".".into(),
    }
}

fn ty_text(t: Ty) -> &'static str {
    match t {
        Ty::Int => "Integer",
        Ty::Float => "Float",
        Ty::Flag => "Flag",
        Ty::Char => "Character",
        Ty::Str => "String",
    }
}

fn header_text(h: &Hdr) -> String {
    let mut s = format!("##fileformat=VCFv{}.{}\n", h.ff.0, h.ff.1);
    let idx = |i: &Option<usize>| i.map(|i| format!(",IDX={i}")).unwrap_or_default();
    for d in &h.infos {
        s += &format!(
            "##INFO=<ID={},Number={},Type={},Description=\"d\"{}>\n",
            d.id,
            num_text(d.num),
            ty_text(d.ty),
            idx(&d.idx)
        );
    }
    for (id, i) in &h.filters {
        s += &format!("##FILTER=<ID={id},Description=\"d\"{}>\n", idx(i));
    }
    for d in &h.formats {
        s += &format!(
            "##FORMAT=<ID={},Number={},Type={},Description=\"d\"{}>\n",
            d.id,
            num_text(d.num),
            ty_text(d.ty),
            idx(&d.idx)
        );
    }
    for (id, i) in &h.contigs {
        s += &format!("##contig=<ID={id}{}>\n", idx(i));
    }
    s += "#CHROM\tPOS\tID\tREF\tALT\tQUAL\tFILTER\tINFO";
    if !h.samples.is_empty() {
        s += "\tFORMAT";
        for n in &h.samples {
            s += "\t";
            s += n;
        }
    }
    s += "\n";
    s
}

fn iv_of(v: &V) -> IV {
    match v {
        V::I(n) => IV::Integer(*n),
        V::F(b) => IV::Float(f32::from_bits(*b)),
        V::Flag => IV::Flag,
        V::C(c) => IV::Character(*c),
        V::S(s) => IV::String(s.clone()),
        V::AI(a) => IV::Array(IA::Integer(a.clone())),
        V::AF(a) => IV::Array(IA::Float(a.iter().map(|x| x.map(f32::from_bits)).collect())),
        V::AC(a) => IV::Array(IA::Character(a.clone())),
        V::AS(a) => IV::Array(IA::String(a.clone())),
        V::GT(_) => unreachable!("GT in INFO"),
    }
}

fn sv_of(v: &V) -> SV {
    match v {
        V::I(n) => SV::Integer(*n),
        V::F(b) => SV::Float(f32::from_bits(*b)),
        V::Flag => unreachable!("Flag in FORMAT"),
        V::C(c) => SV::Character(*c),
        V::S(s) => SV::String(s.clone()),
        V::AI(a) => SV::Array(SA::Integer(a.clone())),
        V::AF(a) => SV::Array(SA::Float(a.iter().map(|x| x.map(f32::from_bits)).collect())),
        V::AC(a) => SV::Array(SA::Character(a.clone())),
        V::AS(a) => SV::Array(SA::String(a.clone())),
        V::GT(g) => SV::Genotype(
            g.iter()
                .map(|(p, ph)| Allele::new(*p, if *ph { Phasing::Phased } else { Phasing::Unphased }))
                .collect::<Genotype>(),
        ),
    }
}

fn v_of_iv(v: &IV) -> V {
    match v {
        IV::Integer(n) => V::I(*n),
        IV::Float(f) => V::F(f.to_bits()),
        IV::Flag => V::Flag,
        IV::Character(c) => V::C(*c),
        IV::String(s) => V::S(s.clone()),
        IV::Array(IA::Integer(a)) => V::AI(a.clone()),
        IV::Array(IA::Float(a)) => V::AF(a.iter().map(|x| x.map(f32::to_bits)).collect()),
        IV::Array(IA::Character(a)) => V::AC(a.clone()),
        IV::Array(IA::String(a)) => V::AS(a.clone()),
    }
}

fn v_of_sv(v: &SV) -> V {
    match v {
        SV::Integer(n) => V::I(*n),
        SV::Float(f) => V::F(f.to_bits()),
        SV::Character(c) => V::C(*c),
        SV::String(s) => V::S(s.clone()),
        SV::Genotype(g) => V::GT(
            g.as_ref()
                .iter()
                .map(|a| (a.position(), a.phasing() == Phasing::Phased))
                .collect(),
        ),
        SV::Array(SA::Integer(a)) => V::AI(a.clone()),
        SV::Array(SA::Float(a)) => V::AF(a.iter().map(|x| x.map(f32::to_bits)).collect()),
        SV::Array(SA::Character(a)) => V::AC(a.clone()),
        SV::Array(SA::String(a)) => V::AS(a.clone()),
    }
}

fn to_buf(r: &Rec) -> RecordBuf {
    let mut b = RecordBuf::builder()
        .set_reference_sequence_name(r.chrom.clone())
        .set_variant_start(Position::try_from(r.pos).expect("pos"))
        .set_ids(r.ids.iter().cloned().collect::<Ids>())
        .set_reference_bases(r.refb.clone())
        .set_alternate_bases(AlternateBases::from(r.alts.clone()))
        .set_filters(r.filters.iter().cloned().collect::<Filters>())
        .set_info(
            r.info
                .iter()
                .map(|(k, v)| (k.clone(), v.as_ref().map(iv_of)))
                .collect::<Info>(),
        )
        .set_samples(Samples::new(
            r.keys.iter().cloned().collect::<Keys>(),
            r.samples
                .iter()
                .map(|s| s.iter().map(|v| v.as_ref().map(sv_of)).collect())
                .collect(),
        ));
    if let Some(q) = r.qual {
        b = b.set_quality_score(f32::from_bits(q));
    }
    b.build()
}

fn of_buf(b: &RecordBuf) -> Rec {
    Rec {
        chrom: b.reference_sequence_name().to_string(),
        pos: b.variant_start().map(usize::from).unwrap_or(0),
        ids: b.ids().as_ref().iter().cloned().collect(),
        refb: b.reference_bases().to_string(),
        alts: b.alternate_bases().as_ref().to_vec(),
        qual: b.quality_score().map(f32::to_bits),
        filters: b.filters().as_ref().iter().cloned().collect(),
        info: b
            .info()
            .as_ref()
            .iter()
            .map(|(k, v)| (k.clone(), v.as_ref().map(v_of_iv)))
            .collect(),
        keys: b.samples().keys().as_ref().iter().cloned().collect(),
        samples: b
            .samples()
            .values()
            .map(|s| s.values().iter().map(|v| v.as_ref().map(v_of_sv)).collect())
            .collect(),
    }
}

// ---------------------------------------------------------------------------------------------
// Canonical text of a value / record.  Two values that are the same VCF content have the same
// canonical text: a one-element vector holding only a missing entry is the VCF field `.`, i.e.
// the missing value; a sample row shorter than the key list has trailing missing values.

fn opt<T>(x: &Option<T>, f: impl Fn(&T) -> String) -> String {
    x.as_ref().map(f).unwrap_or_else(|| ".".into())
}

fn list<T>(xs: &[Option<T>], f: impl Fn(&T) -> String + Copy) -> String {
    xs.iter().map(|x| opt(x, f)).collect::<Vec<_>>().join(",")
}

fn canon_v(v: &Option<V>) -> String {
    match v {
        None => ".".into(),
        Some(V::AI(a)) if a.len() == 1 && a[0].is_none() => ".".into(),
        Some(V::AF(a)) if a.len() == 1 && a[0].is_none() => ".".into(),
        Some(V::AC(a)) if a.len() == 1 && a[0].is_none() => ".".into(),
        Some(V::AS(a)) if a.len() == 1 && a[0].is_none() => ".".into(),
        Some(V::I(n)) => format!("i{n}"),
        Some(V::F(b)) => format!("f{b:08x}"),
        Some(V::Flag) => "F".into(),
        Some(V::C(c)) => format!("c{:x}", *c as u32),
        Some(V::S(s)) => format!("s{}", hex(s.as_bytes())),
        Some(V::AI(a)) => format!("I[{}]", list(a, |n| n.to_string())),
        Some(V::AF(a)) => format!("R[{}]", list(a, |b| format!("{b:08x}"))),
        Some(V::AC(a)) => format!("C[{}]", list(a, |c| format!("{:x}", *c as u32))),
        Some(V::AS(a)) => format!("S[{}]", list(a, |s| hex(s.as_bytes()))),
        Some(V::GT(g)) => format!(
            "G[{}]",
            g.iter()
                .map(|(p, ph)| format!("{}{}", opt(p, |p| p.to_string()), if *ph { 'p' } else { 'u' }))
                .collect::<Vec<_>>()
                .join(",")
        ),
    }
}

fn canon(r: &Rec) -> Vec<(String, String)> {
    let mut out = vec![
        ("chrom".to_string(), r.chrom.clone()),
        ("pos".into(), r.pos.to_string()),
        ("ids".into(), r.ids.join(";")),
        ("ref".into(), r.refb.clone()),
        ("alt".into(), r.alts.join(",")),
        ("qual".into(), opt(&r.qual, |q| format!("{q:08x}"))),
        ("filters".into(), r.filters.join(";")),
        (
            "infokeys".into(),
            r.info.iter().map(|(k, _)| k.clone()).collect::<Vec<_>>().join(";"),
        ),
    ];
    for (k, v) in &r.info {
        out.push((format!("info:{k}"), canon_v(v)));
    }
    out.push(("fmtkeys".into(), r.keys.join(":")));
    out.push(("nsamples".into(), r.samples.len().to_string()));
    for (j, k) in r.keys.iter().enumerate() {
        let col: Vec<String> = r
            .samples
            .iter()
            .map(|s| canon_v(s.get(j).unwrap_or(&None)))
            .collect();
        out.push((format!("fmt:{k}"), col.join(";")));
    }
    out
}

fn first_diff(a: &[(String, String)], b: &[(String, String)]) -> Option<String> {
    for (x, y) in a.iter().zip(b.iter()) {
        if x != y {
            return Some(format!("{}: {} != {}={}", x.0, x.1, y.0, y.1));
        }
    }
    if a.len() != b.len() {
        return Some(format!("field count {} != {}", a.len(), b.len()));
    }
    None
}

// ---------------------------------------------------------------------------------------------
// Real noodles: write one record as (uncompressed) BCF, read it back two ways, render as VCF.

enum WriteRes {
    Ok { stream: Vec<u8>, hlen: usize },
    Err(String),
    Panic(String),
}

fn parse_header(text: &str) -> Result<vcf::Header, String> {
    match guarded(AssertUnwindSafe(|| text.parse::<vcf::Header>())) {
        Outcome::Done(Ok(h)) => Ok(h),
        Outcome::Done(Err(e)) => Err(format!("header parse error: {e}")),
        Outcome::Panicked(m) => Err(format!("header parse panic: {m}")),
    }
}

fn write_bcf(header: &vcf::Header, rb: &RecordBuf) -> WriteRes {
    let mut w = bcf::io::Writer::from(Vec::new());
    match guarded(AssertUnwindSafe(|| w.write_header(header))) {
        Outcome::Done(Ok(())) => {}
        Outcome::Done(Err(e)) => return WriteRes::Err(format!("Header:{}", errkind(&e))),
        Outcome::Panicked(m) => return WriteRes::Panic(format!("header: {m}")),
    }
    let hlen = w.get_ref().len();
    match guarded(AssertUnwindSafe(|| w.write_variant_record(header, rb))) {
        Outcome::Done(Ok(())) => WriteRes::Ok {
            stream: w.into_inner(),
            hlen,
        },
        Outcome::Done(Err(e)) => WriteRes::Err(errkind(&e)),
        Outcome::Panicked(m) => WriteRes::Panic(m),
    }
}

/// (header as read back, record) via read_record_buf
fn read_via_buf(stream: &[u8]) -> Result<(vcf::Header, RecordBuf), String> {
    match guarded(AssertUnwindSafe(|| -> std::io::Result<_> {
        let mut r = bcf::io::Reader::from(stream);
        let h = r.read_header()?;
        let mut rb = RecordBuf::default();
        let n = r.read_record_buf(&h, &mut rb)?;
        if n == 0 {
            return Err(std::io::Error::new(std::io::ErrorKind::UnexpectedEof, "no record"));
        }
        let mut rb2 = RecordBuf::default();
        if r.read_record_buf(&h, &mut rb2)? != 0 {
            return Err(std::io::Error::other("trailing record"));
        }
        Ok((h, rb))
    })) {
        Outcome::Done(Ok(x)) => Ok(x),
        Outcome::Done(Err(e)) => Err(format!("Err {}", e.to_string().replace(['\t', '\n'], " "))),
        Outcome::Panicked(m) => Err(format!("Panic {m}")),
    }
}

/// via the lazy bcf::Record accessors (RecordBuf::try_from_variant_record)
fn read_via_lazy(stream: &[u8]) -> Result<(vcf::Header, RecordBuf), String> {
    match guarded(AssertUnwindSafe(|| -> std::io::Result<_> {
        let mut r = bcf::io::Reader::from(stream);
        let h = r.read_header()?;
        let mut rec = bcf::Record::default();
        let n = r.read_record(&mut rec)?;
        if n == 0 {
            return Err(std::io::Error::new(std::io::ErrorKind::UnexpectedEof, "no record"));
        }
        let rb = RecordBuf::try_from_variant_record(&h, &rec)?;
        Ok((h, rb))
    })) {
        Outcome::Done(Ok(x)) => Ok(x),
        Outcome::Done(Err(e)) => Err(format!("Err {}", e.to_string().replace(['\t', '\n'], " "))),
        Outcome::Panicked(m) => Err(format!("Panic {m}")),
    }
}

fn vcf_text(header: &vcf::Header, rb: &RecordBuf) -> Result<String, String> {
    match guarded(AssertUnwindSafe(|| -> std::io::Result<Vec<u8>> {
        let mut w = vcf::io::Writer::new(Vec::new());
        w.write_variant_record(header, rb)?;
        Ok(w.into_inner())
    })) {
        Outcome::Done(Ok(b)) => Ok(String::from_utf8_lossy(&b).trim_end().to_string()),
        Outcome::Done(Err(e)) => Err(format!("Err {e}")),
        Outcome::Panicked(m) => Err(format!("Panic {m}")),
    }
}

// ---------------------------------------------------------------------------------------------
// Input classes for which the pinned tree is known to violate the property (each is a proposed
// known finding; the tag is derived from the input, never from the symptom).

const RESERVED_NAN_LO: u32 = 0x7f80_0001;
const RESERVED_NAN_HI: u32 = 0x7f80_0007;

fn is_reserved_nan(b: u32) -> bool {
    (RESERVED_NAN_LO..=RESERVED_NAN_HI).contains(&b)
}

fn has_reserved_float(v: &Option<V>) -> bool {
    match v {
        Some(V::F(b)) => is_reserved_nan(*b),
        Some(V::AF(a)) => a.iter().any(|x| x.map(is_reserved_nan).unwrap_or(false)),
        _ => false,
    }
}

fn is_array(v: &V) -> bool {
    matches!(v, V::AI(_) | V::AF(_) | V::AC(_) | V::AS(_))
}

fn special_string(s: &str) -> bool {
    s.is_empty() || s == "." || s.bytes().any(|b| b",;=:% \t".contains(&b) || b < 0x21 || b > 0x7e)
}

fn has_special_string(v: &Option<V>) -> bool {
    match v {
        Some(V::S(s)) => special_string(s),
        Some(V::C(c)) => special_string(&c.to_string()),
        Some(V::AS(a)) => a.iter().any(|x| x.as_deref().map(special_string).unwrap_or(false)),
        Some(V::AC(a)) => a.iter().any(|x| x.map(|c| special_string(&c.to_string())).unwrap_or(false)),
        _ => false,
    }
}

/// true iff some explicit IDX differs from the index the entry gets by order of appearance
/// (dictionary of strings: PASS, INFO lines, FILTER lines, FORMAT lines; contigs separately)
fn idx_differs_from_order(h: &Hdr) -> bool {
    let mut names: Vec<&str> = vec!["PASS"];
    let mut bad = false;
    for (n, i) in h
        .infos
        .iter()
        .map(|d| (&d.id, d.idx))
        .chain(h.filters.iter().map(|f| (&f.0, f.1)))
        .chain(h.formats.iter().map(|d| (&d.id, d.idx)))
    {
        let pos = match names.iter().position(|x| x == n) {
            Some(p) => p,
            None => {
                names.push(n);
                names.len() - 1
            }
        };
        if let Some(i) = i {
            bad |= i != pos;
        }
    }
    for (k, (_, i)) in h.contigs.iter().enumerate() {
        if let Some(i) = i {
            bad |= *i != k;
        }
    }
    bad
}

fn has_allele_127(r: &Rec) -> bool {
    r.samples.iter().flatten().any(|v| match v {
        Some(V::GT(g)) => g.iter().any(|(p, _)| p.map(|p| p >= 127).unwrap_or(false)),
        _ => false,
    })
}

/// inputs outside the property's domain: values that have no VCF text at all (vectors without
/// entries, genotypes without alleles) and the reserved NaN bit patterns
fn outside_domain(r: &Rec) -> Option<&'static str> {
    if r.info.iter().any(|(_, v)| has_reserved_float(v))
        || r.samples.iter().flatten().any(has_reserved_float)
        || r.qual.map(is_reserved_nan).unwrap_or(false)
    {
        return Some("float-reserved-nan");
    }
    let empty = |v: &Option<V>| match v {
        Some(V::AI(a)) => a.is_empty(),
        Some(V::AF(a)) => a.is_empty(),
        Some(V::AC(a)) => a.is_empty(),
        Some(V::AS(a)) => a.is_empty(),
        Some(V::GT(g)) => g.is_empty(),
        _ => false,
    };
    if r.info.iter().any(|(_, v)| empty(v)) || r.samples.iter().flatten().any(empty) {
        return Some("no-vcf-text");
    }
    None
}

/// The one input class for which the tree is still known to violate the property (a proposed
/// known finding): String/Character values that VCF text would percent-encode.
fn known_class(_h: &Hdr, r: &Rec) -> Option<&'static str> {
    if r.info.iter().any(|(_, v)| has_special_string(v))
        || r.samples.iter().flatten().any(has_special_string)
    {
        return Some("string-special-chars");
    }
    None
}

/// Diagnostic only (appended to the detail of a failure, never used as its tag): the first of the
/// input features that used to break the round trip before the fix: commits 01..08.
fn input_feature(h: &Hdr, r: &Rec) -> Option<&'static str> {
    // the BCF header writer drops IDX=: the reader numbers the dictionary by order of appearance
    if idx_differs_from_order(h) {
        return Some("header-idx-not-written");
    }
    // F5: an INFO field whose value is missing reaches todo!() in write_value
    if r.info.iter().any(|(_, v)| v.is_none()) {
        return Some("info-missing-value-todo");
    }
    for (j, k) in r.keys.iter().enumerate() {
        let col: Vec<&Option<V>> = r.samples.iter().map(|s| s.get(j).unwrap_or(&None)).collect();
        if k == "GT" {
            let lens: Vec<usize> = col
                .iter()
                .map(|v| match v {
                    Some(V::GT(g)) => g.len(),
                    _ => usize::MAX,
                })
                .collect();
            if lens.contains(&usize::MAX) {
                return Some("gt-missing-sample-value");
            }
            let m = lens.iter().copied().max().unwrap_or(0);
            if lens.iter().any(|&l| l != m && l != 1) {
                return Some("gt-mixed-ploidy-padding");
            }
            for v in &col {
                if let Some(V::GT(g)) = v {
                    if g.iter().any(|(p, ph)| p.is_none() && *ph) {
                        return Some("gt-missing-allele-phase-lost");
                    }
                    if g.iter().any(|(p, _)| p.map(|p| p >= 127).unwrap_or(false)) {
                        return Some("gt-allele-index-127-overflow");
                    }
                }
            }
            continue;
        }
        let def = h.formats.iter().find(|d| &d.id == k);
        let arr = def.map(|d| d.num != Num::Count(1)).unwrap_or(false);
        if arr {
            // every sample's value is missing (`.`) for an Integer vector series: the writer emits
            // a zero-length descriptor followed by one byte per sample
            let is_int = def.map(|d| d.ty == Ty::Int).unwrap_or(false);
            if is_int && !col.is_empty() && col.iter().all(|v| v.is_none()) {
                return Some("fmt-int-vector-all-samples-missing");
            }
        }
    }
    // lazy INFO accessor returns a scalar for a one-element Int16/Int32 vector
    for (k, v) in &r.info {
        if let Some(V::AI(a)) = v {
            if a.len() == 1 && a[0].map(|n| !(-120..=127).contains(&n)).unwrap_or(false) {
                let _ = k;
                return Some("info-int-vector-single-wide-lazy-scalar");
            }
        }
    }
    if r.info.iter().any(|(_, v)| has_special_string(v))
        || r.samples.iter().flatten().any(has_special_string)
    {
        return Some("string-special-chars");
    }
    let _ = is_array;
    None
}

/// The property evaluated on one header + record.
fn check_record(h: &Hdr, r: &Rec) -> (Result<(), (String, String)>, bool) {
    match outside_domain(r) {
        None => match check_record_in(h, r, known_class(h, r)) {
            (Err((t, d)), nt) => {
                let f = input_feature(h, r).unwrap_or("none");
                (Err((t, format!("{d} [input feature: {f}]"))), nt)
            }
            x => x,
        },
        Some(c) => match check_record_in(h, r, Some("outside")) {
            // outside the domain only a panic counts
            (Err((_, d)), _) if d.starts_with("Panic") => {
                let tag = if has_allele_127(r) { "gt-allele-index-127-overflow".to_string() } else { format!("{c}-panic") };
                (Err((tag, d)), true)
            }
            (Err(_), _) => (Err(("SKIP".into(), String::new())), false),
            x => x,
        },
    }
}

fn check_record_in(h: &Hdr, r: &Rec, class: Option<&'static str>) -> (Result<(), (String, String)>, bool) {
    let tag = |generic: &str| class.map(|c| c.to_string()).unwrap_or_else(|| generic.to_string());
    let text = header_text(h);
    let header = match parse_header(&text) {
        Ok(h) => h,
        Err(e) => return (Err(("header-rejected".into(), e)), true),
    };
    let rb = to_buf(r);
    let input = canon(r);
    let (stream, _hlen) = match write_bcf(&header, &rb) {
        WriteRes::Ok { stream, hlen } => (stream, hlen),
        // a rejected record is not a violation ("any record the writer accepts ...")
        WriteRes::Err(_) => return (Ok(()), false),
        WriteRes::Panic(m) => return (Err((tag("writer-panic"), format!("Panic {m}"))), true),
    };
    let (h1, rb1) = match read_via_buf(&stream) {
        Ok(x) => x,
        Err(e) => return (Err((tag("readbuf-fails"), e)), true),
    };
    if let Some(d) = first_diff(&input, &canon(&of_buf(&rb1))) {
        return (Err((tag("readbuf-differs"), d)), true);
    }
    let (h2, rb2) = match read_via_lazy(&stream) {
        Ok(x) => x,
        Err(e) => return (Err((tag("lazy-fails"), e)), true),
    };
    if let Some(d) = first_diff(&input, &canon(&of_buf(&rb2))) {
        return (Err((tag("lazy-differs"), d)), true);
    }
    // same content as VCF: the text rendering of the three records is identical
    // (a sample row may omit trailing missing values in VCF text; BCF has no such distinction)
    let mut padded = r.clone();
    for row in padded.samples.iter_mut() {
        row.resize(r.keys.len(), None);
    }
    match vcf_text(&header, &to_buf(&padded)) {
        Ok(t0) => {
            for (name, hh, b) in [("readbuf", &h1, &rb1), ("lazy", &h2, &rb2)] {
                match vcf_text(hh, b) {
                    Ok(t) if t == t0 => {}
                    Ok(t) => return (Err((tag(&format!("{name}-vcf-text-differs")), format!("{t0} != {t}"))), true),
                    Err(e) => return (Err((tag(&format!("{name}-vcf-text-fails")), e)), true),
                }
            }
        }
        Err(_) => {} // the input itself has no VCF text (not a BCF matter)
    }
    (Ok(()), true)
}

// ---------------------------------------------------------------------------------------------
// Modelled kinds: one INFO field or one FORMAT series.

fn parse_opt_i32s(s: &str) -> Vec<Option<i32>> {
    if s == "e" {
        return vec![];
    }
    s.split(',').map(|t| if t == "." { None } else { Some(t.parse().expect("i32")) }).collect()
}

fn parse_opt_u32s(s: &str) -> Vec<Option<u32>> {
    if s == "e" {
        return vec![];
    }
    s.split(',').map(|t| if t == "." { None } else { Some(t.parse().expect("u32")) }).collect()
}

fn hex_str(t: &str) -> String {
    String::from_utf8(unhex(t)).expect("utf8")
}

fn hex_char(t: &str) -> char {
    let b = unhex(t);
    assert!(b.len() == 1 && b[0] < 128, "ASCII character");
    b[0] as char
}

fn parse_opt_strs(s: &str) -> Vec<Option<String>> {
    if s == "e" {
        return vec![];
    }
    s.split(',').map(|t| if t == "." { None } else { Some(hex_str(t)) }).collect()
}

fn parse_opt_chars(s: &str) -> Vec<Option<char>> {
    if s == "e" {
        return vec![];
    }
    s.split(',').map(|t| if t == "." { None } else { Some(hex_char(t)) }).collect()
}

fn parse_gt(s: &str) -> Vec<(Option<usize>, bool)> {
    if s == "e" {
        return vec![];
    }
    s.split(',')
        .map(|t| {
            let (p, ph) = t.split_at(t.len() - 1);
            (if p == "." { None } else { Some(p.parse().expect("allele")) }, ph == "p")
        })
        .collect()
}

fn micro_header(info: bool, id: &str, num: &str, ty: &str, nsamples: usize) -> Hdr {
    let def = Def {
        id: id.into(),
        num: match num {
            "1" => Num::Count(1),
            _ => Num::Dot,
        },
        ty: match ty {
            "Integer" => Ty::Int,
            "Float" => Ty::Float,
            "Character" => Ty::Char,
            _ => Ty::Str,
        },
        idx: None,
    };
    Hdr {
        ff: (4, 4),
        contigs: vec![("c".into(), None)],
        infos: if info { vec![def.clone()] } else { vec![] },
        filters: vec![],
        formats: if info { vec![] } else { vec![def] },
        samples: (0..nsamples).map(|i| format!("s{i}")).collect(),
    }
}

fn micro_rec() -> Rec {
    Rec {
        chrom: "c".into(),
        pos: 1,
        refb: "A".into(),
        ..Rec::default()
    }
}

/// site bytes before the INFO value of a micro record: 24 fixed + ids(07) + ref(17 41) + filters(00) + key(11 01)
const INFO_PREFIX_TAIL: [u8; 6] = [0x07, 0x17, 0x41, 0x00, 0x11, 0x01];

fn micro(c: &Case) -> Option<(Hdr, Rec)> {
    let a = |i: usize| c.args[i].as_str();
    let mut r = micro_rec();
    let h = match c.kind.as_str() {
        "ii" => {
            r.info = vec![("X".into(), Some(V::I(a(0).parse().unwrap())))];
            micro_header(true, "X", "1", "Integer", 0)
        }
        "iv" => {
            r.info = vec![("X".into(), Some(V::AI(parse_opt_i32s(a(0)))))];
            micro_header(true, "X", ".", "Integer", 0)
        }
        "if" => {
            r.info = vec![("X".into(), Some(V::F(a(0).parse().unwrap())))];
            micro_header(true, "X", "1", "Float", 0)
        }
        "ifv" => {
            r.info = vec![("X".into(), Some(V::AF(parse_opt_u32s(a(0)))))];
            micro_header(true, "X", ".", "Float", 0)
        }
        "im" => {
            r.info = vec![("X".into(), None)];
            micro_header(true, "X", "1", a(0), 0)
        }
        "is" => {
            r.info = vec![("X".into(), Some(V::S(String::from_utf8(unhex(a(0))).unwrap())))];
            micro_header(true, "X", "1", "String", 0)
        }
        "ic" => {
            r.info = vec![("X".into(), Some(V::C(hex_char(a(0)))))];
            micro_header(true, "X", "1", "Character", 0)
        }
        "icv" => {
            r.info = vec![("X".into(), Some(V::AC(parse_opt_chars(a(0)))))];
            micro_header(true, "X", ".", "Character", 0)
        }
        "isv" => {
            r.info = vec![("X".into(), Some(V::AS(parse_opt_strs(a(0)))))];
            micro_header(true, "X", ".", "String", 0)
        }
        "fc" | "fcv" | "fs" | "fsv" => {
            let per: Vec<&str> = a(0).split(';').collect();
            r.keys = vec!["X".to_string()];
            r.samples = per
                .iter()
                .map(|s| {
                    vec![match c.kind.as_str() {
                        _ if *s == "." => None,
                        "fc" => Some(V::C(hex_char(s))),
                        "fcv" => Some(V::AC(parse_opt_chars(s))),
                        "fs" => Some(V::S(hex_str(s))),
                        _ => Some(V::AS(parse_opt_strs(s))),
                    }]
                })
                .collect();
            match c.kind.as_str() {
                "fc" => micro_header(false, "X", "1", "Character", per.len()),
                "fcv" => micro_header(false, "X", ".", "Character", per.len()),
                "fs" => micro_header(false, "X", "1", "String", per.len()),
                _ => micro_header(false, "X", ".", "String", per.len()),
            }
        }
        "fi" | "fv" | "ff" | "ffv" | "gt" => {
            let per: Vec<&str> = a(0).split(';').collect();
            r.keys = vec![if c.kind == "gt" { "GT".to_string() } else { "X".to_string() }];
            r.samples = per
                .iter()
                .map(|s| {
                    vec![match c.kind.as_str() {
                        "gt" => Some(V::GT(parse_gt(s))),
                        _ if *s == "." => None,
                        "fi" => Some(V::I(s.parse().unwrap())),
                        "fv" => Some(V::AI(parse_opt_i32s(s))),
                        "ff" => Some(V::F(s.parse().unwrap())),
                        _ => Some(V::AF(parse_opt_u32s(s))),
                    }]
                })
                .collect();
            match c.kind.as_str() {
                "gt" => micro_header(false, "GT", "1", "String", per.len()),
                "fi" => micro_header(false, "X", "1", "Integer", per.len()),
                "fv" => micro_header(false, "X", ".", "Integer", per.len()),
                "ff" => micro_header(false, "X", "1", "Float", per.len()),
                _ => micro_header(false, "X", ".", "Float", per.len()),
            }
        }
        _ => return None,
    };
    Some((h, r))
}

fn finish(mut o: Obs, verdict: Result<(), (String, String)>) -> Obs {
    match verdict {
        Err((t, _)) if t == "SKIP" => {
            o.verdict = "skip".into();
            o
        }
        v => o.with_verdict(v),
    }
}

fn run_micro(c: &Case, h: &Hdr, r: &Rec) -> Obs {
    // Character/String kinds: the reader's failure mode (panic or error) is one observation
    let fail_as_one = matches!(c.kind.as_str(), "ic" | "icv" | "isv" | "fc" | "fcv" | "fs" | "fsv");
    let header = parse_header(&header_text(h)).expect("micro header");
    let rb = to_buf(r);
    let is_info = !r.info.is_empty();
    let w = write_bcf(&header, &rb);
    let (wobs, robs, recobs) = match &w {
        WriteRes::Err(k) => (format!("Err:{k}"), "-".to_string(), format!("Err:{k}")),
        WriteRes::Panic(_) => ("Panic".to_string(), "-".to_string(), "Panic".to_string()),
        WriteRes::Ok { stream, hlen } => {
            let rec = &stream[*hlen..];
            let l_shared = u32::from_le_bytes(rec[0..4].try_into().unwrap()) as usize;
            let l_indiv = u32::from_le_bytes(rec[4..8].try_into().unwrap()) as usize;
            assert_eq!(rec.len(), 8 + l_shared + l_indiv, "record framing");
            let typed = if is_info {
                assert_eq!(&rec[8 + 24..8 + 30], &INFO_PREFIX_TAIL, "site prefix");
                &rec[8 + 30..8 + l_shared]
            } else {
                let indiv = &rec[8 + l_shared..];
                assert_eq!(&indiv[0..2], &[0x11, 0x01], "format key");
                &indiv[2..]
            };
            let rd = match read_via_buf(stream) {
                Ok((_, b)) => {
                    let back = of_buf(&b);
                    if is_info {
                        match back.info.first() {
                            Some((_, v)) => canon_v(v),
                            None => "NoField".into(),
                        }
                    } else {
                        back.samples
                            .iter()
                            .map(|s| canon_v(s.first().unwrap_or(&None)))
                            .collect::<Vec<_>>()
                            .join(";")
                    }
                }
                Err(_) if fail_as_one => "Fail".into(),
                Err(e) if e.starts_with("Panic") => "Panic".into(),
                Err(_) => "Err".into(),
            };
            (hex(typed), rd, hex(rec))
        }
    };
    let (verdict, nontrivial) = check_record(h, r);
    // the third token is the whole record as written (l_shared, l_indiv, site, samples)
    finish(Obs::ok(format!("{wobs} {robs} R:{recobs}"), nontrivial), verdict)
}

// ---------------------------------------------------------------------------------------------
// Generators.

const INT_POOL: [i64; 40] = [
    0, 1, -1, 2, 7, 63, 64, 100, 126, 127, 128, 129, 255, 256, -119, -120, -121, -122, -127, -128, -129,
    -130, 32766, 32767, 32768, 32769, 65535, 65536, -32759, -32760, -32761, -32762, -32767, -32768,
    -32769, 2147483647, 2147483646, -2147483640, -2147483639, 1000000,
];
const INT_BAD: [i64; 4] = [-2147483641, -2147483647, -2147483648, -2147483645];

fn gen_int(rng: &mut Rng, allow_bad: bool) -> i32 {
    let x = match rng.below(10) {
        0..=5 => *rng.pick(&INT_POOL),
        6 => rng.range(0, 300) as i64 - 150,
        7 => rng.range(0, 70000) as i64 - 35000,
        8 => (rng.next() as i32) as i64,
        _ => {
            if allow_bad && rng.chance(1, 3) {
                *rng.pick(&INT_BAD)
            } else {
                *rng.pick(&INT_POOL)
            }
        }
    };
    let x = x as i32;
    if !allow_bad && (x as i64) < -2147483640 {
        -2147483640
    } else {
        x
    }
}

/// integers drawn so that a vector exercises one width boundary at a time
fn gen_int_in_width(rng: &mut Rng, w: u64) -> i32 {
    match w {
        0 => *rng.pick(&[0i32, 1, -1, 127, 126, -120, -119, 5, 64]),
        1 => *rng.pick(&[128i32, -121, -128, -127, 32767, -32760, -32759, 300, -129, 255]),
        _ => *rng.pick(&[32768i32, -32761, -32768, -32767, 2147483647, -2147483640, 65536, -32769]),
    }
}

const FLOAT_POOL: [u32; 22] = [
    0x0000_0000, 0x8000_0000, 0x3f80_0000, 0xbf80_0000, 0x7f80_0000, 0xff80_0000, 0x7fc0_0000,
    0xffc0_0000, 0x7fc0_0001, 0x7f80_0008, 0x7f80_0000 | 0x3f_ffff, 0xff80_0001, 0xff80_0002,
    0x0000_0001, 0x007f_ffff, 0x0080_0000, 0x7f7f_ffff, 0x4049_0fdb, 0x3dcc_cccd, 0x7fff_ffff,
    0x7f80_0009, 0xff80_0007,
];

fn gen_float(rng: &mut Rng, allow_reserved: bool) -> u32 {
    let b = match rng.below(4) {
        0 | 1 => *rng.pick(&FLOAT_POOL),
        2 => rng.next() as u32,
        _ => {
            if allow_reserved {
                rng.range(RESERVED_NAN_LO as u64 - 1, RESERVED_NAN_HI as u64 + 1) as u32
            } else {
                (rng.range(0, 2000) as f32 / 8.0 - 100.0).to_bits()
            }
        }
    };
    if !allow_reserved && is_reserved_nan(b) { 0x7fc0_0000 } else { b }
}

fn gen_word(rng: &mut Rng, lo: u64, hi: u64) -> String {
    const AL: &[u8] = b"ABCDEFGHIJKLMNOPQRSTUVWXYZabcdefghijklmnopqrstuvwxyz0123456789_";
    let n = rng.range(lo, hi);
    (0..n).map(|_| *rng.pick(AL) as char).collect()
}

fn fmt_opt_list<T: ToString>(xs: &[Option<T>]) -> String {
    if xs.is_empty() {
        return "e".into();
    }
    xs.iter()
        .map(|x| x.as_ref().map(|v| v.to_string()).unwrap_or_else(|| ".".into()))
        .collect::<Vec<_>>()
        .join(",")
}

fn gen_int_vec(rng: &mut Rng, len: usize, wmax: u64, miss: u64, allow_bad: bool) -> Vec<Option<i32>> {
    (0..len)
        .map(|_| {
            if rng.chance(miss, 10) {
                None
            } else if allow_bad && rng.chance(1, 12) {
                Some(*rng.pick(&INT_BAD) as i32)
            } else {
                let w = rng.range(0, wmax);
                Some(gen_int_in_width(rng, w))
            }
        })
        .collect()
}

fn fmt_gt(g: &[(Option<usize>, bool)]) -> String {
    if g.is_empty() {
        return "e".into();
    }
    g.iter()
        .map(|(p, ph)| format!("{}{}", p.map(|p| p.to_string()).unwrap_or_else(|| ".".into()), if *ph { 'p' } else { 'u' }))
        .collect::<Vec<_>>()
        .join(",")
}

fn gen_gt(rng: &mut Rng, ploidy: usize, clean: bool) -> Vec<(Option<usize>, bool)> {
    (0..ploidy)
        .map(|_| {
            let ph = rng.chance(1, 2);
            if rng.chance(1, 5) {
                (None, if clean { false } else { ph })
            } else {
                let p = match rng.below(12) {
                    0 if !clean => *rng.pick(&[62usize, 63, 64, 126, 127, 128, 255, 300]),
                    1 => *rng.pick(&[61usize, 62, 10, 31]),
                    _ => rng.below(4) as usize,
                };
                (Some(p), ph)
            }
        })
        .collect()
}

fn generate(rng: &mut Rng, tier: &str, w: &mut CaseWriter) {
    let thorough = tier == "thorough";
    let mul: usize = if thorough { 12 } else { 1 };

    // --- INFO Integer scalars: every pool value, every value around each width edge
    for &n in INT_POOL.iter().chain(INT_BAD.iter()) {
        w.push("ii", vec![n.to_string()]);
    }
    for edge in [-2147483640i64, -32760, -120, 0, 127, 32767] {
        for d in -9i64..=9 {
            let n = edge + d;
            if n >= i32::MIN as i64 {
                w.push("ii", vec![n.to_string()]);
            }
        }
    }
    for d in 0..10i64 {
        w.push("ii", vec![(i32::MAX as i64 - d).to_string()]);
        w.push("ii", vec![(i32::MIN as i64 + d).to_string()]);
    }
    for _ in 0..100 * mul {
        w.push("ii", vec![gen_int(rng, true).to_string()]);
    }
    if thorough {
        // all Int8/Int16-sized scalars
        for n in -33000i64..=33000 {
            w.push("ii", vec![n.to_string()]);
        }
    } else {
        for n in -300i64..=300 {
            w.push("ii", vec![n.to_string()]);
        }
    }

    // --- INFO Integer vectors
    for _ in 0..250 * mul {
        let len = match rng.below(8) {
            0 => 1,
            1 => 15,
            2 => 14,
            3 => 16,
            4 => rng.range(120, 135) as usize,
            _ => rng.range(1, 6) as usize,
        };
        let wmax = rng.range(0, 2);
        let miss = rng.range(0, 4);
        let bad = rng.chance(1, 8);
        let v = gen_int_vec(rng, len, wmax, miss, bad);
        w.push("iv", vec![fmt_opt_list(&v)]);
    }
    for v in [vec![None], vec![None, None], vec![Some(-120), None], vec![Some(-121), None], vec![None, Some(128)], vec![Some(i32::MAX), Some(-2147483640)]] {
        w.push("iv", vec![fmt_opt_list::<i32>(&v)]);
    }
    w.push("iv", vec!["e".into()]);

    // --- INFO floats
    for &b in FLOAT_POOL.iter() {
        w.push("if", vec![b.to_string()]);
    }
    for b in RESERVED_NAN_LO - 2..=RESERVED_NAN_HI + 2 {
        w.push("if", vec![b.to_string()]);
        w.push("ifv", vec![format!("{b},0")]);
        w.push("ifv", vec![format!("{b}")]);
    }
    for _ in 0..80 * mul {
        w.push("if", vec![gen_float(rng, true).to_string()]);
        let len = rng.range(1, 5) as usize;
        let res = rng.chance(1, 6);
        let v: Vec<Option<u32>> = (0..len)
            .map(|_| if rng.chance(1, 5) { None } else { Some(gen_float(rng, res)) })
            .collect();
        w.push("ifv", vec![fmt_opt_list(&v)]);
    }

    // --- INFO strings: descriptor lengths (overflow length stored as Int8/Int16/Int32)
    let mut lens: Vec<usize> = vec![0, 1, 2, 13, 14, 15, 16, 17, 126, 127, 128, 129, 255, 256, 257];
    if thorough {
        lens.extend([32766, 32767, 32768, 32769, 65535, 65536, 70001]);
    } else {
        lens.extend([32767, 32768]);
    }
    for l in lens {
        let s = gen_word(rng, l as u64, l as u64);
        w.push("is", vec![hex(s.as_bytes())]);
    }
    for _ in 0..20 * mul {
        let s = gen_word(rng, 1, 40);
        w.push("is", vec![hex(s.as_bytes())]);
    }
    w.push("is", vec![hex(b".")]);
    for t in ["Integer", "Float", "String"] {
        w.push("im", vec![t.to_string()]);
    }

    // --- FORMAT Integer scalars per sample
    for _ in 0..200 * mul {
        let ns = rng.range(1, 5) as usize;
        let wmax = rng.range(0, 2);
        let bad = rng.chance(1, 10);
        let miss = rng.range(0, 4);
        let v = gen_int_vec(rng, ns, wmax, miss, bad);
        let s: Vec<String> = v.iter().map(|x| x.map(|n| n.to_string()).unwrap_or_else(|| ".".into())).collect();
        w.push("fi", vec![s.join(";")]);
    }

    // --- FORMAT Integer vectors per sample (unequal lengths, missing samples, EOV padding)
    for _ in 0..400 * mul {
        let ns = rng.range(1, 5) as usize;
        let wmax = rng.range(0, 2);
        let miss = rng.range(0, 4);
        let bad = rng.chance(1, 12);
        let longest = match rng.below(8) {
            0 => rng.range(14, 17) as usize,
            _ => rng.range(1, 5) as usize,
        };
        let per: Vec<String> = (0..ns)
            .map(|_| {
                if rng.chance(1, 6) {
                    ".".to_string()
                } else {
                    let len = if rng.chance(1, 25) { 0 } else { rng.range(1, longest as u64) as usize };
                    fmt_opt_list(&gen_int_vec(rng, len, wmax, miss, bad))
                }
            })
            .collect();
        w.push("fv", vec![per.join(";")]);
    }
    for s in [".", ".;.", ".;.;.", "e", "e;e", ".;e", "1;.", ".;1,2", ".,.;.", ".;.,.", "-120;-121", "127,128;.", "e;1,2,3", "1,.;.;2,3,4"] {
        w.push("fv", vec![s.to_string()]);
    }

    // --- FORMAT floats
    for _ in 0..100 * mul {
        let ns = rng.range(1, 4) as usize;
        let res = rng.chance(1, 8);
        let per: Vec<String> = (0..ns)
            .map(|_| if rng.chance(1, 5) { ".".into() } else { gen_float(rng, res).to_string() })
            .collect();
        w.push("ff", vec![per.join(";")]);
        let per: Vec<String> = (0..ns)
            .map(|_| {
                if rng.chance(1, 6) {
                    ".".to_string()
                } else {
                    let len = rng.range(1, 4) as usize;
                    let v: Vec<Option<u32>> = (0..len)
                        .map(|_| if rng.chance(1, 5) { None } else { Some(gen_float(rng, res)) })
                        .collect();
                    fmt_opt_list(&v)
                }
            })
            .collect();
        w.push("ffv", vec![per.join(";")]);
    }
    for s in [".", ".;.", "e", "e;e", "0;e"] {
        w.push("ffv", vec![s.to_string()]);
    }

    // --- genotypes: ploidy 0..4, missing alleles, mixed phasing, mixed ploidy
    for ploidy in 0..=4usize {
        for _ in 0..30 * mul {
            let ns = rng.range(1, 4) as usize;
            let per: Vec<String> = (0..ns).map(|_| fmt_gt(&gen_gt(rng, ploidy, true))).collect();
            w.push("gt", vec![per.join(";")]);
        }
    }
    for _ in 0..150 * mul {
        let ns = rng.range(1, 5) as usize;
        let clean = rng.chance(1, 2);
        let per: Vec<String> = (0..ns)
            .map(|_| {
                let p = rng.range(0, 4) as usize;
                fmt_gt(&gen_gt(rng, p, clean))
            })
            .collect();
        w.push("gt", vec![per.join(";")]);
    }
    for s in ["0u,1u", "0p,1p", ".u,.u", ".p,.p", "0u,.p", "0u;0u,1u", "0u,1u;0u,1u,2u", "e", "e;0u", "62u", "63u", "64u", "126u", "127u", "128u", "0u,1p,2u,3p"] {
        w.push("gt", vec![s.to_string()]);
    }

    // --- Character / String values and series (ASCII characters; strings incl. the special class)
    const SPECIAL_STRS: [&str; 14] = ["", ".", "a,b", ",", "a,", ",a", "..", "a.b", "\u{e9}", "a\0b", " ", ".,.", "x;y=z", "\0"];
    const SPECIAL_CHARS: [char; 7] = ['.', ',', ';', ' ', '%', '=', ':'];
    fn g_str(rng: &mut Rng, special: bool) -> String {
        if special && rng.chance(1, 3) { rng.pick(&SPECIAL_STRS).to_string() } else { gen_word(rng, 1, 9) }
    }
    fn g_chr(rng: &mut Rng, special: bool) -> char {
        if special && rng.chance(1, 3) { *rng.pick(&SPECIAL_CHARS) } else { gen_word(rng, 1, 1).chars().next().unwrap() }
    }
    fn f_strs(v: &[Option<String>]) -> String {
        if v.is_empty() {
            return "e".into();
        }
        v.iter().map(|x| x.as_ref().map(|s| hex(s.as_bytes())).unwrap_or_else(|| ".".into())).collect::<Vec<_>>().join(",")
    }
    fn f_chars(v: &[Option<char>]) -> String {
        if v.is_empty() {
            return "e".into();
        }
        v.iter().map(|x| x.map(|c| hex(&[c as u8])).unwrap_or_else(|| ".".into())).collect::<Vec<_>>().join(",")
    }
    for b in 0x20u8..0x7f {
        w.push("ic", vec![hex(&[b])]);
    }
    for &ch in SPECIAL_CHARS.iter() {
        w.push("icv", vec![f_chars(&[Some('a'), Some(ch)])]);
        w.push("fc", vec![format!("{};{}", hex(&[ch as u8]), hex(b"a"))]);
        w.push("fcv", vec![format!("{};.", f_chars(&[Some('a'), Some(ch), None]))]);
    }
    for t in SPECIAL_STRS.iter() {
        w.push("isv", vec![f_strs(&[Some(t.to_string())])]);
        w.push("isv", vec![f_strs(&[Some("q".to_string()), Some(t.to_string())])]);
        w.push("fs", vec![hex(t.as_bytes())]);
        w.push("fs", vec![format!("{};{};.", hex(t.as_bytes()), hex(b"abc"))]);
        w.push("fsv", vec![f_strs(&[Some(t.to_string())])]);
        w.push("fsv", vec![format!("{};.;{}", f_strs(&[Some(t.to_string()), None, Some("zz".into())]), f_strs(&[Some("w".into())]))]);
    }
    for s in [".", ".,.", "e", ".,61"] {
        w.push("icv", vec![s.to_string()]);
        w.push("isv", vec![s.to_string()]);
    }
    for s in [".;.", ".", "e;.", ".,.;61", "e"] {
        w.push("fsv", vec![s.to_string()]);
    }
    // every sample missing (written as one "." cell per sample since fix 17)
    for s in [".", ".;.", ".;.;."] {
        w.push("fc", vec![s.to_string()]);
        w.push("fcv", vec![s.to_string()]);
        w.push("fs", vec![s.to_string()]);
    }
    for _ in 0..120 * mul {
        let special = rng.chance(1, 3);
        let miss = rng.range(0, 3);
        let len = match rng.below(6) {
            0 => rng.range(7, 9) as usize, // joined length around the 15-byte descriptor edge
            _ => rng.range(1, 4) as usize,
        };
        let cv: Vec<Option<char>> = (0..len).map(|_| if rng.chance(miss, 10) { None } else { Some(g_chr(rng, special)) }).collect();
        w.push("icv", vec![f_chars(&cv)]);
        let sv: Vec<Option<String>> = (0..len).map(|_| if rng.chance(miss, 10) { None } else { Some(g_str(rng, special)) }).collect();
        w.push("isv", vec![f_strs(&sv)]);
        // series: mostly at least one present value
        let ns = rng.range(1, 4) as usize;
        let keep = rng.below(ns as u64) as usize;
        let per: Vec<String> = (0..ns)
            .map(|i| if i != keep && rng.chance(1, 4) { ".".into() } else { hex(&[g_chr(rng, special) as u8]) })
            .collect();
        w.push("fc", vec![per.join(";")]);
        let per: Vec<String> = (0..ns)
            .map(|i| {
                if i != keep && rng.chance(1, 4) {
                    ".".into()
                } else {
                    let l = rng.range(1, 4) as usize;
                    f_chars(&(0..l).map(|_| if rng.chance(miss, 10) { None } else { Some(g_chr(rng, special)) }).collect::<Vec<_>>())
                }
            })
            .collect();
        w.push("fcv", vec![per.join(";")]);
        let per: Vec<String> = (0..ns)
            .map(|i| if i != keep && rng.chance(1, 4) { ".".into() } else { hex(g_str(rng, special).as_bytes()) })
            .collect();
        w.push("fs", vec![per.join(";")]);
        let per: Vec<String> = (0..ns)
            .map(|_| {
                if rng.chance(1, 4) {
                    ".".into()
                } else {
                    let l = rng.range(1, 4) as usize;
                    f_strs(&(0..l).map(|_| if rng.chance(miss, 10) { None } else { Some(g_str(rng, special)) }).collect::<Vec<_>>())
                }
            })
            .collect();
        w.push("fsv", vec![per.join(";")]);
    }
    // long cells: descriptor overflow lengths for a series
    for l in [14usize, 15, 16, 127, 128, 300] {
        let s = gen_word(rng, l as u64, l as u64);
        w.push("fs", vec![format!("{};{}", hex(s.as_bytes()), hex(b"ab"))]);
        w.push("fsv", vec![format!("{},{};.", hex(s.as_bytes()), hex(b"ab"))]);
    }

    // --- string maps from header lines: no IDX, IDX = order, injective IDX with gaps, and wild
    // (colliding / mismatching) assignments
    for i in 0..(150 * mul) {
        let ninfo = rng.range(0, 4) as usize;
        let nfilt = rng.range(0, 3) as usize;
        let nfmt = rng.range(0, 4) as usize;
        let mut lines: Vec<(char, String)> = Vec::new();
        for k in 0..ninfo {
            lines.push(('I', format!("K{k}")));
        }
        if rng.chance(1, 2) {
            lines.push(('L', "PASS".into()));
        }
        for k in 0..nfilt {
            lines.push(('L', format!("f{k}")));
        }
        for k in 0..nfmt {
            // some FORMAT ids are INFO ids
            lines.push(('M', if k < ninfo && rng.chance(1, 3) { format!("K{k}") } else { format!("Q{k}") }));
        }
        let mut names: Vec<String> = Vec::new();
        for (_, n) in &lines {
            if n != "PASS" && !names.contains(n) {
                names.push(n.clone());
            }
        }
        let mode = i % 5;
        let mut assign: std::collections::HashMap<String, usize> = std::collections::HashMap::new();
        match mode {
            1 => {
                for (j, n) in names.iter().enumerate() {
                    assign.insert(n.clone(), j + 1);
                }
            }
            2 | 3 => {
                let gap = *rng.pick(&[0usize, 3, 130, 40000]);
                let mut slots: Vec<usize> = (1..=names.len() + gap).collect();
                for n in &names {
                    let k = rng.below(slots.len() as u64) as usize;
                    assign.insert(n.clone(), slots.swap_remove(k));
                }
            }
            _ => {}
        }
        assign.insert("PASS".into(), 0);
        let ls: Vec<String> = lines
            .iter()
            .map(|(k, n)| {
                let idx = match mode {
                    0 => None,
                    1 | 2 => assign.get(n).copied(),
                    // explicit on some lines only
                    3 => if rng.chance(1, 2) { assign.get(n).copied() } else { None },
                    // wild: small random indices, collisions and mismatches included
                    _ => if rng.chance(1, 4) { None } else { Some(rng.range(0, 6) as usize) },
                };
                format!("{k}:{n}:{}", idx.map(|i| i.to_string()).unwrap_or_else(|| "-".into()))
            })
            .collect();
        let nc = rng.range(0, 3) as usize;
        let mut cslots: Vec<usize> = (0..nc + 2).collect();
        let cs: Vec<String> = (0..nc)
            .map(|k| {
                let idx = match mode {
                    0 => None,
                    1 => Some(k),
                    2 | 3 => { let j = rng.below(cslots.len() as u64) as usize; Some(cslots.remove(j)) }
                    _ => if rng.chance(1, 3) { None } else { Some(rng.range(0, 3) as usize) },
                };
                format!("c{k}:{}", idx.map(|i| i.to_string()).unwrap_or_else(|| "-".into()))
            })
            .collect();
        let j = |v: Vec<String>| if v.is_empty() { "_".to_string() } else { v.join(",") };
        w.push("sm", vec![j(ls), j(cs)]);
    }
    for (a, b) in [("I:A:1,I:B:1", "_"), ("I:A:-,I:B:1", "_"), ("L:PASS:5", "_"), ("I:A:0", "_"), ("I:A:2,M:A:3", "_"), ("I:A:-,M:A:1", "c0:1,c1:1"), ("I:A:5,I:B:-", "c0:1,c1:-"), ("_", "_")] {
        w.push("sm", vec![a.to_string(), b.to_string()]);
    }

    // --- record heads: framing, fixed site fields, ids / alleles / FILTER, n_fmt / n_sample packing
    for i in 0..(200 * mul) {
        let ninfo = rng.range(0, 4) as usize;
        let nfilt = rng.range(0, 4) as usize;
        let nfmt = rng.range(0, 3) as usize;
        let ncontig = rng.range(1, 3) as usize;
        let mut names: Vec<(char, String)> = Vec::new();
        for k in 0..ninfo { names.push(('I', format!("K{k}"))); }
        if rng.chance(1, 2) { names.push(('L', "PASS".into())); }
        for k in 0..nfilt { names.push(('L', format!("f{k}"))); }
        for k in 0..nfmt { names.push(('M', format!("Q{k}"))); }
        // IDX: none, or an injective assignment with gaps (so that indices need Int8/Int16/Int32)
        let gap = *rng.pick(&[0usize, 0, 120, 130, 33000]);
        let explicit = i % 2 == 1;
        let mut slots: Vec<usize> = (1..=names.len() + gap).collect();
        let ls: Vec<String> = names.iter().map(|(k, n)| {
            let idx = if !explicit { None } else if n == "PASS" { Some(0) } else { let j = rng.below(slots.len() as u64) as usize; Some(slots.swap_remove(j)) };
            format!("{k}:{n}:{}", idx.map(|i| i.to_string()).unwrap_or_else(|| "-".into()))
        }).collect();
        let mut cslots: Vec<usize> = (0..ncontig + 3).collect();
        let cs: Vec<String> = (0..ncontig).map(|k| {
            let idx = if !explicit { None } else { let j = rng.below(cslots.len() as u64) as usize; Some(cslots.remove(j)) };
            format!("c{k}:{}", idx.map(|i| i.to_string()).unwrap_or_else(|| "-".into()))
        }).collect();
        let chrom = if rng.chance(1, 30) { "nope".to_string() } else { format!("c{}", rng.below(ncontig as u64)) };
        let pos = match rng.below(6) {
            0 => ".".to_string(),
            1 => "1".to_string(),
            2 => "2147483647".to_string(),
            3 => if rng.chance(1, 3) { "2147483648".to_string() } else { rng.range(1, 1 << 31).to_string() },
            _ => rng.range(1, 100000).to_string(),
        };
        let qual = match rng.below(3) { 0 => ".".to_string(), _ => { let res = rng.chance(1, 10); gen_float(rng, res).to_string() } };
        let nid = *rng.pick(&[0usize, 0, 1, 2, 3]);
        // the IDs of a RecordBuf are a set: no duplicates
        let mut ids: Vec<String> = Vec::new();
        for _ in 0..nid {
            let t = if rng.chance(1, 15) { hex(rng.pick(&["", "a;b", "."]).as_bytes()) } else { hex(gen_word(rng, 1, 9).as_bytes()) };
            if !ids.contains(&t) {
                ids.push(t);
            }
        }
        let bases = |rng: &mut Rng| -> String { let n = rng.range(1, 20); (0..n).map(|_| *rng.pick(&['A', 'C', 'G', 'T'])).collect() };
        let refb = bases(rng);
        let nalt = *rng.pick(&[0usize, 1, 1, 2, 3]);
        let alts: Vec<String> = (0..nalt).map(|_| if rng.chance(1, 8) { "<DEL>".to_string() } else { bases(rng) }).collect();
        let mut filt: Vec<String> = Vec::new();
        match rng.below(4) {
            0 => {}
            1 => filt.push("PASS".into()),
            _ => {
                for k in 0..nfilt { if rng.chance(1, 2) { filt.push(format!("f{k}")); } }
                if rng.chance(1, 25) { filt.push("zz".into()); }
            }
        }
        let flags: Vec<String> = (0..ninfo).filter(|_| rng.chance(2, 3)).map(|k| format!("K{k}")).collect();
        let ns = if nfmt == 0 { *rng.pick(&[0usize, 0, 2]) } else { rng.range(1, 3) as usize };
        let fm: Vec<String> = (0..nfmt).map(|k| {
            let v: Vec<String> = (0..ns).map(|_| if rng.chance(1, 5) { ".".into() } else { let wd = rng.below(3); gen_int_in_width(rng, wd).to_string() }).collect();
            format!("Q{k}={}", v.join(";"))
        }).collect();
        let j = |v: Vec<String>| if v.is_empty() { "_".to_string() } else { v.join(",") };
        let e = |v: Vec<String>, sep: &str| if v.is_empty() { "e".to_string() } else { v.join(sep) };
        w.push("hd", vec![j(ls), j(cs), chrom, pos, refb.len().to_string(), qual, e(ids, ","), hex(refb.as_bytes()),
            e(alts.iter().map(|s| hex(s.as_bytes())).collect(), ","), e(filt, ","), e(flags, ","), ns.to_string(), e(fm, "|")]);
    }

    // --- several INFO fields and several FORMAT series in one record (the walk over the blocks)
    for _ in 0..(250 * mul) {
        let ninfo = rng.range(0, 5) as usize;
        let nfmt = rng.range(0, 4) as usize;
        let ns = if nfmt == 0 { *rng.pick(&[0usize, 2]) } else { rng.range(1, 3) as usize };
        let clean_f = |rng: &mut Rng| gen_float(rng, false).to_string();
        let opt_join = |v: Vec<Option<String>>| v.into_iter().map(|x| x.unwrap_or_else(|| ".".into())).collect::<Vec<_>>().join(",");
        let mut is: Vec<String> = Vec::new();
        for _ in 0..ninfo {
            let len = *rng.pick(&[1usize, 2, 3, 5, 15, 16]);
            let miss = rng.range(0, 3);
            is.push(match rng.below(9) {
                0 => format!("ii~{}", gen_int(rng, false)),
                1 => format!("iv~{}", fmt_opt_list(&gen_int_vec(rng, len, 2, miss, false))),
                2 => format!("if~{}", clean_f(rng)),
                3 => format!("ifv~{}", opt_join((0..len).map(|_| if rng.chance(miss, 10) { None } else { Some(clean_f(rng)) }).collect())),
                4 => format!("is~{}", hex(gen_word(rng, 1, 20).as_bytes())),
                5 => format!("ic~{}", hex(gen_word(rng, 1, 1).as_bytes())),
                6 => format!("icv~{}", opt_join((0..len).map(|_| if rng.chance(miss, 10) { None } else { Some(hex(gen_word(rng, 1, 1).as_bytes())) }).collect())),
                7 => format!("isv~{}", opt_join((0..len).map(|_| if rng.chance(miss, 10) { None } else { Some(hex(gen_word(rng, 1, 6).as_bytes())) }).collect())),
                _ => format!("im~{}", rng.pick(&["Integer", "Float", "String"])),
            });
        }
        let mut fs: Vec<String> = Vec::new();
        let gt_first = nfmt > 0 && rng.chance(1, 2);
        for j in 0..nfmt {
            let miss = rng.range(0, 3);
            let kind = if j == 0 && gt_first { 0 } else { rng.range(1, 8) };
            let per: Vec<String> = (0..ns)
                .map(|i| {
                    let absent = kind != 0 && i > 0 && rng.chance(1, 4);
                    if absent {
                        return ".".to_string();
                    }
                    let len = rng.range(1, 4) as usize;
                    match kind {
                        0 => { let p = rng.range(1, 3) as usize; fmt_gt(&gen_gt(rng, p, true)) }
                        1 => { let wd = rng.below(3); gen_int_in_width(rng, wd).to_string() }
                        2 => fmt_opt_list(&gen_int_vec(rng, len, 2, miss, false)),
                        3 => clean_f(rng),
                        4 => opt_join((0..len).map(|_| if rng.chance(miss, 10) { None } else { Some(clean_f(rng)) }).collect()),
                        5 => hex(gen_word(rng, 1, 1).as_bytes()),
                        6 => opt_join((0..len).map(|_| if rng.chance(miss, 10) { None } else { Some(hex(gen_word(rng, 1, 1).as_bytes())) }).collect()),
                        7 => hex(gen_word(rng, 1, 18).as_bytes()),
                        _ => opt_join((0..len).map(|_| if rng.chance(miss, 10) { None } else { Some(hex(gen_word(rng, 1, 6).as_bytes())) }).collect()),
                    }
                })
                .collect();
            let k = ["gt", "fi", "fv", "ff", "ffv", "fc", "fcv", "fs", "fsv"][kind as usize];
            fs.push(format!("{k}~{}", per.join(";")));
        }
        let e = |v: Vec<String>| if v.is_empty() { "e".to_string() } else { v.join("|") };
        w.push("blk", vec![e(is), e(fs), ns.to_string()]);
    }

    // --- hostile value bytes for every value decoder (descriptors of every type code and length
    // nibble, overflow lengths incl. nested / non-integer / negative ones, sentinels, short payloads)
    {
        const DKS: [&str; 17] = ["ii", "iv", "if", "ifv", "is", "isv", "ic", "icv", "fi", "fv", "ff", "ffv", "fs", "fsv", "fc", "fcv", "gt"];
        // Character kinds: payload bytes stay ASCII (the model's characters are single bytes); the
        // String kinds get arbitrary bytes, well-formed and malformed UTF-8 included
        let stringy = |dk: &str| matches!(dk, "ic" | "icv" | "fc" | "fcv");
        let texty = |dk: &str| matches!(dk, "is" | "isv" | "fs" | "fsv");
        const UTF8: [&[u8]; 16] = [
            &[0xc3, 0xa9], &[0xe2, 0x82, 0xac], &[0xf0, 0x9f, 0x98, 0x80], &[0xf4, 0x8f, 0xbf, 0xbf], &[0xed, 0x9f, 0xbf],
            &[0xc0, 0x80], &[0xc1, 0xbf], &[0xed, 0xa0, 0x80], &[0xf4, 0x90, 0x80, 0x80], &[0xe0, 0x80, 0x80], &[0xf0, 0x8f, 0xbf, 0xbf],
            &[0x80], &[0xc3], &[0xe2, 0x82], &[0xf5, 0x80, 0x80, 0x80], &[0xef, 0xbf, 0xbd],
        ];
        let mut push = |w: &mut CaseWriter, dk: &str, ns: usize, b: &[u8]| {
            w.push("hx", vec![dk.to_string(), (if dk.starts_with('i') { 0 } else { ns }).to_string(), hex(b)]);
        };
        // nested overflow lengths and other fixed shapes, for every decoder
        let fixed: [&[u8]; 22] = [
            &[], &[0xf1], &[0xf1, 0xf1], &[0xf1, 0xf1, 0x11, 0x01, 0x05], &[0xf7, 0xf1, 0x11, 0x01, 0x41],
            &[0xf1, 0xf2, 0x11, 0x01, 0x00, 0x05], &[0xf7, 0xf7, 0x11, 0x01, 0x41], &[0xf1, 0x11, 0x02, 0x05, 0x06],
            &[0xf7, 0x11, 0x10, 0x41, 0x42], &[0xf1, 0x11, 0xff, 0x01], &[0xf1, 0x01], &[0xf1, 0x21, 0x01, 0x02, 0x03],
            &[0xf1, 0x15, 0x00, 0x00, 0x80, 0x3f], &[0xf1, 0x17, 0x41], &[0xf1, 0x11, 0x80], &[0xf1, 0x12, 0x10, 0x00],
            &[0x00], &[0x10], &[0x07], &[0x14, 0x01], &[0x1f, 0x01], &[0xff, 0xff, 0xff],
        ];
        for dk in DKS.iter() {
            for f in fixed.iter() {
                if stringy(dk) && f.iter().skip(1).any(|b| *b >= 0x80) && f[0] & 0x0f == 7 {
                    continue;
                }
                push(w, dk, 2, f);
            }
        }
        for _ in 0..(900 * mul) {
            let dk = *rng.pick(&DKS);
            let ns = rng.range(1, 3) as usize;
            let ascii = stringy(dk);
            let mut b: Vec<u8> = Vec::new();
            if rng.chance(1, 5) {
                let n = rng.range(0, 20);
                for i in 0..n {
                    let x = rng.next() as u8;
                    b.push(if ascii && i > 0 { x & 0x7f } else { x });
                }
            } else {
                // descriptor
                let code: u8 = match rng.below(10) {
                    0 => rng.below(16) as u8,
                    1 => 0,
                    _ => match dk {
                        "gt" => 1,
                        "ii" | "iv" | "fi" | "fv" => *rng.pick(&[1u8, 1, 2, 3]),
                        "if" | "ifv" | "ff" | "ffv" => 5,
                        _ => 7,
                    },
                };
                let unit = match code { 2 => 2, 3 | 5 => 4, _ => 1 };
                let len: usize = match rng.below(8) {
                    0 => 0,
                    1 => 15,
                    2 => 16,
                    _ => rng.range(1, 4) as usize,
                };
                if len < 15 && !rng.chance(1, 12) {
                    b.push(((len as u8) << 4) | code);
                } else {
                    b.push(0xf0 | code);
                    match rng.below(8) {
                        0 => b.extend([0xf1, 0x11, len as u8]),           // nested overflow
                        1 => b.extend([0x11, (len as u8) | 0x80]),          // negative / sentinel length
                        2 => b.extend([0x12, len as u8, 0x00]),
                        3 => b.extend([0x13, len as u8, 0x00, 0x00, 0x00]),
                        4 => b.extend([0x15, 0x00, 0x00, 0x80, 0x3f]),     // a float as the length
                        5 => b.extend([0x21, len as u8, 0x00]),            // a vector as the length
                        _ => b.extend([0x11, len as u8]),
                    }
                }
                // payload: the declared size for `ns` samples (INFO: 1), sometimes short or long
                let mult = if dk.starts_with('i') { 1 } else { ns };
                let mut size = len * unit * mult;
                match rng.below(6) {
                    0 => size = size.saturating_sub(rng.range(1, 3) as usize),
                    1 => size += rng.range(1, 3) as usize,
                    _ => {}
                }
                for _ in 0..size {
                    let x = match rng.below(4) {
                        0 => *rng.pick(&[0x80u8, 0x81, 0x82, 0x87, 0x88, 0x7f, 0x00, 0x01, 0xff]),
                        1 => *rng.pick(&[b'.', b',', 0x00, b'a', b'b']),
                        _ => rng.next() as u8,
                    };
                    b.push(if ascii { x & 0x7f } else { x });
                }
                // UTF-8 fragments inside the payload of the String kinds
                if texty(dk) && rng.chance(1, 2) {
                    let k = b.len().saturating_sub(size);
                    let mut pay: Vec<u8> = Vec::new();
                    while pay.len() < size {
                        if rng.chance(1, 2) { pay.extend(*rng.pick(&UTF8)); } else { pay.push(*rng.pick(&[b'a', b',', b'.', 0x00, b'Z'])); }
                    }
                    // keep the declared size mostly (a fragment may be cut, which is a case too)
                    if rng.chance(3, 4) { pay.truncate(size); }
                    b.truncate(k);
                    b.extend(pay);
                }
                // float sentinels
                if code == 5 && b.len() >= 5 && rng.chance(1, 3) {
                    let k = b.len() - 4;
                    let pat = *rng.pick(&[0x7f80_0001u32, 0x7f80_0002, 0x7f80_0003, 0x7f80_0007]);
                    b[k..].copy_from_slice(&pat.to_le_bytes());
                }
            }
            push(w, dk, ns, &b);
        }
    }

    // --- whole records on hostile bytes: a record written by the real writer, then mutated
    for _ in 0..(500 * mul) {
        let ninfo = rng.range(0, 3) as usize;
        let nfmt = rng.range(0, 3) as usize;
        let ns = if nfmt == 0 { *rng.pick(&[0usize, 2]) } else { rng.range(1, 3) as usize };
        let fstr = |rng: &mut Rng| gen_float(rng, false).to_string();
        let oj = |v: Vec<Option<String>>| v.into_iter().map(|x| x.unwrap_or_else(|| ".".into())).collect::<Vec<_>>().join(",");
        let mut is: Vec<(String, String)> = Vec::new();
        for _ in 0..ninfo {
            let len = rng.range(1, 3) as usize;
            is.push(match rng.below(7) {
                0 => ("ii".into(), gen_int(rng, false).to_string()),
                1 => ("iv".into(), fmt_opt_list(&gen_int_vec(rng, len + 1, 2, 2, false))),
                2 => ("if".into(), fstr(rng)),
                3 => ("ifv".into(), oj((0..len + 1).map(|_| Some(fstr(rng))).collect())),
                4 => ("is".into(), hex(gen_word(rng, 1, 8).as_bytes())),
                5 => ("isv".into(), oj((0..len + 1).map(|_| Some(hex(gen_word(rng, 1, 4).as_bytes()))).collect())),
                _ => ("ig".into(), "x".into()),
            });
        }
        let mut fs: Vec<(String, String)> = Vec::new();
        let gt_first = nfmt > 0 && rng.chance(1, 2);
        for j in 0..nfmt {
            let kind = if j == 0 && gt_first { 0 } else { rng.range(1, 6) };
            let per: Vec<String> = (0..ns)
                .map(|_| {
                    let len = rng.range(1, 3) as usize;
                    match kind {
                        0 => { let p = rng.range(1, 2) as usize; fmt_gt(&gen_gt(rng, p, true)) }
                        1 => { let wd = rng.below(3); gen_int_in_width(rng, wd).to_string() }
                        2 => fmt_opt_list(&gen_int_vec(rng, len + 1, 2, 2, false)),
                        3 => fstr(rng),
                        4 => oj((0..len + 1).map(|_| Some(fstr(rng))).collect()),
                        5 => hex(gen_word(rng, 1, 6).as_bytes()),
                        _ => oj((0..len + 1).map(|_| Some(hex(gen_word(rng, 1, 4).as_bytes()))).collect()),
                    }
                })
                .collect();
            fs.push((["gt", "fi", "fv", "ff", "ffv", "fs", "fsv"][kind as usize].to_string(), per.join(";")));
        }
        let (h, mut r) = match blk_build(&is, &fs, ns) { Ok(x) => x, Err(_) => continue };
        // a richer site: ids, alts, quality
        r.ids = (0..rng.range(0, 2)).map(|i| format!("r{i}{}", gen_word(rng, 1, 3))).collect();
        r.alts = (0..rng.range(0, 2)).map(|i| ["C", "GT", "<DEL>"][i as usize % 3].to_string()).collect();
        r.qual = if rng.chance(1, 2) { Some(gen_float(rng, false)) } else { None };
        r.pos = rng.range(1, 100000) as usize;
        let header = match parse_header(&header_text(&h)) { Ok(x) => x, Err(_) => continue };
        let (stream, hlen) = match write_bcf(&header, &to_buf(&r)) { WriteRes::Ok { stream, hlen } => (stream, hlen), _ => continue };
        let mut rec: Vec<u8> = stream[hlen..].to_vec();
        let l_shared = u32::from_le_bytes(rec[0..4].try_into().unwrap()) as usize;
        let nmut = rng.below(4);
        let mut site_delta: i64 = 0;
        let mut indiv_delta: i64 = 0;
        for _ in 0..nmut {
            if rec.len() <= 9 { break; }
            let i = rng.range(8, rec.len() as u64 - 1) as usize;
            let in_site = i < 8 + l_shared;
            let val = match rng.below(3) {
                0 => rng.next() as u8,
                _ => *rng.pick(&[0x00u8, 0x01, 0x07, 0x11, 0x12, 0x17, 0x21, 0x7f, 0x80, 0x81, 0x82, 0xf1, 0xf7, 0xff, b';', b',', b'.']),
            };
            match rng.below(6) {
                0 => { rec.remove(i); if in_site { site_delta -= 1 } else { indiv_delta -= 1 } }
                1 => { rec.insert(i, val); if in_site { site_delta += 1 } else { indiv_delta += 1 } }
                2 => { let cut = rec.len() - rng.range(1, 4).min(rec.len() as u64 - 9) as usize; indiv_delta -= (rec.len() - cut) as i64; rec.truncate(cut); }
                _ => rec[i] = val,
            }
        }
        // re-fix the two lengths (so that the mutation is seen by the field decoders) or leave them
        if rng.chance(2, 3) {
            let ls = (l_shared as i64 + site_delta).max(0) as u32;
            let li = (u32::from_le_bytes(rec[4..8].try_into().unwrap()) as i64 + indiv_delta).max(0) as u32;
            rec[0..4].copy_from_slice(&ls.to_le_bytes());
            rec[4..8].copy_from_slice(&li.to_le_bytes());
        }
        let kinds = |v: &Vec<(String, String)>| if v.is_empty() { "e".to_string() } else { v.iter().map(|x| x.0.clone()).collect::<Vec<_>>().join(",") };
        w.push("hxr", vec![kinds(&is), kinds(&fs), ns.to_string(), hex(&rec)]);
    }

    // --- whole records
    let n_rec = if thorough { 40000 } else { 3000 };
    for i in 0..n_rec {
        let profile = match i % 20 {
            0 => "infomissing",
            1 => "gtwild",
            2 => "fmtallmissing",
            3 => "special",
            4 => "idxperm",
            _ => "clean",
        };
        w.push("rec", vec![profile.to_string(), rng.next().to_string()]);
    }

    // --- `vb`: one RecordBuf through both writers / readers (VCF <-> BCF bridge)
    bridge::gen_vb(rng, tier, w);

    // --- `mr`: several records of one file read into reused buffers
    bridge::gen_mr(rng, tier, w);

    // --- `lz`: the lazy bcf::Record accessors against NV.Bcf.Lazy and against the eager reader
    lazy::gen_lz(rng, tier, w);

    // --- `bf` / `bfx`: whole BCF streams (header block + record loop) against NV.Bcf.File
    file::gen_bf(rng, tier, w);
}

// ---------------------------------------------------------------------------------------------
// Whole-record generator (derived deterministically from the case's seed).

fn gen_header(rng: &mut Rng, idxperm: bool) -> Hdr {
    let ff = *rng.pick(&[(4u32, 2u32), (4, 3), (4, 4), (4, 5)]);
    let ncontig = rng.range(1, 4) as usize;
    let ninfo = rng.range(0, 7) as usize;
    let nfmt = rng.range(0, 6) as usize;
    let nfilt = rng.range(0, 3) as usize;
    let nsamples = if nfmt == 0 { 0 } else { rng.range(1, 4) as usize };
    let nums = [Num::Count(1), Num::Count(1), Num::Count(2), Num::Count(3), Num::A, Num::R, Num::G, Num::Dot, Num::Dot];
    let tys = [Ty::Int, Ty::Int, Ty::Int, Ty::Float, Ty::Char, Ty::Str];
    let mut infos = Vec::new();
    for i in 0..ninfo {
        if rng.chance(1, 8) {
            infos.push(Def { id: format!("K{i}"), num: Num::Count(0), ty: Ty::Flag, idx: None });
        } else {
            infos.push(Def { id: format!("K{i}"), num: *rng.pick(&nums), ty: *rng.pick(&tys), idx: None });
        }
    }
    let mut formats = Vec::new();
    if nfmt > 0 && rng.chance(3, 4) {
        formats.push(Def { id: "GT".into(), num: Num::Count(1), ty: Ty::Str, idx: None });
    }
    for i in 0..nfmt {
        // some FORMAT ids are shared with INFO ids (one dictionary entry for both)
        let id = if i < ninfo && rng.chance(1, 4) { format!("K{i}") } else { format!("Q{i}") };
        formats.push(Def { id, num: *rng.pick(&nums), ty: *rng.pick(&tys), idx: None });
    }
    let mut filters: Vec<(String, Option<usize>)> = Vec::new();
    if rng.chance(1, 2) {
        filters.push(("PASS".into(), None));
    }
    for i in 0..nfilt {
        filters.push((format!("f{i}"), None));
    }
    let mut contigs: Vec<(String, Option<usize>)> = (0..ncontig).map(|i| (format!("chr{i}"), None)).collect();

    // IDX: none, explicit and equal to the order of appearance, or (profile idxperm) explicit on
    // every line in an arbitrary order with gaps
    if idxperm || rng.chance(1, 2) {
        let mut names: Vec<String> = Vec::new();
        for n in infos.iter().map(|d| &d.id).chain(filters.iter().map(|f| &f.0)).chain(formats.iter().map(|d| &d.id)) {
            if n != "PASS" && !names.contains(n) {
                names.push(n.clone());
            }
        }
        let mut assign = std::collections::HashMap::new();
        if idxperm {
            // a random injective assignment into 1..=n+gap (so indices may need Int16)
            let gap = match rng.below(4) {
                0 => 0,
                1 => 3,
                2 => 130,
                _ => 40000,
            };
            let mut slots: Vec<usize> = (1..=names.len() + gap).collect();
            for n in &names {
                let k = rng.below(slots.len() as u64) as usize;
                assign.insert(n.clone(), slots.swap_remove(k));
            }
        } else {
            for (i, n) in names.iter().enumerate() {
                assign.insert(n.clone(), i + 1);
            }
        }
        assign.insert("PASS".to_string(), 0);
        for d in infos.iter_mut().chain(formats.iter_mut()) {
            d.idx = assign.get(&d.id).copied();
        }
        for f in filters.iter_mut() {
            f.1 = assign.get(&f.0).copied();
        }
        let extra = if idxperm && rng.chance(1, 2) { 2 } else { 0 };
        let mut cs: Vec<usize> = (0..ncontig + extra).collect();
        for c in contigs.iter_mut() {
            let k = if idxperm { rng.below(cs.len() as u64) as usize } else { 0 };
            c.1 = Some(cs.remove(k));
        }
    }
    Hdr { ff, contigs, infos, filters, formats, samples: (0..nsamples).map(|i| format!("s{i}")).collect() }
}

fn count_for(num: Num, nalt: usize, rng: &mut Rng) -> usize {
    match num {
        Num::Count(k) => k,
        Num::A => nalt,
        Num::R => nalt + 1,
        Num::G => (nalt + 1) * (nalt + 2) / 2,
        Num::Dot => rng.range(1, 5) as usize,
    }
}

fn gen_value(rng: &mut Rng, d: &Def, len: usize, special: bool) -> V {
    let word = |rng: &mut Rng| -> String {
        if special && rng.chance(1, 2) {
            rng.pick(&["", ".", "a,b", "a;b", "x=y", "a b", "50%", "a:b", "é"]).to_string()
        } else {
            gen_word(rng, 1, 12)
        }
    };
    let ch = |rng: &mut Rng| -> char {
        if special && rng.chance(1, 2) { *rng.pick(&['.', ',', ';', ' ', '%']) } else { gen_word(rng, 1, 1).chars().next().unwrap() }
    };
    let miss = rng.range(0, 3);
    if d.num == Num::Count(1) {
        match d.ty {
            Ty::Int => {
                let bad = rng.chance(1, 40);
                V::I(gen_int(rng, bad))
            }
            Ty::Float => V::F(gen_float(rng, false)),
            Ty::Char => V::C(ch(rng)),
            Ty::Str => V::S(word(rng)),
            Ty::Flag => V::Flag,
        }
    } else {
        match d.ty {
            Ty::Int => {
                let wmax = rng.range(0, 2);
                let bad = rng.chance(1, 40);
                V::AI(gen_int_vec(rng, len, wmax, miss, bad))
            }
            Ty::Float => V::AF((0..len).map(|_| if rng.chance(miss, 10) { None } else { Some(gen_float(rng, false)) }).collect()),
            Ty::Char => V::AC((0..len).map(|_| if rng.chance(miss, 10) { None } else { Some(ch(rng)) }).collect()),
            Ty::Str => V::AS((0..len).map(|_| if rng.chance(miss, 10) { None } else { Some(word(rng)) }).collect()),
            Ty::Flag => V::Flag,
        }
    }
}

fn gen_record(rng: &mut Rng, h: &Hdr, profile: &str) -> Rec {
    let bases = |rng: &mut Rng, lo: u64, hi: u64| -> String {
        let n = rng.range(lo, hi);
        (0..n).map(|_| *rng.pick(&['A', 'C', 'G', 'T', 'N'])).collect()
    };
    let nalt = *rng.pick(&[0usize, 1, 1, 1, 2, 3]);
    let mut alts: Vec<String> = Vec::new();
    while alts.len() < nalt {
        let a = if rng.chance(1, 10) { "<DEL>".to_string() } else { bases(rng, 1, 4) };
        if !alts.contains(&a) {
            alts.push(a);
        }
    }
    let mut r = Rec {
        chrom: rng.pick(&h.contigs).0.clone(),
        pos: match rng.below(4) {
            0 => 1,
            1 => rng.range(1, 1000) as usize,
            2 => rng.range(1, (1 << 31) - 2) as usize,
            _ => rng.range(1, 70000) as usize,
        },
        ids: (0..*rng.pick(&[0usize, 0, 1, 2])).map(|i| format!("id{}{}", i, gen_word(rng, 1, 5))).collect(),
        refb: bases(rng, 1, 6),
        alts,
        qual: match rng.below(3) {
            0 => None,
            1 => Some((rng.range(0, 1000) as f32 / 10.0).to_bits()),
            _ => Some(gen_float(rng, false)),
        },
        ..Rec::default()
    };
    // filters
    let user: Vec<&String> = h.filters.iter().map(|f| &f.0).filter(|n| *n != "PASS").collect();
    match rng.below(3) {
        0 => {}
        1 => r.filters = vec!["PASS".into()],
        _ => {
            let mut set = BTreeSet::new();
            for n in &user {
                if rng.chance(1, 2) {
                    set.insert((*n).clone());
                }
            }
            r.filters = set.into_iter().collect();
            if rng.chance(1, 2) {
                r.filters.reverse();
            }
        }
    }
    // INFO: a random subset in random order
    let special = profile == "special";
    let mut order: Vec<usize> = (0..h.infos.len()).collect();
    for i in (1..order.len()).rev() {
        let j = rng.below(i as u64 + 1) as usize;
        order.swap(i, j);
    }
    for &i in &order {
        if rng.chance(1, 4) {
            continue;
        }
        let d = &h.infos[i];
        let len = count_for(d.num, nalt, rng);
        if d.ty != Ty::Flag && d.num != Num::Count(1) && len == 0 {
            continue;
        }
        let v = if profile == "infomissing" && d.ty != Ty::Flag && rng.chance(1, 2) {
            None
        } else {
            Some(gen_value(rng, d, len, special))
        };
        r.info.push((d.id.clone(), v));
    }
    if profile == "infomissing" && !r.info.iter().any(|(_, v)| v.is_none()) {
        if let Some(d) = h.infos.iter().find(|d| d.ty != Ty::Flag && !r.info.iter().any(|(k, _)| k == &d.id)) {
            r.info.push((d.id.clone(), None));
        }
    }
    // samples
    if !h.samples.is_empty() && !h.formats.is_empty() {
        let mut keys: Vec<&Def> = Vec::new();
        for d in &h.formats {
            if d.id == "GT" || rng.chance(2, 3) {
                keys.push(d);
            }
        }
        let ns = h.samples.len();
        let mut cols: Vec<Vec<Option<V>>> = Vec::new();
        for d in &keys {
            let mut col: Vec<Option<V>> = Vec::new();
            if d.id == "GT" {
                let wild = profile == "gtwild";
                let base = rng.range(1, 4) as usize;
                // clean: equal ploidy, or a mix of haploid and one other ploidy
                let hap_mix = rng.chance(1, 4);
                for _ in 0..ns {
                    let p = if wild { rng.range(0, 4) as usize } else if hap_mix && rng.chance(1, 2) { 1 } else { base };
                    let mut g = gen_gt(rng, p, !wild);
                    if h.ff < (4, 4) && !g.is_empty() {
                        // VCF < 4.4 has no leading phasing: it is implied by the other alleles
                        g[0].1 = g.iter().skip(1).all(|a| a.1);
                    }
                    col.push(Some(V::GT(g)));
                }
            } else {
                let all_missing = profile == "fmtallmissing" && d.num != Num::Count(1) && matches!(d.ty, Ty::Int | Ty::Float);
                for _ in 0..ns {
                    if all_missing || rng.chance(1, 6) {
                        col.push(None);
                    } else {
                        let len = match d.num {
                            Num::Dot => rng.range(1, 5) as usize,
                            n => count_for(n, nalt, rng).max(1),
                        };
                        // fixed-count vectors may still be shorter (trailing entries dropped)
                        let len = if d.num != Num::Count(1) && rng.chance(1, 5) { rng.range(1, len as u64) as usize } else { len };
                        col.push(Some(gen_value(rng, d, len, special)));
                    }
                }
                // the writer needs at least one present value for some kinds; keep one present mostly
                if !all_missing && col.iter().all(|v| v.is_none()) && rng.chance(3, 4) {
                    let len = if d.num == Num::Count(1) { 1 } else { rng.range(1, 3) as usize };
                    col[0] = Some(gen_value(rng, d, len, special));
                }
            }
            cols.push(col);
        }
        r.keys = keys.iter().map(|d| d.id.clone()).collect();
        r.samples = (0..ns).map(|s| cols.iter().map(|c| c[s].clone()).collect()).collect();
        // rows may omit trailing missing values
        if rng.chance(1, 4) {
            for row in r.samples.iter_mut() {
                while row.len() > 1 && row.last().map(|v| v.is_none()).unwrap_or(false) && rng.chance(1, 2) {
                    row.pop();
                }
            }
        }
    }
    r
}


// ---------------------------------------------------------------------------------------------
// `sm`: the string maps built from header lines.

fn sm_lines(s: &str) -> Vec<(String, String, Option<usize>)> {
    if s == "_" {
        return vec![];
    }
    s.split(',')
        .map(|t| {
            let p: Vec<&str> = t.split(':').collect();
            match p.len() {
                3 => (p[0].to_string(), p[1].to_string(), if p[2] == "-" { None } else { Some(p[2].parse().unwrap()) }),
                _ => (String::new(), p[0].to_string(), if p[1] == "-" { None } else { Some(p[1].parse().unwrap()) }),
            }
        })
        .collect()
}

fn sm_dump(m: &vcf::header::string_maps::StringMap, names: &[&String], limit: usize) -> (String, bool) {
    let mut slots: Vec<Option<&str>> = (0..limit).map(|i| m.get_index(i)).collect();
    while slots.last().map(|x| x.is_none()).unwrap_or(false) {
        slots.pop();
    }
    let mut seen: Vec<&String> = Vec::new();
    let mut look = Vec::new();
    let mut resolves = true;
    for n in names {
        if seen.contains(n) {
            continue;
        }
        seen.push(n);
        match m.get_index_of(n) {
            Some(i) => {
                look.push(format!("{n}={i}"));
                resolves &= m.get_index(i) == Some(n.as_str());
            }
            None => {
                look.push(format!("{n}=-"));
                resolves = false;
            }
        }
    }
    (
        format!(
            "[{}]{{{}}}",
            slots.iter().map(|x| x.unwrap_or("-").to_string()).collect::<Vec<_>>().join(","),
            look.join(",")
        ),
        resolves,
    )
}

/// input class: some line carries an explicit IDX for an ID seen for the first time while that
/// slot is already taken by a different ID (dictionary order: INFO, FILTER, FORMAT lines)
fn sm_idx_conflict(lines: &[(String, String, Option<usize>)], strings: bool) -> bool {
    let mut slots: Vec<Option<&str>> = if strings { vec![Some("PASS")] } else { vec![] };
    let ordered: Vec<&(String, String, Option<usize>)> = if strings {
        ["I", "L", "M"].iter().flat_map(|k| lines.iter().filter(move |l| l.0 == *k)).collect()
    } else {
        lines.iter().collect()
    };
    for (_, n, idx) in ordered {
        if slots.iter().any(|x| *x == Some(n.as_str())) {
            continue;
        }
        match idx {
            None => slots.push(Some(n)),
            Some(i) => {
                if *i >= slots.len() {
                    slots.resize(*i + 1, None);
                }
                if slots[*i].is_some() {
                    return true;
                }
                slots[*i] = Some(n);
            }
        }
    }
    false
}

fn run_sm(c: &Case) -> Obs {
    let strings = sm_lines(&c.args[0]);
    let contigs = sm_lines(&c.args[1]);
    let idx = |i: &Option<usize>| i.map(|i| format!(",IDX={i}")).unwrap_or_default();
    let mut text = String::from("##fileformat=VCFv4.4\n");
    for (k, n, i) in strings.iter().filter(|l| l.0 == "I") {
        let _ = k;
        text += &format!("##INFO=<ID={n},Number=1,Type=Integer,Description=\"d\"{}>\n", idx(i));
    }
    for (_, n, i) in strings.iter().filter(|l| l.0 == "L") {
        text += &format!("##FILTER=<ID={n},Description=\"d\"{}>\n", idx(i));
    }
    for (_, n, i) in strings.iter().filter(|l| l.0 == "M") {
        text += &format!("##FORMAT=<ID={n},Number=1,Type=Integer,Description=\"d\"{}>\n", idx(i));
    }
    for (_, n, i) in &contigs {
        text += &format!("##contig=<ID={n}{}>\n", idx(i));
    }
    text += "#CHROM\tPOS\tID\tREF\tALT\tQUAL\tFILTER\tINFO\n";
    let header = match parse_header(&text) {
        Ok(h) => h,
        Err(e) => return Obs::fail("HeaderRejected", "header-rejected", &e),
    };
    let limit = strings.iter().chain(contigs.iter()).filter_map(|l| l.2).max().unwrap_or(0) + strings.len() + contigs.len() + 3;
    let pass = "PASS".to_string();
    let mut all_s: Vec<&String> = vec![&pass];
    all_s.extend(strings.iter().map(|l| &l.1));
    let cnames: Vec<&String> = contigs.iter().map(|l| &l.1).collect();
    let dump = |sm: &vcf::header::StringMaps| -> (String, bool) {
        let (a, ra) = sm_dump(sm.strings(), &all_s, limit);
        let (b, rb) = sm_dump(sm.contigs(), &cnames, limit);
        (format!("S{a};C{b}"), ra && rb)
    };
    // writer side
    let w = match guarded(AssertUnwindSafe(|| vcf::header::StringMaps::try_from(&header))) {
        Outcome::Done(Ok(sm)) => Some(dump(&sm)),
        Outcome::Done(Err(_)) => None,
        Outcome::Panicked(m) => return Obs::fail("Panic", "string-maps-panic", &m),
    };
    // reader side: write the BCF header, read it back
    let r = match guarded(AssertUnwindSafe(|| -> std::io::Result<vcf::Header> {
        let mut wr = bcf::io::Writer::from(Vec::new());
        wr.write_header(&header)?;
        let buf = wr.into_inner();
        let mut rd = bcf::io::Reader::from(&buf[..]);
        rd.read_header()
    })) {
        Outcome::Done(Ok(h)) => Some(dump(h.string_maps())),
        Outcome::Done(Err(_)) => None,
        Outcome::Panicked(m) => return Obs::fail("Panic", "string-maps-panic", &m),
    };
    let show = |x: &Option<(String, bool)>| x.as_ref().map(|d| d.0.clone()).unwrap_or_else(|| "Err".into());
    let obs = format!("W={}|R={}", show(&w), show(&r));
    let verdict = match (&w, &r) {
        (Some(a), Some(b)) if a.0 != b.0 => Err(("string-map-writer-reader-differ".to_string(), obs.clone())),
        // a line's explicit IDX names a slot that an earlier, different ID already occupies: the
        // header must be rejected (fix 09); accepting it is the recurrence of that defect
        (Some(_), Some(_)) if sm_idx_conflict(&strings, true) || sm_idx_conflict(&contigs, false) => {
            Err(("header-idx-conflict-accepted".to_string(), obs.clone()))
        }
        // an ID that does not resolve back to itself
        (Some(a), Some(b)) if !(a.1 && b.1) => Err(("string-map-unresolved".to_string(), obs.clone())),
        (Some(_), None) | (None, Some(_)) => Err(("string-map-writer-reader-differ".to_string(), obs.clone())),
        _ => Ok(()),
    };
    Obs::ok(obs, w.is_some() && r.is_some()).with_verdict(verdict)
}

// ---------------------------------------------------------------------------------------------
// `hd`: record framing and the site fields.

fn run_hd(c: &Case) -> Obs {
    let a = |i: usize| c.args[i].as_str();
    let strings = sm_lines(a(0));
    let contigs = sm_lines(a(1));
    let list = |s: &str| -> Vec<String> { if s == "e" { vec![] } else { s.split(',').map(|t| t.to_string()).collect() } };
    let hexl = |s: &str| -> Vec<String> { if s == "e" { vec![] } else { s.split(',').map(hex_str).collect() } };
    let flags = list(a(10));
    let ns: usize = a(11).parse().unwrap();
    let fmts: Vec<(String, Vec<Option<i32>>)> = if a(12) == "e" {
        vec![]
    } else {
        a(12)
            .split('|')
            .map(|t| {
                let (k, v) = t.split_once('=').unwrap();
                (k.to_string(), v.split(';').map(|x| if x == "." { None } else { Some(x.parse().unwrap()) }).collect())
            })
            .collect()
    };
    let idx = |i: &Option<usize>| i.map(|i| format!(",IDX={i}")).unwrap_or_default();
    let mut text = String::from("##fileformat=VCFv4.4\n");
    for (_, n, i) in strings.iter().filter(|l| l.0 == "I") {
        text += &format!("##INFO=<ID={n},Number=0,Type=Flag,Description=\"d\"{}>\n", idx(i));
    }
    for (_, n, i) in strings.iter().filter(|l| l.0 == "L") {
        text += &format!("##FILTER=<ID={n},Description=\"d\"{}>\n", idx(i));
    }
    for (_, n, i) in strings.iter().filter(|l| l.0 == "M") {
        text += &format!("##FORMAT=<ID={n},Number=1,Type=Integer,Description=\"d\"{}>\n", idx(i));
    }
    for (_, n, i) in &contigs {
        text += &format!("##contig=<ID={n}{}>\n", idx(i));
    }
    text += "#CHROM\tPOS\tID\tREF\tALT\tQUAL\tFILTER\tINFO";
    if ns > 0 {
        text += "\tFORMAT";
        for i in 0..ns {
            text += &format!("\ts{i}");
        }
    }
    text += "\n";
    let header = match parse_header(&text) {
        Ok(h) => h,
        Err(e) => return Obs::fail("HeaderRejected -", "header-rejected", &e),
    };
    let r = Rec {
        chrom: a(2).to_string(),
        pos: if a(3) == "." { 1 } else { a(3).parse().unwrap() },
        ids: hexl(a(6)),
        refb: hex_str(a(7)),
        alts: hexl(a(8)),
        qual: if a(5) == "." { None } else { Some(a(5).parse().unwrap()) },
        filters: list(a(9)),
        info: flags.iter().map(|k| (k.clone(), Some(V::Flag))).collect(),
        keys: fmts.iter().map(|f| f.0.clone()).collect(),
        samples: if fmts.is_empty() { vec![] } else { (0..ns).map(|j| fmts.iter().map(|f| f.1[j].map(V::I)).collect()).collect() },
    };
    let mut rb = to_buf(&r);
    if a(3) == "." {
        *rb.variant_start_mut() = None;
    }
    assert_eq!(a(4).parse::<usize>().unwrap(), r.refb.len(), "rlen is the number of reference bases");
    let (wobs, robs, ok) = match write_bcf(&header, &rb) {
        WriteRes::Err(k) if k.starts_with("Header:") => ("HeaderErr".to_string(), "-".to_string(), false),
        WriteRes::Err(k) => (format!("Err:{k}"), "-".to_string(), false),
        WriteRes::Panic(_) => ("Panic".to_string(), "-".to_string(), false),
        WriteRes::Ok { stream, hlen } => {
            let back = match read_via_buf(&stream) {
                Ok((_, b)) => {
                    let x = of_buf(&b);
                    let pos = if b.variant_start().is_none() { ".".to_string() } else { x.pos.to_string() };
                    let hx = |v: &Vec<String>, sep: &str| v.iter().map(|s| hex(s.as_bytes())).collect::<Vec<_>>().join(sep);
                    format!(
                        "{}|{}|{}|{}|{}|{}|{}|{}|{}|{}",
                        x.chrom,
                        pos,
                        opt(&x.qual, |q| format!("{q:08x}")),
                        hx(&x.ids, ";"),
                        hex(x.refb.as_bytes()),
                        hx(&x.alts, ","),
                        x.filters.join(";"),
                        x.info.len(),
                        x.keys.len(),
                        if x.keys.is_empty() { ns } else { x.samples.len() }
                    )
                }
                Err(_) => "Fail".into(),
            };
            (hex(&stream[hlen..]), back, true)
        }
    };
    // the oracle: the head fields come back as given
    let verdict = if ok {
        let want = format!(
            "{}|{}|{}|{}|{}|{}|{}|{}|{}|{}",
            r.chrom,
            a(3),
            opt(&r.qual, |q| format!("{q:08x}")),
            r.ids.iter().map(|s| hex(s.as_bytes())).collect::<Vec<_>>().join(";"),
            hex(r.refb.as_bytes()),
            r.alts.iter().map(|s| hex(s.as_bytes())).collect::<Vec<_>>().join(","),
            r.filters.join(";"),
            r.info.len(),
            r.keys.len(),
            ns
        );
        let special = r.ids.iter().any(|s| s.is_empty() || s.contains(';')) || r.alts.iter().any(|s| s.is_empty()) || r.refb.is_empty()
            || r.qual.map(is_reserved_nan).unwrap_or(false);
        if robs == want {
            Ok(())
        } else if special {
            Err(("SKIP".to_string(), String::new()))
        } else if sm_idx_conflict(&strings, true) || sm_idx_conflict(&contigs, false) {
            Err(("header-idx-conflict-accepted".to_string(), format!("{robs} != {want}")))
        } else {
            Err(("site-head-differs".to_string(), format!("{robs} != {want}")))
        }
    } else {
        Ok(())
    };
    finish(Obs::ok(format!("{wobs} {robs}"), ok), verdict)
}

// ---------------------------------------------------------------------------------------------
// `blk`: several INFO fields and several FORMAT series in one record.

fn blk_specs(s: &str) -> Vec<(String, String)> {
    if s == "e" {
        return vec![];
    }
    s.split('|').map(|t| { let (k, v) = t.split_once('~').unwrap(); (k.to_string(), v.to_string()) }).collect()
}

fn blk_build(infos: &[(String, String)], fmts: &[(String, String)], ns: usize) -> Result<(Hdr, Rec), String> {
    let mut h = Hdr { ff: (4, 4), contigs: vec![("c".into(), None)], samples: (0..ns).map(|i| format!("s{i}")).collect(), ..Hdr::default() };
    let mut r = micro_rec();
    for (j, (k, v)) in infos.iter().enumerate() {
        let id = format!("X{j}");
        let (num, ty, val) = match k.as_str() {
            "ii" => (Num::Count(1), Ty::Int, Some(V::I(v.parse().unwrap()))),
            "iv" => (Num::Dot, Ty::Int, Some(V::AI(parse_opt_i32s(v)))),
            "if" => (Num::Count(1), Ty::Float, Some(V::F(v.parse().unwrap()))),
            "ifv" => (Num::Dot, Ty::Float, Some(V::AF(parse_opt_u32s(v)))),
            "is" => (Num::Count(1), Ty::Str, Some(V::S(hex_str(v)))),
            "ic" => (Num::Count(1), Ty::Char, Some(V::C(hex_char(v)))),
            "icv" => (Num::Dot, Ty::Char, Some(V::AC(parse_opt_chars(v)))),
            "isv" => (Num::Dot, Ty::Str, Some(V::AS(parse_opt_strs(v)))),
            "ig" => (Num::Count(0), Ty::Flag, Some(V::Flag)),
            "im" => (Num::Count(1), match v.as_str() { "Integer" => Ty::Int, "Float" => Ty::Float, _ => Ty::Str }, None),
            _ => return Err(k.clone()),
        };
        h.infos.push(Def { id: id.clone(), num, ty, idx: None });
        r.info.push((id, val));
    }
    let mut cols: Vec<Vec<Option<V>>> = Vec::new();
    for (j, (k, v)) in fmts.iter().enumerate() {
        let id = if k == "gt" { "GT".to_string() } else { format!("Y{j}") };
        let per: Vec<&str> = v.split(';').collect();
        assert_eq!(per.len(), ns, "sample count");
        let (num, ty) = match k.as_str() {
            "gt" => (Num::Count(1), Ty::Str),
            "fi" => (Num::Count(1), Ty::Int),
            "fv" => (Num::Dot, Ty::Int),
            "ff" => (Num::Count(1), Ty::Float),
            "ffv" => (Num::Dot, Ty::Float),
            "fc" => (Num::Count(1), Ty::Char),
            "fcv" => (Num::Dot, Ty::Char),
            "fs" => (Num::Count(1), Ty::Str),
            "fsv" => (Num::Dot, Ty::Str),
            _ => return Err(k.clone()),
        };
        cols.push(
            per.iter()
                .map(|s| match k.as_str() {
                    "gt" => Some(V::GT(parse_gt(s))),
                    _ if *s == "." => None,
                    "fi" => Some(V::I(s.parse().unwrap())),
                    "fv" => Some(V::AI(parse_opt_i32s(s))),
                    "ff" => Some(V::F(s.parse().unwrap())),
                    "ffv" => Some(V::AF(parse_opt_u32s(s))),
                    "fc" => Some(V::C(hex_char(s))),
                    "fcv" => Some(V::AC(parse_opt_chars(s))),
                    "fs" => Some(V::S(hex_str(s))),
                    _ => Some(V::AS(parse_opt_strs(s))),
                })
                .collect(),
        );
        h.formats.push(Def { id: id.clone(), num, ty, idx: None });
        r.keys.push(id);
    }
    // one row per header sample (rows without values when the record has no FORMAT key: that is
    // what the reader returns for n_sample samples and n_fmt = 0)
    r.samples = (0..ns).map(|i| cols.iter().map(|col| col[i].clone()).collect()).collect();
    Ok((h, r))
}

fn run_blk(c: &Case) -> Obs {
    let infos = blk_specs(&c.args[0]);
    let fmts = blk_specs(&c.args[1]);
    let ns: usize = c.args[2].parse().unwrap();
    let (h, r) = match blk_build(&infos, &fmts, ns) {
        Ok(x) => x,
        Err(k) => return Obs::fail("-", "unknown-kind", &k),
    };
    let header = parse_header(&header_text(&h)).expect("blk header");
    let rb = to_buf(&r);
    let (wobs, robs) = match write_bcf(&header, &rb) {
        WriteRes::Err(k) => (format!("Err:{k}"), "-".to_string()),
        WriteRes::Panic(_) => ("Panic".to_string(), "-".to_string()),
        WriteRes::Ok { stream, hlen } => {
            let back = match read_via_buf(&stream) {
                Ok((_, b)) => {
                    let x = of_buf(&b);
                    let i: Vec<String> = x.info.iter().map(|(k, v)| format!("{k}={}", canon_v(v))).collect();
                    let f: Vec<String> = x
                        .keys
                        .iter()
                        .enumerate()
                        .map(|(j, k)| format!("{k}={}", x.samples.iter().map(|s| canon_v(s.get(j).unwrap_or(&None))).collect::<Vec<_>>().join(";")))
                        .collect();
                    format!("{}||{}", i.join("|"), f.join("|"))
                }
                Err(_) => "Fail".into(),
            };
            (hex(&stream[hlen..]), back)
        }
    };
    let (verdict, nontrivial) = check_record(&h, &r);
    finish(Obs::ok(format!("{wobs} {robs}"), nontrivial), verdict)
}

// ---------------------------------------------------------------------------------------------
// `hx`: the real decoders on arbitrary value bytes.

fn run_hx(c: &Case) -> Obs {
    let dk = c.args[0].as_str();
    let ns: usize = c.args[1].parse().unwrap();
    let bytes = unhex(&c.args[2]);
    let is_info = dk.starts_with('i');
    let (num, ty) = match dk {
        "ii" | "fi" => ("1", "Integer"),
        "iv" | "fv" => (".", "Integer"),
        "if" | "ff" => ("1", "Float"),
        "ifv" | "ffv" => (".", "Float"),
        "is" | "fs" => ("1", "String"),
        "isv" | "fsv" => (".", "String"),
        "ic" | "fc" => ("1", "Character"),
        "icv" | "fcv" => (".", "Character"),
        "gt" => ("1", "String"),
        _ => return Obs::fail("-", "unknown-kind", dk),
    };
    let h = micro_header(is_info, if dk == "gt" { "GT" } else { "X" }, num, ty, if is_info { 0 } else { ns });
    let header = parse_header(&header_text(&h)).expect("hx header");
    let mut w = bcf::io::Writer::from(Vec::new());
    w.write_header(&header).expect("hx write_header");
    let mut stream = w.into_inner();
    // site: chrom 0, pos 0, rlen 1, qual missing, n_info, n_allele 1, n_fmt<<24|n_sample, no id, REF A, no filter
    let mut site: Vec<u8> = Vec::new();
    site.extend(0i32.to_le_bytes());
    site.extend(0i32.to_le_bytes());
    site.extend(1i32.to_le_bytes());
    site.extend(0x7f80_0001u32.to_le_bytes());
    site.extend((if is_info { 1u16 } else { 0 }).to_le_bytes());
    site.extend(1u16.to_le_bytes());
    let n_fmt: u32 = if is_info { 0 } else { 1 };
    site.extend(((n_fmt << 24) | (if is_info { 0 } else { ns as u32 })).to_le_bytes());
    site.extend([0x07, 0x17, 0x41, 0x00]);
    let mut indiv: Vec<u8> = Vec::new();
    if is_info {
        site.extend([0x11, 0x01]);
        site.extend(&bytes);
    } else {
        indiv.extend([0x11, 0x01]);
        indiv.extend(&bytes);
    }
    stream.extend((site.len() as u32).to_le_bytes());
    stream.extend((indiv.len() as u32).to_le_bytes());
    stream.extend(&site);
    stream.extend(&indiv);
    let fail_as_one = matches!(dk, "ic" | "icv" | "isv" | "fc" | "fcv" | "fs" | "fsv");
    let (robs, panicked) = match read_via_buf(&stream) {
        Ok((_, b)) => {
            let back = of_buf(&b);
            let t = if is_info {
                match back.info.first() {
                    Some((_, v)) => canon_v(v),
                    None => "NoField".into(),
                }
            } else {
                (0..ns).map(|i| canon_v(back.samples.get(i).and_then(|s| s.first()).unwrap_or(&None))).collect::<Vec<_>>().join(";")
            };
            (t, None)
        }
        Err(e) if e.starts_with("Panic") => ((if fail_as_one { "Fail" } else { "Panic" }).to_string(), Some(e)),
        Err(_) => ((if fail_as_one { "Fail" } else { "Err" }).to_string(), None),
    };
    // the property on hostile bytes: a value or an error, never a panic
    match panicked {
        Some(m) => Obs::ok(robs, true).with_verdict(Err((format!("bcf-decoder-panic-{dk}"), m))),
        None => Obs::ok(robs, true),
    }
}

// ---------------------------------------------------------------------------------------------
// `hxr`: a whole (mutated) record through read_record_buf.

fn hxr_kinds(s: &str) -> Vec<(String, String)> {
    // only the kinds matter for the header; the values are placeholders
    if s == "e" {
        return vec![];
    }
    s.split(',').map(|k| (k.to_string(), String::new())).collect()
}

fn hxr_header(ik: &[(String, String)], fk: &[(String, String)], ns: usize) -> Hdr {
    let mut h = Hdr { ff: (4, 4), contigs: vec![("c".into(), None)], samples: (0..ns).map(|i| format!("s{i}")).collect(), ..Hdr::default() };
    for (j, (k, _)) in ik.iter().enumerate() {
        let (num, ty) = match k.as_str() {
            "ii" => (Num::Count(1), Ty::Int),
            "iv" => (Num::Dot, Ty::Int),
            "if" => (Num::Count(1), Ty::Float),
            "ifv" => (Num::Dot, Ty::Float),
            "is" => (Num::Count(1), Ty::Str),
            "isv" => (Num::Dot, Ty::Str),
            _ => (Num::Count(0), Ty::Flag),
        };
        h.infos.push(Def { id: format!("X{j}"), num, ty, idx: None });
    }
    for (j, (k, _)) in fk.iter().enumerate() {
        let (id, num, ty) = match k.as_str() {
            "gt" => ("GT".to_string(), Num::Count(1), Ty::Str),
            "fi" => (format!("Y{j}"), Num::Count(1), Ty::Int),
            "fv" => (format!("Y{j}"), Num::Dot, Ty::Int),
            "ff" => (format!("Y{j}"), Num::Count(1), Ty::Float),
            "ffv" => (format!("Y{j}"), Num::Dot, Ty::Float),
            "fs" => (format!("Y{j}"), Num::Count(1), Ty::Str),
            _ => (format!("Y{j}"), Num::Dot, Ty::Str),
        };
        h.formats.push(Def { id, num, ty, idx: None });
    }
    h
}

fn run_hxr(c: &Case) -> Obs {
    let ik = hxr_kinds(&c.args[0]);
    let fk = hxr_kinds(&c.args[1]);
    let ns: usize = c.args[2].parse().unwrap();
    let rec = unhex(&c.args[3]);
    let header = parse_header(&header_text(&hxr_header(&ik, &fk, ns))).expect("hxr header");
    let mut w = bcf::io::Writer::from(Vec::new());
    w.write_header(&header).expect("hxr write_header");
    let mut stream = w.into_inner();
    stream.extend(&rec);
    let out = guarded(AssertUnwindSafe(|| -> std::io::Result<Option<RecordBuf>> {
        let mut r = bcf::io::Reader::from(&stream[..]);
        let h = r.read_header()?;
        let mut rb = RecordBuf::default();
        Ok(if r.read_record_buf(&h, &mut rb)? == 0 { None } else { Some(rb) })
    }));
    match out {
        Outcome::Panicked(m) => Obs::ok("Panic", true).with_verdict(Err(("bcf-record-decoder-panic".to_string(), m))),
        Outcome::Done(Err(_)) | Outcome::Done(Ok(None)) => Obs::ok("Fail", true),
        Outcome::Done(Ok(Some(b))) => {
            let x = of_buf(&b);
            let hx = |v: &Vec<String>, sep: &str| v.iter().map(|s| hex(s.as_bytes())).collect::<Vec<_>>().join(sep);
            let info: Vec<String> = x.info.iter().map(|(k, v)| format!("{k}={}", canon_v(v))).collect();
            let rows: Vec<String> = x.samples.iter().map(|r| r.iter().map(canon_v).collect::<Vec<_>>().join(":")).collect();
            Obs::ok(
                format!(
                    "{}|{}|{}|{}|{}|{}|{}||{}||{}||{}",
                    x.chrom,
                    if b.variant_start().is_none() { ".".to_string() } else { x.pos.to_string() },
                    opt(&x.qual, |q| format!("{q:08x}")),
                    hx(&x.ids, ";"),
                    hex(x.refb.as_bytes()),
                    hx(&x.alts, ","),
                    x.filters.join(";"),
                    info.join("|"),
                    x.keys.join(","),
                    rows.join(";")
                ),
                true,
            )
        }
    }
}

fn run(c: &Case) -> Obs {
    if c.kind == "vb" {
        return bridge::run_vb(c);
    }
    if c.kind == "mr" {
        return bridge::run_mr(c);
    }
    if c.kind == "lz" {
        return lazy::run_lz(c);
    }
    if c.kind == "bf" {
        return file::run_bf(c);
    }
    if c.kind == "bfx" {
        return file::run_bfx(c);
    }
    if c.kind == "hxr" {
        return run_hxr(c);
    }
    if c.kind == "hx" {
        return run_hx(c);
    }
    if c.kind == "blk" {
        return run_blk(c);
    }
    if c.kind == "hd" {
        return run_hd(c);
    }
    if c.kind == "sm" {
        return run_sm(c);
    }
    if let Some((h, r)) = micro(c) {
        return run_micro(c, &h, &r);
    }
    match c.kind.as_str() {
        "rec" => {
            let mut rng = Rng::new(c.u(1));
            let h = gen_header(&mut rng, c.args[0] == "idxperm");
            let r = gen_record(&mut rng, &h, &c.args[0]);
            let (verdict, nontrivial) = check_record(&h, &r);
            let verdict = verdict.map_err(|(t, d)| {
                (t, format!("{d} || header={} || rec={:?}", header_text(&h).replace('\n', "\\n"), r))
            });
            finish(Obs::ok("-", nontrivial), verdict)
        }
        _ => Obs::fail("-", "unknown-kind", &c.kind),
    }
}

fn main() {
    nv::main_with(generate, run)
}
