//! C20: format autodetection picks the written format; conversions keep content.
//!
//! Modelled kinds (obs compared with the extracted Coq model NV.Util.Detect):
//!   da cfg W avail stop   alignment reader Builder (cfg = overrides, `--` = autodetect) on a source
//!                         whose first read delivers exactly the window W and then ends;
//!                         avail/stop = what flate2's MultiGzDecoder delivers from W (the DEFLATE
//!                         oracle input of the model; re-validated here).  obs = Ok:<F>:<K> | Err:<kind>
//!   daf ...               same, but the compression decision is not observable through the public
//!                         API on this window (both readers behave identically): obs = Ok:<F>:~
//!   dv / dvf              the variant twins
//!   hz seed               (not modelled) the theorems' oracle premises on the real BGZF writer / flate2 decoder
//!   wk wkv wp wpv ix iv vf fw dw dwf dwv dwvf   see shared/c20_dispatch.rs (models NV.Util.Dispatch, NV.Util.Fill)
//!   aw adw adwf adwx adwv adwvf   see shared/c20_async.rs (model NV.Util.AsyncFill: the async reader builders)
//!   cvsb cvbs cvf   see shared/c20_convert.rs (model NV.Util.Convert: one record SAM -> BAM, BAM -> SAM)
//!   cvfb cvbf cvfz cvbz   see shared/c20_convert.rs (model NV.Util.ConvertFile2: whole files from bytes, BGZF layer)
//!   cvvh                  see shared/c20_vconv.rs (model NV.Util.ConvertVariantHdr: whole file VCF -> BCF, header block derived)
//!   cvbh                  see shared/c20_vconv.rs (model NV.Util.ConvertVariantHdrRev: whole file BCF -> VCF, prefix read + header derived)
//!   cvvb cvbv cvvl cvbl   see shared/c20_vconv.rs (model NV.Util.ConvertVariant: VCF <-> BCF records and record sections)
//! Implementation-only oracles (the property itself, public generic builders only):
//!   art fmt seed nrec hdr rdr      write through alignment::io::writer::Builder, read back through
//!                                  alignment::io::reader::Builder::default() (autodetect) over reader `rdr`
//!   acv src dst seed nrec hdr      generic reader of src piped into generic writer of dst, read back
//!   acx src dst text refs          the same for an explicitly given data set (regression cases of repaired classes)
//!   crx seed nrec cls | crx t text refs   rich data sets through CRAM, all five conversions: see shared/c20_cram.rs
//!   vrt / vcv                      the variant twins
//!   aas / vas                      async builders against the sync ones

#[path = "../shared/c20_align.rs"]
mod align;
#[path = "../shared/c20_async.rs"]
mod asyncrd;
#[path = "../shared/c20_common.rs"]
mod common;
#[path = "../shared/c20_convert.rs"]
mod convert;
#[path = "../shared/c20_cram.rs"]
mod cram;
#[path = "../shared/c20_detect.rs"]
mod detect;
#[path = "../shared/c20_dispatch.rs"]
mod dispatch;
#[path = "../shared/c20_variant.rs"]
mod variant;
#[path = "../shared/c20_vconv.rs"]
mod vconv;

use nv::{Case, CaseWriter, Obs, Rng};

fn generate(rng: &mut Rng, tier: &str, w: &mut CaseWriter) {
    detect::generate(rng, tier, w);
    align::generate(rng, tier, w);
    variant::generate(rng, tier, w);
    dispatch::generate(rng, tier, w);
    asyncrd::generate(rng, tier, w);
    convert::generate(rng, tier, w);
    vconv::generate(rng, tier, w);
    cram::generate(rng, tier, w);
}

fn run(c: &Case) -> Obs {
    match c.kind.as_str() {
        "da" | "daf" | "dv" | "dvf" | "hz" => detect::run(c),
        "art" | "atx" | "acv" | "acx" | "aas" => align::run(c),
        "vrt" | "vtx" | "vcv" | "vcx" | "vas" => variant::run(c),
        "wk" | "wkv" | "wp" | "wpv" | "ix" | "iv" | "vf" | "fw" | "dw" | "dwf" | "dwv" | "dwvf" => dispatch::run(c),
        "cvsb" | "cvbs" | "cvf" | "cvfb" | "cvbf" | "cvfz" | "cvbz" => convert::run(c),
        "cvvb" | "cvbv" | "cvvl" | "cvbl" | "cvvh" | "cvbh" => vconv::run(c),
        "aw" | "adw" | "adwf" | "adwx" | "adwv" | "adwvf" => asyncrd::run(c),
        "crx" => cram::run(c),
        _ => Obs::fail("-", "harness-unknown-kind", &c.kind),
    }
}

fn main() {
    nv::main_with(generate, run)
}
